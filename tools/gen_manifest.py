#!/usr/bin/env python3
"""Regenerates /verif/MANIFEST.json from the rule packs present and the per-property texts in tsa/props.py."""
import json
import os
import sys

VERIF = os.path.dirname(os.path.dirname(os.path.abspath(__file__)))
sys.path.insert(0, VERIF)
from tsa.props import NOT_APPLICABLE, PROPS  # noqa: E402

COMMON_NOTE = (
    "Static analysis only (ast of /repo, nothing imported or run). Trusted base: Amaranth semantics as used by the rules "
    "(last assignment wins; If/Elif/Else, Switch arms, FSM states exclusive; Memory port semantics; Signal(range(n)) holds 0..n-1), "
    "networkx topological sort, Python's ast, the extractor tsa/stage.py and the reference tables in tsa/rules. "
    "A passing check means every named mechanism is intact (necessary conditions of the property); it does not prove the "
    "behaviour over all histories. Not decided: "
)

ids = [json.loads(l)["id"] for l in open(os.path.join(VERIF, "properties.jsonl"))]
checks = []
na = []
for pid in ids:
    have = os.path.exists(os.path.join(VERIF, "tsa", "rules", f"{pid}.py"))
    if pid in NOT_APPLICABLE or not have or pid not in PROPS:
        na.append({"property_id": pid, "reason": NOT_APPLICABLE.get(pid, "no static rule pack has been built for this property yet")})
        continue
    p = PROPS[pid]
    checks.append(
        {
            "property_id": pid,
            "quick_cmd": f"./check {pid} --tier quick",
            "thorough_cmd": f"./check {pid} --tier thorough",
            "evidence_file": f"/verif/evidence/{pid}.json",
            "replay_cmd_template": f"./check {pid} --explain {{path}}",
            "engine": "tsa",
            "level_claimed": {"category": "other", "text": p["level"], "design_ref": p.get("ref", f"DESIGN.md section 4, {pid}")},
            "level_note": COMMON_NOTE + p["undecided"],
            "technique": p["technique"],
        }
    )

manifest = {
    "version": 1,
    "setup_cmd": "true",
    "hooks": {
        "guard": "TRANSACTRON_VERIF",
        "enable": "no hooks: the checks read /repo sources with ast only; the guard name is reserved and unused",
        "baseline_off_cmd": "cd /repo && /venv/bin/python -m pytest -ra -q -p no:cacheprovider --timeout=900 --continue-on-collection-errors",
        "source_commits": [],
        "add_only": True,
    },
    "engines": [
        {
            "name": "tsa",
            "path": "/verif/tsa",
            "serves_properties": [c["property_id"] for c in checks],
            "kind_free_text": "repository-specific static analyser: staged-DSL extractor over the ast (hardware fact base per "
            "static configuration), propositional / linear / decision-table normal forms, python-level path facts, rule packs per property",
        }
    ],
    "checks": checks,
    "notes": "Exit codes: 0 pass (KNOWN-FINDING lines for listed findings), 1 VIOLATION, 2 ANALYSIS-ERROR (anchor vanished / idiom "
    "not modelled; never a VIOLATION line). Known findings: /verif/known_findings.json. Genuine-defect demonstrations: /verif/findings/. "
    "Seeded breaking changes: /verif/seeded/.",
    "not_applicable": na,
}
with open(os.path.join(VERIF, "MANIFEST.json"), "w") as fh:
    json.dump(manifest, fh, indent=1)
print(f"{len(checks)} checks, {len(na)} not applicable")
