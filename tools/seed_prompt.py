#!/usr/bin/env python3
"""Prints the prompt given to an independent sub-agent that seeds a property-breaking change (it gets only the property)."""
import json, sys
pid = sys.argv[1]
wt = sys.argv[2]
for l in open("/verif/properties.jsonl"):
    p = json.loads(l)
    if p["id"] == pid:
        break
print(f"""You are helping to evaluate verification tooling for the open-source Python library `transactron` (a library for Amaranth HDL that elaborates Bluespec-style guarded atomic transactions and methods into hardware).  Your job: introduce a SUBTLE BUG.

Work ONLY inside the git worktree `{wt}` (a checkout of the library; run everything with cwd={wt}; python is /venv/bin/python; `import transactron` then resolves to the worktree copy).  Never touch /repo or /verif and do not read anything under /verif.

The property that your change must break:

  id: {p['id']}
  title: {p['title']}
  statement: {p['statement']}
  quantifier: {p['quantifier']['text']}
  why the existing tests cannot settle it: {p['why_tests_cant']}
  code it is anchored in: {', '.join(p['anchors']['files'])}
  mechanisms: {'; '.join(m.get('name','') + ' @ ' + m.get('where','') for m in p['anchors']['mechanism'])}

Produce TWO different changes (different mechanisms / different places if at all possible), each of which:
  1. edits only library code under `transactron/` (not tests, not docs);
  2. still imports/compiles, and the EXISTING test suite still passes with it (run the relevant test files and everything that could plausibly depend on the code you touch, e.g. `/venv/bin/python -m pytest -q -p no:cacheprovider -n 4 test/core test/lib/test_x.py test/utils/...`; do NOT run the whole suite - the machine is shared and the whole suite will be run for you afterwards; the hypothesis-based tests in test/utils/test_utils.py, test/lib/test_stack.py and `TestContentAddressableMemory::test_random` fail intermittently with DeadlineExceeded/Flaky under load even on the unchanged code - rerun such a failure alone before concluding anything);
  3. breaks the property above in a way that needs something specific to manifest: a particular interleaving / cycle pattern, a multi-step sequence of calls, an unusual configuration or input, or two cooperating sites that each look fine alone - NOT something that ordinary use would expose at once (otherwise the existing tests would catch it);
  4. is realistic: it should look like a plausible refactoring slip, off-by-one, wrong index, swapped operands, dropped condition, reordered statements etc., not sabotage with dead giveaways (no comments announcing the bug).

For each change K in (1, 2) deliver in `{wt}`:
  - `patchK.diff`: the change as `git diff` output (relative to the worktree HEAD, only the library edit);
  - `demoK.py`: a small self-contained demonstration program (simulation with amaranth's simulator / transactron.testing helpers, or an elaboration) that exits with status 0 on the ORIGINAL code and with a non-zero status (or an assertion failure) when patchK is applied.  Verify both directions yourself with `git apply patchK.diff` / `git apply -R patchK.diff` (NEVER use `git stash`: the stash is shared between worktrees and other agents work in parallel).
  - leave the worktree clean (no change applied) at the end, with the four files present (untracked).

Useful facts: simulate with `from amaranth.sim import Simulator`; wrap a design in `transactron.core.context.TransactronContextElaboratable(dut)`; testbench helpers are in `transactron/testing` (see how tests under `test/` build circuits, e.g. `SimpleTestCircuit`, `TestbenchIO`, `AdapterTrans`).  Construct things that need the dependency manager inside `with DependencyContext(DependencyManager()):` when elaborating by hand.  A design needs at least one `m.d.sync` statement for `sim.add_clock` to work.

Final answer: for each change, 5-10 lines: what you changed (file/function), why it breaks the property, what is needed for it to manifest, exactly which commands you ran and their results (existing tests pass? demo passes on original / fails with patch?).  If you could only produce one valid change, say so.""")
