#!/usr/bin/env python3
"""Runs every pack on the behaviour-preserving refactoring patches under /verif/refactorings/ (written by independent
sub-agents acting as maintainers, see DESIGN 12.4) and writes /verif/refactorings/INDEX.md: per patch, which packs stay
silent, which raise a (false) VIOLATION and which refuse the tree with exit 2.  A development aid that measures how far
the rules' normal forms reach; it is not a registered check.  Scratch worktrees live under --scratch (default
/tmp/tsa_refcorpus) and are removed."""
import argparse, glob, json, os, re, shutil, subprocess, sys
from concurrent.futures import ThreadPoolExecutor

ap = argparse.ArgumentParser()
ap.add_argument("--scratch", default="/tmp/tsa_refcorpus")
ap.add_argument("--jobs", type=int, default=12)
ap.add_argument("patches", nargs="*")
a = ap.parse_args()
ids = [json.loads(l)["id"] for l in open("/verif/properties.jsonl")]
patches = a.patches or sorted(glob.glob("/verif/refactorings/*.diff"))
os.makedirs(a.scratch, exist_ok=True)
rows = []
for p in patches:
    name = os.path.basename(p)[:-5]
    wt = os.path.join(a.scratch, name)
    subprocess.run(["git", "-C", "/repo", "worktree", "add", "-q", "--detach", wt, "HEAD"], check=True)
    try:
        q = subprocess.run(["git", "apply", p], cwd=wt, capture_output=True, text=True)
        if q.returncode != 0:
            rows.append((name, None, None, "patch no longer applies"))
            continue
        ev = os.path.join(a.scratch, "ev_" + name)
        env = dict(os.environ, TSA_REPO=wt, TSA_EVIDENCE_DIR=ev)

        def one(pid):
            r = subprocess.run(["/verif/check", pid, "--tier", "quick"], cwd="/verif", capture_output=True, text=True, env=env)
            rules = sorted(set(re.findall(r"rule (\S+) at", r.stdout)))
            return pid, r.returncode, "VIOLATION property=" in r.stdout, rules

        with ThreadPoolExecutor(a.jobs) as ex:
            res = list(ex.map(one, ids))
        alarms = [(pid, rules) for pid, rc, v, rules in res if v]
        refused = [pid for pid, rc, v, rules in res if rc == 2 and not v]
        rows.append((name, alarms, refused, ""))
        shutil.rmtree(ev, ignore_errors=True)
        print(name, "alarms:", [x[0] for x in alarms], "refused:", refused, flush=True)
    finally:
        subprocess.run(["git", "-C", "/repo", "worktree", "remove", "--force", wt], capture_output=True)
shutil.rmtree(a.scratch, ignore_errors=True)
if not a.patches:
    clean = sum(1 for r in rows if r[1] == [] and r[2] == [])
    with open("/verif/refactorings/INDEX.md", "w") as fh:
        fh.write("Behaviour-preserving refactoring patches (each keeps the tests green and, where it could be compared, the generated RTLIL)\n")
        fh.write(f"and what the 43 quick checks say about the patched tree.  {clean} of {len(rows)} patches leave every pack silent.\n\n")
        fh.write("| patch | packs raising a false VIOLATION (rules) | packs refusing (exit 2) |\n|---|---|---|\n")
        for name, alarms, refused, note in rows:
            if alarms is None:
                fh.write(f"| {name} | {note} | |\n")
                continue
            al = "; ".join(f"{pid}: {', '.join(r.split('.', 1)[1] if '.' in r else r for r in rules[:4])}" for pid, rules in alarms) or "none"
            fh.write(f"| {name} | {al} | {', '.join(refused) or 'none'} |\n")
    print("written /verif/refactorings/INDEX.md")
