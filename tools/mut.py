#!/usr/bin/env python3
"""Dev aid: run the registered mutants of a property (all, or one by name) and print outcomes."""
import sys
sys.path.insert(0, "/verif")
from tsa.driver import load_rules, outcome
from tsa.front import Repo
prop = sys.argv[1]
only = sys.argv[2] if len(sys.argv) > 2 else None
mod = load_rules(prop)
repo = Repo()
for mu in mod.MUTANTS:
    name, rel, old, new = mu[:4]
    if only and name != only:
        continue
    src = repo.modules[rel].source
    if src.count(old) != 1:
        print(f"SKIP {name}: anchor occurs {src.count(old)} times")
        continue
    kind, detail = outcome(prop, "quick", {rel: src.replace(old, new)})
    print(f"{kind.upper():9} {name}" + ("" if kind == "violation" and not only else "  " + " | ".join(detail[:4])))
