#!/usr/bin/env python3
"""Dev aid: list obligations of the last run of a property (re-runs rules in-process)."""
import sys
sys.path.insert(0, "/verif")
from tsa.driver import run_rules
ctx = run_rules(sys.argv[1], sys.argv[2] if len(sys.argv) > 2 else "quick")
for o in ctx.obligations:
    print(("OK " if o.status == "discharged" else "BAD"), o.rule, "|", o.construct, "|", o.site.split("/")[-1], "|", o.found[:140])
