#!/usr/bin/env python3
"""Dev aid (false-alarm resistance): builds behaviour-preserving variants of /repo/transactron in a scratch directory and
runs every rule pack on them.  A VIOLATION on a variant is a false alarm of the rule; an ANALYSIS-ERROR is tolerated by the
outcome policy but listed (the rule leans on a surface form).

variants:
  unparse   every module re-printed by ast.unparse (comments and docstring layout gone, line numbers, parentheses and
            quoting changed)
  rename    local variables of every function renamed (`x` -> `x_rn`), consistently in nested scopes
"""
import ast
import glob
import os
import shutil
import subprocess
import symtable
import sys
import tempfile

# the repository uses PEP 695 syntax: parse it with the repository's own interpreter
if sys.version_info < (3, 12) and os.path.exists("/venv/bin/python"):
    os.environ["PYTHONPATH"] = "/verif" + (os.pathsep + os.environ["PYTHONPATH"] if os.environ.get("PYTHONPATH") else "")
    os.execv("/venv/bin/python", ["/venv/bin/python"] + sys.argv)

VERIF = "/verif"
SRC = "/repo"


def unparse_variant(src: str) -> str:
    return ast.unparse(ast.parse(src)) + "\n"


class _Renamer(ast.NodeTransformer):
    """Renames the locals of each function scope; nested scopes see the renamed name unless they rebind it."""

    def __init__(self, table: symtable.SymbolTable):
        self.stack = []  # list of dicts old -> new
        self.tables = [table]

    def _child_table(self, node):
        for ch in self.tables[-1].get_children():
            if ch.get_lineno() == node.lineno and ch.get_name() == getattr(node, "name", ch.get_name()):
                return ch
        for ch in self.tables[-1].get_children():
            if ch.get_lineno() == node.lineno:
                return ch
        return None

    def _enter_function(self, node):
        tab = self._child_table(node)
        mapping = dict(self.stack[-1]) if self.stack else {}
        if tab is not None:
            for sym in tab.get_symbols():
                n = sym.get_name()
                if sym.is_parameter() or sym.is_global() or sym.is_declared_global() or sym.is_nonlocal():
                    if sym.is_parameter() or sym.is_declared_global() or sym.is_global():
                        mapping.pop(n, None)
                    continue
                if sym.is_local() and sym.is_assigned() and not sym.is_namespace() and not sym.is_imported() and not n.startswith("__") and n != "_":
                    mapping[n] = n + "_rn"
                elif sym.is_local():
                    mapping.pop(n, None)  # nested def/class names, imports: keep
        return tab, mapping

    def visit_FunctionDef(self, node):
        tab, mapping = self._enter_function(node)
        # decorators, defaults and annotations belong to the enclosing scope
        node.decorator_list = [self.visit(d) for d in node.decorator_list]
        node.args.defaults = [self.visit(d) for d in node.args.defaults]
        node.args.kw_defaults = [self.visit(d) if d is not None else None for d in node.args.kw_defaults]
        if tab is None:
            return node
        self.stack.append(mapping)
        self.tables.append(tab)
        node.body = [self.visit(s) for s in node.body]
        self.tables.pop()
        self.stack.pop()
        return node

    visit_AsyncFunctionDef = visit_FunctionDef

    def visit_Lambda(self, node):
        tab = self._child_table(node)
        if tab is None:
            return node
        mapping = dict(self.stack[-1]) if self.stack else {}
        for sym in tab.get_symbols():
            if sym.is_parameter():
                mapping.pop(sym.get_name(), None)
        self.stack.append(mapping)
        self.tables.append(tab)
        node.body = self.visit(node.body)
        self.tables.pop()
        self.stack.pop()
        return node

    def visit_ClassDef(self, node):
        tab = self._child_table(node)
        node.decorator_list = [self.visit(d) for d in node.decorator_list]
        node.bases = [self.visit(b) for b in node.bases]
        if tab is None:
            return node
        # class bodies do not rename their own attributes; methods are handled as functions
        self.stack.append({})
        self.tables.append(tab)
        node.body = [self.visit(s) for s in node.body]
        self.tables.pop()
        self.stack.pop()
        return node

    def _comp(self, node):
        # comprehension scopes: their targets are their own locals; keep them, but rename free uses of outer locals
        targets = set()
        for g in node.generators:
            for n in ast.walk(g.target):
                if isinstance(n, ast.Name):
                    targets.add(n.id)
        mapping = {k: v for k, v in (self.stack[-1] if self.stack else {}).items() if k not in targets}
        # the first iterable is evaluated in the enclosing scope
        first = node.generators[0]
        first.iter = self.visit(first.iter)
        self.stack.append(mapping)
        for k, g in enumerate(node.generators):
            if k > 0:
                g.iter = self.visit(g.iter)
            g.ifs = [self.visit(c) for c in g.ifs]
        if isinstance(node, ast.DictComp):
            node.key = self.visit(node.key)
            node.value = self.visit(node.value)
        else:
            node.elt = self.visit(node.elt)
        self.stack.pop()
        return node

    visit_ListComp = visit_SetComp = visit_GeneratorExp = visit_DictComp = _comp

    def visit_Name(self, node):
        if self.stack and node.id in self.stack[-1]:
            return ast.copy_location(ast.Name(id=self.stack[-1][node.id], ctx=node.ctx), node)
        return node

    def visit_Global(self, node):
        return node

    def visit_Nonlocal(self, node):
        if self.stack:
            node.names = [self.stack[-1].get(n, n) for n in node.names]
        return node


def rename_variant(src: str, filename: str) -> str:
    tree = ast.parse(src)
    table = symtable.symtable(src, filename, "exec")
    tree = _Renamer(table).visit(tree)
    ast.fix_missing_locations(tree)
    out = ast.unparse(tree) + "\n"
    compile(out, filename, "exec")
    return out


class _Swapper(ast.NodeTransformer):
    """a & b -> b & a (also |, ^), a == b -> b == a, a != b -> b != a, a < b -> b > a, a <= b -> b >= a."""

    def visit_BinOp(self, node):
        self.generic_visit(node)
        if isinstance(node.op, (ast.BitAnd, ast.BitOr, ast.BitXor)):
            node.left, node.right = node.right, node.left
        return node

    def visit_Compare(self, node):
        self.generic_visit(node)
        if len(node.ops) == 1:
            flip = {ast.Eq: ast.Eq, ast.NotEq: ast.NotEq, ast.Lt: ast.Gt, ast.Gt: ast.Lt, ast.LtE: ast.GtE, ast.GtE: ast.LtE}
            t = type(node.ops[0])
            if t in flip:
                node.left, node.comparators = node.comparators[0], [node.left]
                node.ops = [flip[t]()]
        return node


class _IfSwapper(ast.NodeTransformer):
    """if c: A else: B  ->  if not c: B else: A   (python-level two-armed ifs only, no elif chains)."""

    def visit_If(self, node):
        self.generic_visit(node)
        if node.orelse and not (len(node.orelse) == 1 and isinstance(node.orelse[0], ast.If)):
            node.test = ast.UnaryOp(op=ast.Not(), operand=node.test)
            node.body, node.orelse = node.orelse, node.body
        return node

    def visit_IfExp(self, node):
        self.generic_visit(node)
        node.test = ast.UnaryOp(op=ast.Not(), operand=node.test)
        node.body, node.orelse = node.orelse, node.body
        return node


class _IfSplitter(ast.NodeTransformer):
    """with m.If(a & b): BODY  ->  with m.If(a): with m.If(b): BODY   when no Elif/Else follows that If."""

    @staticmethod
    def _ctl(st):
        if isinstance(st, ast.With) and len(st.items) == 1 and isinstance(st.items[0].context_expr, ast.Call) and isinstance(st.items[0].context_expr.func, ast.Attribute):
            return st.items[0].context_expr.func.attr
        return None

    def _split_block(self, body):
        out = []
        for k, st in enumerate(body):
            st = self.visit(st)
            nxt = self._ctl(body[k + 1]) if k + 1 < len(body) else None
            if self._ctl(st) == "If" and nxt not in ("Elif", "Else"):
                call = st.items[0].context_expr
                if len(call.args) == 1 and not call.keywords and isinstance(call.args[0], ast.BinOp) and isinstance(call.args[0].op, ast.BitAnd) and st.items[0].optional_vars is None:
                    a, b = call.args[0].left, call.args[0].right
                    inner = ast.With(items=[ast.withitem(context_expr=ast.Call(func=call.func, args=[b], keywords=[]), optional_vars=None)], body=st.body)
                    st = ast.With(items=[ast.withitem(context_expr=ast.Call(func=call.func, args=[a], keywords=[]), optional_vars=None)], body=[inner])
            out.append(st)
        return out

    def generic_visit(self, node):
        for field in ("body", "orelse", "finalbody"):
            blk = getattr(node, field, None)
            if isinstance(blk, list) and blk and isinstance(blk[0], ast.stmt):
                setattr(node, field, self._split_block(blk))
        if isinstance(node, ast.Try):
            for h in node.handlers:
                h.body = self._split_block(h.body)
        return node

    def visit(self, node):
        return self.generic_visit(node)


def tree_variant(src: str, transformer) -> str:
    tree = transformer.visit(ast.parse(src))
    ast.fix_missing_locations(tree)
    return ast.unparse(tree) + "\n"


def build(variant: str, root: str):
    n = 0
    for path in glob.glob(f"{SRC}/transactron/**/*.py", recursive=True) + glob.glob(f"{SRC}/test/**/*.py", recursive=True):
        rel = os.path.relpath(path, SRC)
        dst = os.path.join(root, rel)
        os.makedirs(os.path.dirname(dst), exist_ok=True)
        src = open(path).read()
        if rel.startswith("transactron/"):
            try:
                if variant == "unparse":
                    src2 = unparse_variant(src)
                elif variant == "rename":
                    src2 = rename_variant(src, rel)
                elif variant == "swap":
                    src2 = tree_variant(src, _Swapper())
                elif variant == "ifswap":
                    src2 = tree_variant(src, _IfSwapper())
                elif variant == "ifsplit":
                    src2 = tree_variant(src, _IfSplitter())
                else:
                    raise SystemExit(f"unknown variant {variant}")
                n += 1
            except Exception as e:  # keep the original when the transformation is not applicable
                print(f"  kept {rel}: {type(e).__name__}: {e}")
                src2 = src
        else:
            src2 = src
        open(dst, "w").write(src2)
    return n


def main():
    variants = [a for a in sys.argv[1:] if not a.startswith("--")] or ["unparse", "rename", "swap", "ifswap", "ifsplit"]
    packs = sorted(os.path.basename(p)[:-3] for p in glob.glob(f"{VERIF}/tsa/rules/C[0-9][0-9].py"))
    for variant in variants:
        root = tempfile.mkdtemp(prefix=f"benign_{variant}_")
        evdir = tempfile.mkdtemp(prefix="benign_ev_")
        try:
            n = build(variant, root)
            # the variant must still be importable python
            rc = subprocess.run(["/venv/bin/python", "-m", "compileall", "-q", os.path.join(root, "transactron")], capture_output=True, text=True)
            print(f"== variant {variant}: {n} modules transformed, compileall exit {rc.returncode}")
            env = dict(os.environ, TSA_REPO=root, TSA_EVIDENCE_DIR=evdir)
            procs = {p: subprocess.Popen([f"{VERIF}/check", p], stdout=subprocess.PIPE, stderr=subprocess.STDOUT, text=True, cwd=VERIF, env=env) for p in packs}
            res = {"pass": [], "violation": [], "error": []}
            for p, pr in procs.items():
                out = pr.communicate()[0]
                if pr.returncode == 0:
                    res["pass"].append(p)
                elif pr.returncode == 1:
                    res["violation"].append(p)
                    for ln in out.splitlines():
                        if ": rule " in ln:
                            print("   FALSE ALARM", p, ln.strip()[:260])
                else:
                    res["error"].append(p)
                    for ln in out.splitlines():
                        if ln.startswith("ANALYSIS-ERROR"):
                            print("   analysis error", p, ln[:260])
            print(f"   pass {len(res['pass'])}  false alarms {res['violation']}  analysis errors {res['error']}")
        finally:
            if "--keep" not in sys.argv:
                shutil.rmtree(root, ignore_errors=True)
            shutil.rmtree(evdir, ignore_errors=True)


if __name__ == "__main__":
    main()
