#!/usr/bin/env python3
"""Dev aid (blind-spot search): generic single-point mutations of the files a property is anchored in, applied in memory,
each run through every rule pack that reads that file.  Survivors (all packs pass) are listed for review: they are either
equivalent / outside every property, or a blind spot of the rules.

usage: tools/sweep.py <relpath> [<relpath> ...] [--jobs N] [--max M] [--lines A-B]
output: /tmp/sweep_<file>.json and a summary on stdout
"""
import ast
import glob
import json
import os
import sys
from multiprocessing import Pool

# the repository uses PEP 695 syntax: parse it with the repository's own interpreter
if sys.version_info < (3, 12) and os.path.exists("/venv/bin/python"):
    os.environ["PYTHONPATH"] = "/verif" + (os.pathsep + os.environ["PYTHONPATH"] if os.environ.get("PYTHONPATH") else "")
    os.execv("/venv/bin/python", ["/venv/bin/python"] + sys.argv)

sys.path.insert(0, "/verif")
os.environ.setdefault("TSA_QUIET", "1")


def packs_reading(rel: str) -> list[str]:
    out = []
    for f in sorted(glob.glob("/verif/evidence/C??.json")):
        d = json.load(open(f))
        dig = d.get("source_digests") or d.get("details", {}).get("source_digests") or {}
        txt = json.dumps(d)
        if rel in dig or f'"{rel}"' in txt:
            out.append(os.path.basename(f)[:-5])
    return out


def seg(src_lines, node):
    return (node.lineno, node.col_offset, node.end_lineno, node.end_col_offset)


def splice(src: str, node, new: str) -> str:
    lines = src.splitlines(keepends=True)
    l1, c1, l2, c2 = node.lineno - 1, node.col_offset, node.end_lineno - 1, node.end_col_offset
    # col offsets are utf-8 byte offsets; the sources are ascii where it matters
    head = "".join(lines[:l1]) + lines[l1][:c1]
    tail = lines[l2][c2:] + "".join(lines[l2 + 1:])
    return head + new + tail


def mutations(src: str, lo: int, hi: int):
    tree = ast.parse(src)
    docstrings = set()
    for n in ast.walk(tree):
        if isinstance(n, (ast.FunctionDef, ast.ClassDef, ast.Module, ast.AsyncFunctionDef)) and n.body and isinstance(n.body[0], ast.Expr) and isinstance(n.body[0].value, ast.Constant) and isinstance(n.body[0].value.value, str):
            docstrings.add(id(n.body[0].value))
    # type annotations, assertions and overload stubs are not behaviour: skip everything below them
    skip = set()
    for n in ast.walk(tree):
        subs = []
        if isinstance(n, (ast.FunctionDef, ast.AsyncFunctionDef)):
            subs += [a.annotation for a in n.args.args + n.args.kwonlyargs + n.args.posonlyargs if a.annotation is not None]
            subs += [x.annotation for x in (n.args.vararg, n.args.kwarg) if x is not None and x.annotation is not None]
            if n.returns is not None:
                subs.append(n.returns)
            subs += list(getattr(n, "type_params", []))
            if any(isinstance(d, ast.Name) and d.id == "overload" for d in n.decorator_list):
                subs.append(n)
        if isinstance(n, ast.ClassDef):
            subs += list(getattr(n, "type_params", [])) + list(n.bases)
        if isinstance(n, ast.AnnAssign):
            subs.append(n.annotation)
        if isinstance(n, ast.Assert):
            subs.append(n)
        if isinstance(n, ast.Call) and isinstance(n.func, ast.Name) and n.func.id == "cast" and n.args:
            subs.append(n.args[0])
        for s_ in subs:
            for x in ast.walk(s_):
                skip.add(id(x))
    for n in ast.walk(tree):
        ln = getattr(n, "lineno", None)
        if ln is None or not (lo <= ln <= hi) or id(n) in skip:
            continue
        txt = ast.get_source_segment(src, n)
        if isinstance(n, ast.BinOp):
            swap = {ast.BitAnd: "|", ast.BitOr: "&", ast.Add: "-", ast.Sub: "+", ast.LShift: ">>", ast.RShift: "<<"}
            for t, sym in swap.items():
                if isinstance(n.op, t):
                    yield ln, f"binop->{sym}", splice(src, n, f"(({ast.get_source_segment(src, n.left)}) {sym} ({ast.get_source_segment(src, n.right)}))")
        elif isinstance(n, ast.Compare) and len(n.ops) == 1:
            swap = {ast.Eq: "!=", ast.NotEq: "==", ast.Lt: "<=", ast.LtE: "<", ast.Gt: ">=", ast.GtE: ">", ast.In: "not in", ast.NotIn: "in", ast.Is: "is not", ast.IsNot: "is"}
            for t, sym in swap.items():
                if isinstance(n.ops[0], t):
                    yield ln, f"cmp->{sym}", splice(src, n, f"(({ast.get_source_segment(src, n.left)}) {sym} ({ast.get_source_segment(src, n.comparators[0])}))")
        elif isinstance(n, ast.UnaryOp) and isinstance(n.op, (ast.Invert, ast.Not)):
            yield ln, "drop-negation", splice(src, n, f"({ast.get_source_segment(src, n.operand)})")
        elif isinstance(n, ast.Constant) and id(n) not in docstrings:
            if isinstance(n.value, bool):
                yield ln, f"bool->{not n.value}", splice(src, n, str(not n.value))
            elif isinstance(n.value, int) and 0 <= n.value <= 3:
                yield ln, f"int{n.value}->{n.value + 1}", splice(src, n, str(n.value + 1))
                if n.value > 0:
                    yield ln, f"int{n.value}->{n.value - 1}", splice(src, n, str(n.value - 1))
        elif isinstance(n, ast.Attribute) and isinstance(n.value, ast.Attribute) and n.value.attr == "d" and n.attr in ("comb", "av_comb", "top_comb", "sync"):
            alt = {"comb": ["av_comb", "sync"], "av_comb": ["comb"], "top_comb": ["comb"], "sync": ["comb"]}[n.attr]
            for a in alt:
                yield ln, f"domain {n.attr}->{a}", splice(src, n, f"{ast.get_source_segment(src, n.value)}.{a}")
        elif isinstance(n, ast.AugAssign) and isinstance(n.target, ast.Attribute) and isinstance(n.target.value, ast.Attribute) and n.target.value.attr == "d":
            yield ln, "drop-hw-statement", splice(src, n, "pass")
        elif isinstance(n, ast.Call) and isinstance(n.func, ast.Name) and n.func.id == "Mux" and len(n.args) == 3:
            a = [ast.get_source_segment(src, x) for x in n.args]
            yield ln, "mux-arms-swapped", splice(src, n, f"Mux({a[0]}, {a[2]}, {a[1]})")
        elif isinstance(n, ast.keyword) and n.arg in ("nonexclusive", "single_caller", "ready_dependent", "priority", "nonblocking") and isinstance(n.value, ast.Constant) and isinstance(n.value.value, bool):
            pass  # covered by the bool constant flip
        elif isinstance(n, ast.Subscript) and isinstance(n.slice, ast.Name) and isinstance(n.ctx, ast.Load) and not (
                isinstance(n.value, ast.Name) and n.value.id in ("set", "dict", "list", "frozenset", "deque", "defaultdict", "tuple", "type", "Graph", "GraphCC", "Optional", "Iterable", "Sequence")):
            yield ln, "index+1", splice(src, n, f"{ast.get_source_segment(src, n.value)}[{n.slice.id} + 1]")
        elif isinstance(n, ast.Expr) and isinstance(n.value, ast.Call) and txt and not txt.startswith(("super(", "print(")):
            yield ln, "drop-call-statement", splice(src, n, "pass")
        elif isinstance(n, ast.Raise):
            yield ln, "drop-raise", splice(src, n, "pass")
        # second family (semantic edits a maintainer could plausibly make)
        if isinstance(n, ast.Call) and isinstance(n.func, ast.Attribute) and n.func.attr in ("If", "Elif", "AvoidedIf") and len(n.args) == 1 and not n.keywords:
            a0 = ast.get_source_segment(src, n.args[0])
            base = ast.get_source_segment(src, n.func)
            yield ln, "cond-negated", splice(src, n, f"{base}(~({a0}))")
            yield ln, "cond-always", splice(src, n, f"{base}(1)")
        if isinstance(n, ast.Call) and isinstance(n.func, ast.Attribute) and n.func.attr in ("any", "all") and not n.args:
            other = "all" if n.func.attr == "any" else "any"
            yield ln, f"{n.func.attr}->{other}", splice(src, n, f"{ast.get_source_segment(src, n.func.value)}.{other}()")
        if isinstance(n, ast.Call) and any(k.arg == "ready" for k in n.keywords):
            kws = [k for k in n.keywords if k.arg != "ready"]
            parts = [ast.get_source_segment(src, a) for a in n.args] + [(f"{k.arg}=" if k.arg else "**") + ast.get_source_segment(src, k.value) for k in kws]
            yield ln, "ready-dropped", splice(src, n, f"{ast.get_source_segment(src, n.func)}({', '.join(parts)})")
        if isinstance(n, ast.Call) and isinstance(n.func, ast.Name) and n.func.id == "range" and n.args and not n.keywords:
            parts = [ast.get_source_segment(src, a) for a in n.args]
            k = 0 if len(parts) == 1 else 1
            parts[k] = f"({parts[k]}) - 1"
            yield ln, "range-short", splice(src, n, f"range({', '.join(parts)})")
        if isinstance(n, ast.Call) and isinstance(n.func, ast.Attribute) and n.func.attr == "eq" and len(n.args) == 1 and not (isinstance(n.args[0], ast.Constant)):
            yield ln, "stuck-at-0", splice(src, n, f"{ast.get_source_segment(src, n.func)}(0)")
        if isinstance(n, (ast.For, ast.comprehension)) and False:
            pass


def loop_var_swaps(src: str, lo: int, hi: int):
    """index confusion: inside nested loops, a subscript by the inner loop variable is changed to the outer one and back"""
    tree = ast.parse(src)

    def targets(t):
        if isinstance(t, ast.Name):
            return [t.id]
        if isinstance(t, (ast.Tuple, ast.List)):
            return [x for e in t.elts for x in targets(e)]
        return []

    def walk(node, scope):
        for ch in ast.iter_child_nodes(node):
            sc = scope
            if isinstance(ch, ast.For):
                sc = scope + [v for v in targets(ch.target)]
            if isinstance(ch, (ast.ListComp, ast.GeneratorExp, ast.SetComp)):
                sc = scope + [v for g in ch.generators for v in targets(g.target)]
            if isinstance(ch, ast.Subscript) and isinstance(ch.slice, ast.Name) and isinstance(ch.ctx, ast.Load) and ch.slice.id in sc and lo <= ch.lineno <= hi:
                for other in sc:
                    if other != ch.slice.id and other not in ("_",):
                        yield ch.lineno, f"index {ch.slice.id}->{other}", splice(src, ch, f"{ast.get_source_segment(src, ch.value)}[{other}]")
            yield from walk(ch, sc)

    yield from walk(tree, [])


def loop_exit_mutations(src: str, lo: int, hi: int):
    """Third family: a for loop that handles only some of its elements - `break` appended to the body (first element
    only), and `continue` for every element but the first inserted at the top of the body."""
    tree = ast.parse(src)
    lines = src.splitlines(keepends=True)
    for n in ast.walk(tree):
        if not isinstance(n, ast.For) or not (lo <= n.lineno <= hi) or n.orelse:
            continue
        first, last = n.body[0], n.body[-1]
        ind = " " * first.col_offset
        if not isinstance(last, (ast.Break, ast.Continue, ast.Return, ast.Raise)):
            out = lines[:last.end_lineno] + [ind + "break\n"] + lines[last.end_lineno:]
            yield n.lineno, "loop-break", "".join(out)
        it = ast.get_source_segment(src, n.iter)
        tg = ast.get_source_segment(src, n.target)
        if isinstance(n.target, ast.Name) and it and "\n" not in it:
            out = lines[:first.lineno - 1] + [ind + f"if {tg} is not next(iter({it}), None):\n", ind + "    continue\n"] + lines[first.lineno - 1:]
            yield n.lineno, "loop-skip-rest", "".join(out)


def job(args):
    rel, ln, op, src, packs = args
    from tsa.driver import outcome

    try:
        compile(src, rel, "exec")
    except SyntaxError:
        return (ln, op, "nocompile", [])
    res = {}
    for p in packs:
        kind, detail = outcome(p, "quick", {rel: src})
        res[p] = kind
        if kind == "violation":
            return (ln, op, "killed", [p])
    if any(v == "error" for v in res.values()):
        return (ln, op, "error", [p for p, v in res.items() if v == "error"])
    return (ln, op, "survived", [])


def main():
    args = [a for a in sys.argv[1:] if not a.startswith("--")]
    jobs = 6
    mx = None
    lo, hi = 1, 10**9
    for k, a in enumerate(sys.argv):
        if a == "--jobs":
            jobs = int(sys.argv[k + 1])
        if a == "--max":
            mx = int(sys.argv[k + 1])
        if a == "--lines":
            lo, hi = (int(x) for x in sys.argv[k + 1].split("-"))
    args = [a for a in args if a.endswith(".py")]
    for rel in args:
        src = open(os.path.join("/repo", rel)).read()
        packs = packs_reading(rel)
        muts = list(mutations(src, lo, hi)) + list(loop_var_swaps(src, lo, hi)) + list(loop_exit_mutations(src, lo, hi))
        for k, a in enumerate(sys.argv):
            if a == "--ops":
                want = sys.argv[k + 1].split(",")
                muts = [m_ for m_ in muts if any(w in m_[1] for w in want)]
        if mx:
            muts = muts[:mx]
        print(f"{rel}: {len(muts)} mutants, packs {packs}", flush=True)
        if not packs:
            continue
        with Pool(jobs) as pool:
            results = pool.map(job, [(rel, ln, op, s, packs) for ln, op, s in muts], chunksize=4)
        tally = {}
        for r in results:
            tally[r[2]] = tally.get(r[2], 0) + 1
        print("   ", tally)
        lines = src.splitlines()
        surv = [(ln, op) for ln, op, st, _ in results if st == "survived"]
        for ln, op in surv:
            print(f"    survived {rel}:{ln} [{op}]  {lines[ln - 1].strip()[:110]}")
        errs = [(ln, op, ps) for ln, op, st, ps in results if st == "error"]
        for ln, op, ps in errs[:40]:
            print(f"    analysis-error {rel}:{ln} [{op}] in {ps}  {lines[ln - 1].strip()[:90]}")
        json.dump([list(r) for r in results], open(f"/tmp/sweep_{os.path.basename(rel)}.json", "w"))


if __name__ == "__main__":
    main()
