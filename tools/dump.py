#!/venv/bin/python
"""Dev aid: dump the fact base of a function.  usage: dump.py <relpath> <qualname> [--all]"""
import sys
sys.path.insert(0, "/verif")
from tsa.front import Repo
from tsa.stage import *
from tsa.term import tstr

def fr(f):
    k = f[0]
    if k == "for":
        return "for " + ",".join(tstr(b) for b in f[1]) + " in " + tstr(f[2])
    if k == "py":
        return ("" if f[2] else "not ") + "PY(" + tstr(f[1]) + ")"
    if k in ("if", "avoid"):
        return f"{k}({tstr(f[1])})"
    if k == "elif":
        return f"elif({tstr(f[1])} | prev {[tstr(x) for x in f[2]]})"
    if k == "else":
        return f"else(prev {[tstr(x) for x in f[1]]})"
    if k == "body":
        return f"body@{f[1]}"
    return k + "(" + ",".join(tstr(x) if isinstance(x, tuple) and x and isinstance(x[0], str) else str(x) for x in f[1:]) + ")"

KINDS = {"c","n","self","p","a","i","slice","call","op","b","obj","arg","ret","lc","lam","list","tuple","set","dict","star","ife","fstr","loopvar","unk","branchfn","loopitems","v"}
def fmt(v):
    if isinstance(v, tuple):
        if v and isinstance(v[0], str) and v[0] in KINDS:
            return tstr(v)
        return "(" + ", ".join(fmt(x) for x in v) + ")"
    if isinstance(v, dict):
        return "{" + ", ".join(f"{k}: {fmt(x)}" for k, x in v.items()) + "}"
    return str(v)

repo = Repo()
fi = repo.func(sys.argv[1], sys.argv[2])
enter = tuple(a.split("=")[1] for a in sys.argv if a.startswith("--enter="))
exs = extract_all(repo, fi, enter=enter)
print(len(exs), "configs")
for ex in (exs if "--all" in sys.argv else exs[:1]):
    print("CONFIG", [(tstr(t), v) for t, v in ex.config])
    for oid, o in ex.objects.items():
        print(f"  obj #{oid} {o.name}: {tstr(o.ctor)}")
    for f in ex.facts:
        d = {k: v for k, v in f.__dict__.items() if k not in ("seq", "frames", "site", "config")}
        ds = ", ".join(f"{k}={v if k == 'params' else fmt(v)}" for k, v in d.items())
        print(f"  {f.seq:3} {type(f).__name__} {f.site.split(':')[1]} [{' / '.join(fr(x) for x in f.frames)}] {ds}")
