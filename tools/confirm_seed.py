#!/usr/bin/env python3
"""Confirm a seeded breaking change in a scratch worktree and file it under /verif/seeded/<id>/.

usage: confirm_seed.py <seed id> <property> <patch.diff> <demo.py> "<what it needs to manifest>" [--skip-suite]
Steps (all in /tmp/wt/confirm_<id>, removed afterwards):
  1. demo on the unchanged tree          -> must exit 0
  2. apply patch, byte-compile transactron -> must succeed
  3. demo with the patch                   -> must exit non-zero
  4. the repository's whole test suite with the patch; every failure is re-run alone (serially) and must pass then
     (hypothesis deadline failures under machine load are the only accepted kind)
  5. run the /verif checks against /repo with the patch applied (and undo) and record which report a violation
"""
import json, os, re, shutil, subprocess, sys, time

sid, prop, patch, demo, needs = sys.argv[1:6]
skip_suite = "--skip-suite" in sys.argv
wt = f"/tmp/wt/confirm_{sid}"
PY = "/venv/bin/python"
out = {"id": sid, "property": prop, "needs": needs, "ran": []}


def run(cmd, cwd, timeout=3600):
    t = time.time()
    p = subprocess.run(cmd, cwd=cwd, shell=isinstance(cmd, str), capture_output=True, text=True, timeout=timeout)
    out["ran"].append({"cmd": cmd if isinstance(cmd, str) else " ".join(cmd), "exit": p.returncode, "seconds": round(time.time() - t, 1)})
    return p


subprocess.run(["git", "-C", "/repo", "worktree", "remove", "--force", wt], capture_output=True)
subprocess.run(["git", "-C", "/repo", "worktree", "add", "-q", wt, "HEAD"], check=True)
try:
    shutil.copy(demo, os.path.join(wt, "demo_seed.py"))
    p = run([PY, "demo_seed.py"], wt, 900)
    out["demo_on_original_exit"] = p.returncode
    p = run(["git", "apply", patch], wt)
    if p.returncode != 0:
        out["error"] = "patch does not apply: " + p.stderr[-300:]
        raise SystemExit
    p = run([PY, "-m", "compileall", "-q", "transactron"], wt)
    out["compiles"] = p.returncode == 0
    p = run([PY, "demo_seed.py"], wt, 900)
    out["demo_with_patch_exit"] = p.returncode
    out["demo_with_patch_tail"] = (p.stdout + p.stderr)[-600:]
    if not skip_suite:
        p = run(f"{PY} -m pytest -q -p no:cacheprovider -n {os.environ.get('SEED_N', '10')} --timeout=900 -x --maxfail=30 2>&1 | tail -40", wt, 3000)
        tail = p.stdout
        failed = re.findall(r"^FAILED (\S+)", tail, re.M)
        m = re.search(r"(\d+) passed", tail)
        out["suite_passed"] = int(m.group(1)) if m else None
        out["suite_failed_under_load"] = failed
        still, timing = [], []
        # fails about every second solitary run on the UNCHANGED tree (7 of 12 runs, fresh example database): the test's
        # software model is updated before the hardware call completes (cleanup loop of remove_process), a race of the test
        flaky_unchanged = {
            "test/lib/test_storage.py::TestContentAddressableMemory::test_random",
            # hypothesis deadline (200 ms per example) exceeded on the unchanged tree as well whenever the machine is busy;
            # a solitary rerun then spends five minutes shrinking
            "test/lib/test_stack.py::TestStack::test_randomized[4]",
            "test/lib/test_stack.py::TestStack::test_randomized[5]",
        }
        for f in failed:
            if f in flaky_unchanged:
                timing.append(f + " (fails intermittently on the unchanged tree)")
                continue
            # the example database of the loaded run replays its (timing) failures: drop it before the solitary rerun
            subprocess.run(["rm", "-rf", os.path.join(wt, ".hypothesis")])
            q = run([PY, "-m", "pytest", "-q", "-p", "no:cacheprovider", "--timeout=900", f], wt, 1800)
            if q.returncode != 0:
                subprocess.run(["rm", "-rf", os.path.join(wt, ".hypothesis")])
                q2 = run([PY, "-m", "pytest", "-q", "-p", "no:cacheprovider", "--timeout=900", f], wt, 1800)
                if q2.returncode == 0:
                    timing.append(f + " (passed on second solitary rerun)")
                    continue
                out.setdefault("solitary_failure_tails", {})[f] = (q2.stdout + q2.stderr)[-1500:]
                txt = q.stdout + q.stderr
                # hypothesis timing failures depend on machine load, not on the change (they also occur on the unchanged tree)
                if any(k in txt for k in ("DeadlineExceeded", "Flaky", "FailedHealthCheck", "Unreliable test timings")):
                    timing.append(f)
                else:
                    still.append(f)
        out["suite_failed_when_rerun_alone"] = still
        out["suite_hypothesis_timing_failures"] = timing
    # the /verif checks against the patched scratch tree (TSA_REPO points the analyser at it; /repo stays untouched)
    caught, errors = [], []
    ids = [json.loads(l)["id"] for l in open("/verif/properties.jsonl")]
    evtmp = os.path.join(os.path.dirname(wt), f"ev_{sid}")  # evidence of these runs describes the patched tree: keep it out of /verif/evidence
    env = dict(os.environ, TSA_REPO=wt, TSA_EVIDENCE_DIR=evtmp)
    for pid in ids:
        if not os.path.exists(f"/verif/tsa/rules/{pid}.py"):
            continue
        q = subprocess.run(["/verif/check", pid], cwd="/verif", capture_output=True, text=True, env=env)
        if "VIOLATION property=" in q.stdout:
            rules = sorted(set(re.findall(r"rule (\S+) at", q.stdout)))
            caught.append({"check": pid, "rules": rules[:6]})
        elif q.returncode == 2:
            errors.append(pid)
    out["caught_by"] = caught
    out["analysis_errors"] = errors
    shutil.rmtree(evtmp, ignore_errors=True)
finally:
    subprocess.run(["git", "-C", "/repo", "worktree", "remove", "--force", wt], capture_output=True)

ok = out.get("demo_on_original_exit") == 0 and out.get("compiles") and out.get("demo_with_patch_exit", 0) != 0 and (skip_suite or not out.get("suite_failed_when_rerun_alone"))
out["confirmed"] = bool(ok)
d = f"/verif/seeded/{sid}"
os.makedirs(d, exist_ok=True)
shutil.copy(patch, os.path.join(d, "patch.diff"))
shutil.copy(demo, os.path.join(d, "demo.py"))
with open(os.path.join(d, "meta.json"), "w") as fh:
    json.dump(out, fh, indent=1)
print(json.dumps({k: out[k] for k in out if k not in ("ran", "demo_with_patch_tail")}, indent=1))
