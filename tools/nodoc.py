#!/venv/bin/python
"""Print python source without docstrings/blank lines, real line numbers (dev aid only)."""
import ast, sys
for fn in sys.argv[1:]:
    src = open(fn).read()
    tree = ast.parse(src)
    skip = set()
    for n in ast.walk(tree):
        if isinstance(n, ast.Expr) and isinstance(n.value, ast.Constant) and isinstance(n.value.value, str):
            for l in range(n.lineno, n.end_lineno + 1):
                skip.add(l)
    print("=====", fn)
    for i, l in enumerate(src.splitlines(), 1):
        if i in skip or not l.strip():
            continue
        print(f"{i}: {l}")
