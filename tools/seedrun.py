#!/usr/bin/env python3
"""Dev aid: apply a seeded patch to /repo, run every rule pack (quick tier, evidence redirected to a scratch
directory), print which report a violation and the violated rules, then undo the patch (git checkout)."""
import glob
import json
import os
import shutil
import subprocess
import sys
import tempfile

patch = os.path.abspath(sys.argv[1])
only = sys.argv[2:]
evdir = tempfile.mkdtemp(prefix="seedrun_ev_")
subprocess.run(["git", "-C", "/repo", "apply", patch], check=True)
try:
    packs = only or sorted(os.path.basename(p)[:-3] for p in glob.glob("/verif/tsa/rules/C[0-9][0-9].py"))
    env = dict(os.environ, TSA_EVIDENCE_DIR=evdir)
    procs = {p: subprocess.Popen(["/verif/check", p], stdout=subprocess.PIPE, stderr=subprocess.STDOUT, text=True, cwd="/verif", env=env) for p in packs}
    hits = []
    for p, pr in procs.items():
        out = pr.communicate()[0]
        if pr.returncode == 0:
            continue
        if pr.returncode == 1:
            try:
                with open(os.path.join(evdir, f"{p}.violation.json")) as fh:
                    vs = json.load(fh).get("violations", [])
                rules = sorted({v["rule"] + "@" + v["construct"] for v in vs})
            except Exception as e:
                rules = [f"(no violation file: {e})"]
            print(f"VIOLATION {p}: {'; '.join(rules)[:400]}")
            hits.append(p)
        else:
            err = [ln for ln in out.splitlines() if ln.startswith("ANALYSIS-ERROR")]
            print(f"ERROR     {p}: {err[0][:300] if err else out[-300:]}")
    print("caught by:", ", ".join(hits) or "NONE")
finally:
    subprocess.run(["git", "-C", "/repo", "checkout", "--", "."], check=True)
    shutil.rmtree(evdir, ignore_errors=True)
