#!/usr/bin/env python3
"""Re-runs every rule pack against every filed seeded change (/verif/seeded/<id>/patch.diff applied to /repo, then
undone) and writes /verif/seeded/INDEX.json and INDEX.md: which checks report which change today."""
import glob
import json
import os
import shutil
import subprocess
import sys
import tempfile

VERIF = "/verif"
packs = sorted(os.path.basename(p)[:-3] for p in glob.glob(f"{VERIF}/tsa/rules/C[0-9][0-9].py"))
only = sys.argv[1:]
index_path = f"{VERIF}/seeded/INDEX.json"
index = json.load(open(index_path)) if os.path.exists(index_path) else {}
st = subprocess.run(["git", "-C", "/repo", "status", "--porcelain", "--untracked-files=no"], capture_output=True, text=True).stdout.strip()
if st:
    sys.exit("refusing to run: /repo has local modifications:\n" + st)
for d in sorted(glob.glob(f"{VERIF}/seeded/C*")):
    sid = os.path.basename(d)
    if only and sid not in only:
        continue
    meta = json.load(open(os.path.join(d, "meta.json")))
    evdir = tempfile.mkdtemp(prefix="seedidx_")
    subprocess.run(["git", "-C", "/repo", "apply", os.path.join(d, "patch.diff")], check=True)
    caught, errors = {}, []
    try:
        env = dict(os.environ, TSA_EVIDENCE_DIR=evdir)
        procs = {p: subprocess.Popen([f"{VERIF}/check", p], stdout=subprocess.PIPE, stderr=subprocess.STDOUT, text=True, cwd=VERIF, env=env) for p in packs}
        for p, pr in procs.items():
            pr.communicate()
            if pr.returncode == 1:
                try:
                    vs = json.load(open(os.path.join(evdir, f"{p}.violation.json"))).get("violations", [])
                    caught[p] = sorted({v["rule"] for v in vs})
                except Exception:
                    caught[p] = ["?"]
            elif pr.returncode != 0:
                errors.append(p)
    finally:
        subprocess.run(["git", "-C", "/repo", "checkout", "--", "."], check=True)
        shutil.rmtree(evdir, ignore_errors=True)
    index[sid] = {"property": meta.get("property"), "needs": meta.get("needs"), "confirmed": meta.get("confirmed"), "caught_by": caught, "analysis_errors": errors,
                  "own_property_check_reports_it": meta.get("property") in caught}
    print(sid, "caught by", ", ".join(caught) or "NONE", ("| analysis errors: " + ", ".join(errors)) if errors else "", flush=True)
json.dump(index, open(index_path, "w"), indent=1, sort_keys=True)
with open(f"{VERIF}/seeded/INDEX.md", "w") as fh:
    fh.write("| change | property | needs to manifest | reported by (rules of the property's own check) | also reported by |\n|---|---|---|---|---|\n")
    for sid, e in sorted(index.items()):
        own = e["caught_by"].get(e["property"], [])
        others = [p for p in e["caught_by"] if p != e["property"]]
        fh.write(f"| {sid} | {e['property']} | {(e['needs'] or '').replace('|', '/')} | {', '.join(r.split('.', 1)[-1] for r in own) or '**not reported**'} | {', '.join(others) or '-'} |\n")
print("written", index_path)
