"""
C34 defect 1: records whose trigger holds in the same cycle as an ERROR-level record,
but which were registered after it, are never reported.

Component : transactron/testing/logging.py  make_logging_process / handle_logs
            (driven through the library's own harness TestCaseWithSimulatorBase, whose
             on_error raises AssertionError - transactron/testing/test_case.py:105-106)
Root cause: handle_logs calls on_error() in the middle of the `for record in records` loop
            (transactron/testing/logging.py:100-101).  on_error raises, so the loop is abandoned
            and every later record of that cycle (further failed assertions, or the
            warning/info/debug records that explain the failure) is dropped although its trigger holds.

Smallest fix (transactron/testing/logging.py, handle_logs):

        def handle_logs(record_vals):
            it = iter(record_vals)
    +       error = False
            for record in records:
                ...
                logger.log(...)
    -           if record.level >= logging.ERROR:
    -               on_error()
    +           error = error or record.level >= logging.ERROR
    +       if error:
    +           on_error()

Run: cd /tmp/wt/audit_C34 && PYTHONPATH=/tmp/wt/audit_C34 /venv/bin/python defect1.py
"""
import os
import sys
import random
import logging as pylog

os.environ["__TRANSACTRON_LOG_LEVEL"] = "DEBUG"
os.environ["__TRANSACTRON_LOG_FILTER"] = ".*"

from amaranth import *  # noqa: E402
from transactron import *  # noqa: E402
from transactron.utils import logging as tlog  # noqa: E402
from transactron.testing.test_case import TestCaseWithSimulatorBase  # noqa: E402
import transactron.testing.logging as simlog  # noqa: E402


class Capture(pylog.Handler):
    def __init__(self):
        super().__init__(0)
        self.recs = []

    def emit(self, r):
        # (cycle, logger, level, message)
        self.recs.append((simlog._sim_cycle, r.name, r.levelno, r.args[2]))


LEVELS = [pylog.DEBUG, pylog.INFO, pylog.WARNING, pylog.ERROR]


class Dut(Elaboratable):
    """n records, record i: level lv[i], trigger = (x == thr[i]) inside `with m.If(en)`."""

    def __init__(self, cfg):
        self.cfg = cfg
        self.x = Signal(4)
        self.en = Signal()

    def elaborate(self, platform):
        m = TModule()
        with m.If(self.en):
            for i, (lv, thr, top) in enumerate(self.cfg):
                lg = tlog.HardwareLogger(f"mod{i % 2}")
                if lv == pylog.ERROR and i % 2:
                    lg.assertion(m, self.x != thr, "rec{} x={:d}", i, self.x)
                else:
                    lg.log(m, lv, self.x == thr, "rec{} x={:d}", i, self.x)
        return m


def reference(cfg, hist):
    """Python model of the property: every record is reported in every cycle in which its trigger
    holds; the first cycle containing an ERROR-level record is the last one."""
    exp = []
    for cyc, (en, x) in enumerate(hist):
        err = False
        for i, (lv, thr, _) in enumerate(cfg):
            if en and x == thr:
                exp.append((cyc, f"mod{i % 2}", lv, f"rec{i} x={x:d}"))
                err |= lv >= pylog.ERROR
        if err:
            return exp, True
    return exp, False


class T(TestCaseWithSimulatorBase):
    def go(self, cfg, hist):
        dut = Dut(cfg)

        async def tb(sim):
            for en, x in hist:
                sim.set(dut.en, en)
                sim.set(dut.x, x)
                await sim.tick()
            sim.set(dut.en, 0)  # idle final cycle (a log in the very last cycle is not handled)
            await sim.tick()

        with self.run_simulation(dut) as sim:
            sim.add_testbench(tb)


def run(cfg, hist):
    cap = Capture()
    root = pylog.getLogger()
    root.setLevel(0)
    t = T()
    failed = False
    # the harness installs its own StreamHandler on stderr; keep the demo output clean
    saved_stderr, sys.stderr = sys.stderr, open(os.devnull, "w")
    try:
        with t.ctx_testing_env("defect1"):
            root.addHandler(cap)
            t.go(cfg, hist)
    except AssertionError:
        failed = True
    finally:
        root.removeHandler(cap)
        sys.stderr = saved_stderr
    return cap.recs, failed


def check(cfg, hist, label):
    got, got_failed = run(cfg, hist)
    exp, exp_failed = reference(cfg, hist)
    if got != exp or got_failed != exp_failed:
        print(f"MISMATCH ({label})")
        print("  configuration (level, trigger value of x, -) per record, in registration order:")
        for i, c in enumerate(cfg):
            print(f"    rec{i}: logger=mod{i % 2} level={pylog.getLevelName(c[0])} trigger: en & (x == {c[1]})")
        print("  history (en, x) per cycle:", hist)
        bad_cycle = next((e[0] for e in exp if e not in got), None)
        print(f"  first cycle with a difference: {bad_cycle}")
        print("  got      :", [g for g in got if g[0] == bad_cycle], "simulation failed:", got_failed)
        print("  expected :", [e for e in exp if e[0] == bad_cycle], "simulation failed:", exp_failed)
        return False
    return True


if __name__ == "__main__":
    # directed: a failed assertion, a second failed assertion and the warning explaining it, same cycle
    cfg = [(pylog.INFO, 3, 0), (pylog.ERROR, 3, 0), (pylog.ERROR, 3, 0), (pylog.WARNING, 3, 0)]
    hist = [(1, 0), (1, 1), (0, 3), (1, 2), (1, 3), (1, 4)]
    ok = check(cfg, hist, "directed")
    # random
    rng = random.Random(1)
    n = 0
    while ok and n < 30:
        cfg = [(rng.choice(LEVELS), rng.randrange(4), 0) for _ in range(rng.randrange(1, 6))]
        hist = [(rng.randrange(2), rng.randrange(6)) for _ in range(12)]
        ok = check(cfg, hist, f"random #{n}")
        n += 1
    if not ok:
        sys.exit(1)
    print("no mismatch")
