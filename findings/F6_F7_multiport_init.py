"""F6 / F7 demonstration: multiport memories with non-empty init vs. an ideal amaranth memory (same ports, same init).
Run with PYTHONPATH=<checkout of transactron>; exit status 1 and the first mismatching cycle are printed for the defective classes."""

import random
import sys

from amaranth import *
from amaranth.sim import Simulator
import amaranth.lib.memory as memory

from transactron.core.context import TransactronContextElaboratable
from transactron.utils.dependencies import DependencyContext, DependencyManager
from transactron.utils.amaranth_ext.memory import MultiReadMemory, MultiportXORMemory, MultiportOneHotILVTMemory, MultiportXORILVTMemory

WIDTH = 8
DEPTH = 12
INIT = [0x10 + 7 * i for i in range(DEPTH)]


class Harness(Elaboratable):
    def __init__(self, cls, read_ports, write_ports, transparent):
        self.nr, self.nw = read_ports, write_ports
        self.dut = cls(shape=WIDTH, depth=DEPTH, init=INIT)
        self.ref = memory.Memory(shape=WIDTH, depth=DEPTH, init=INIT)
        self.mems = (self.dut, self.ref)
        self.wports = [[mem.write_port() for _ in range(write_ports)] for mem in self.mems]
        self.rports = [
            [mem.read_port(transparent_for=wp if transparent else []) for _ in range(read_ports)]
            for mem, wp in zip(self.mems, self.wports)
        ]
        self.w_en = [Signal() for _ in range(write_ports)]
        self.w_addr = [Signal(range(DEPTH)) for _ in range(write_ports)]
        self.w_data = [Signal(WIDTH) for _ in range(write_ports)]
        self.r_en = [Signal() for _ in range(read_ports)]
        self.r_addr = [Signal(range(DEPTH)) for _ in range(read_ports)]

    def elaborate(self, platform):
        m = Module()
        m.submodules.dut = self.dut
        m.submodules.ref = self.ref
        heartbeat = Signal()
        m.d.sync += heartbeat.eq(~heartbeat)
        for wp in self.wports:
            for i, p in enumerate(wp):
                m.d.comb += [p.en.eq(self.w_en[i]), p.addr.eq(self.w_addr[i]), p.data.eq(self.w_data[i])]
        for rp in self.rports:
            for i, p in enumerate(rp):
                m.d.comb += [p.en.eq(self.r_en[i]), p.addr.eq(self.r_addr[i])]
        return m


def check(cls, read_ports, write_ports, transparent, cycles, seed):
    rng = random.Random(seed)
    with DependencyContext(DependencyManager()):
        h = Harness(cls, read_ports, write_ports, transparent)
        sim = Simulator(TransactronContextElaboratable(h))
    sim.add_clock(1e-6)
    mismatches = []

    async def bench(ctx):
        for cycle in range(cycles):
            used = set()
            for i in range(write_ports):
                a = rng.randrange(DEPTH)
                # sparse writes, so that most rows keep their initial value for a while
                en = rng.random() < 0.15 and a not in used
                used.add(a)
                ctx.set(h.w_en[i], en)
                ctx.set(h.w_addr[i], a)
                ctx.set(h.w_data[i], rng.randrange(2**WIDTH))
            for i in range(read_ports):
                ctx.set(h.r_en[i], rng.random() < 0.8)
                ctx.set(h.r_addr[i], rng.randrange(DEPTH))
            await ctx.tick()
            for i in range(read_ports):
                got, want = ctx.get(h.rports[0][i].data), ctx.get(h.rports[1][i].data)
                if got != want:
                    mismatches.append((cycle, i, got, want))

    sim.add_testbench(bench)
    sim.run()
    return mismatches


def main():
    failed = False
    configs = [
        (MultiportXORMemory, 1, 1),      # control: one write port is fine
        (MultiportOneHotILVTMemory, 1, 2),  # control: the one-hot table ignores init
        (MultiportXORMemory, 1, 2),      # F6: feedback memories of bank 0 start empty although bank 0 holds init
        (MultiportXORILVTMemory, 1, 2),  # F7: the live-value table is initialised with the DATA init
        (MultiportXORILVTMemory, 1, 1),
    ]
    for cls, read_ports, write_ports in configs:
        for transparent in (False, True):
            mismatches = check(cls, read_ports, write_ports, transparent, 200, seed=23)
            label = f"{cls.__name__} r={read_ports} w={write_ports} transparent={transparent}"
            if mismatches:
                failed = True
                cycle, port, got, want = mismatches[0]
                print(
                    f"{label}: {len(mismatches)} mismatches, first at cycle {cycle}, "
                    f"read port {port}: got {got:#x}, ideal memory gives {want:#x}"
                )
            else:
                print(f"{label}: ok")
    sys.exit(1 if failed else 0)


if __name__ == "__main__":
    main()
