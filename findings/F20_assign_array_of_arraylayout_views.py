"""
C40 defect 1: assign() crashes (AttributeError) when one side is an ArrayProxy (``Array([...])[index]``)
whose elements are views with an ArrayLayout - directly, or reached by recursion through a struct field.

Component: transactron.utils.assign.assign / arrayproxy_fields
Configuration: lhs and rhs of IDENTICAL layout; one of them obtained by indexing an amaranth Array of
views with a Signal.  Layouts: ArrayLayout(4, 2) and StructLayout({"x": ArrayLayout(4, 2), "y": 3}).
Expected (property C40): statements after which every selected field of lhs equals the rhs field
(here: everything, nothing is mismatching, so raising is not allowed either).
Got: AttributeError: 'ArrayLayout' object has no attribute 'members'.

Root cause: transactron/utils/assign.py:40-41 - arrayproxy_fields() assumes that every View inside the
proxy has a layout with `.members` (StructLayout); ArrayLayout has none.  (As a side effect UnionLayout
elements, which do have `.members`, are treated as structs, unlike union views outside a proxy.)

Smallest proposed fix (assign.py:40-41): reuse assign_arg_fields for the elements

    elems = list(flatten_elems(proxy))
    if elems and all(isinstance(el, data.View) for el in elems):
        fields = [assign_arg_fields(el) for el in elems]
        if all(f is not None for f in fields):
            return set.intersection(*fields)

Run `python defect1.py` -> exits 1 on the unchanged library.
Run `python defect1.py --with-fix` -> applies the fix above in memory (library files untouched), exits 0.
"""

import sys
import random
import inspect
import warnings
from amaranth import *
from amaranth.lib import data
from amaranth.sim import Simulator
import transactron.utils  # noqa: F401

A = sys.modules["transactron.utils.assign"]  # (the package re-exports the function under the same name)
AssignType = A.AssignType

warnings.simplefilter("ignore")

if "--with-fix" in sys.argv:
    src = inspect.getsource(A.arrayproxy_fields)
    old = "        return set.intersection(*[set(cast(data.View, el).shape().members.keys()) for el in elems])\n"
    new = (
        "        fields = [assign_arg_fields(el) for el in elems]\n"
        "        if all(f is not None for f in fields):\n"
        "            return set.intersection(*fields)\n"
    )
    assert old in src
    exec(src.replace(old, new), A.__dict__)

assign = A.assign

AL = data.ArrayLayout(4, 2)
SL = data.StructLayout({"x": AL, "y": 3})
NL = data.ArrayLayout(data.StructLayout({"p": 2, "q": data.ArrayLayout(1, 3)}), 2)


def leaves(layout, obj):
    if isinstance(layout, data.StructLayout):
        for k, f in layout:
            yield from leaves(f.shape, obj[k])
    elif isinstance(layout, data.ArrayLayout):
        for i in range(layout.length):
            yield from leaves(layout.elem_shape, obj[i])
    else:
        yield obj


def check(name, layout, proxy_side, n, fields, rng):
    sigs = [Signal(layout, name=f"e{i}") for i in range(n)]
    idx = Signal(range(max(n, 2)))
    plain = Signal(layout, name="plain")
    proxy = Array(sigs)[idx]
    lhs, rhs = (proxy, plain) if proxy_side == "lhs" else (plain, proxy)
    cfg = f"config: layout={layout!r} proxy_side={proxy_side} array_len={n} fields={fields}"
    try:
        stmts = list(assign(lhs, rhs, fields=fields))
    except Exception as e:
        print(cfg)
        print(f"cycle: - (elaboration)  got: {type(e).__name__}: {e}")
        print("expected: assignment statements (identical layouts, nothing to reject)")
        return False

    m = Module()
    m.d.comb += stmts
    ok = True

    async def tb(ctx):
        nonlocal ok
        for cycle in range(20):
            i = rng.randrange(n)
            ctx.set(idx, i)
            src = sigs if proxy_side == "rhs" else [plain]
            for s in src:
                ctx.set(s.as_value(), rng.randrange(1 << layout.size))
            await ctx.delay(1e-9)
            tgt_l, tgt_r = (sigs[i], plain) if proxy_side == "lhs" else (plain, sigs[i])
            for a, b in zip(leaves(layout, tgt_l), leaves(layout, tgt_r)):
                if ctx.get(a) != ctx.get(b):
                    print(cfg)
                    print(f"cycle {cycle}: got {a!r}={ctx.get(a)} expected {ctx.get(b)}")
                    ok = False
                    return
            if proxy_side == "lhs":
                for j in range(n):
                    if j != i and ctx.get(sigs[j].as_value()) != 0:
                        print(cfg)
                        print(f"cycle {cycle}: unselected array element {j} assigned")
                        ok = False
                        return

    sim = Simulator(m)
    sim.add_testbench(tb)
    sim.run()
    return ok


rng = random.Random(1)
for layout in (AL, SL, NL):
    for side in ("lhs", "rhs"):
        for n in (1, 2, 3):
            for fields in (AssignType.RHS, AssignType.LHS, AssignType.COMMON, AssignType.ALL):
                if not check("x", layout, side, n, fields, rng):
                    sys.exit(1)
print("all configurations OK")
