"""C43 / defect 1: CallTrigger.until_done() returns without any successful call as soon as a plain value is sampled.

`TestbenchIO.call` is `CallTrigger(sim).call(self, data).until_done()`; the documented way to get "call(), and also
sample a signal on the edge where the call succeeded" is `CallTrigger(sim).call(tb, data).sample(sig).until_done()`.
until_done's docstring: "Wait until at least one of the calls succeeds".  The implementation tests
`any(res is not None for res in results)` over ALL results, and a sampled plain value (an int / data.Const) is never
None, so the trigger returns after the very first clock edge with `None` as the call result, although the method did
not run (and the call is then abandoned: it is never performed).

Root cause: transactron/testing/testbenchio.py:87-89 (until_done looks at every result, not only at method results).

Smallest fix (testbenchio.py, until_done):

    async def until_done(self) -> Any:
        idx = [i for i, v in enumerate(self.calls_and_values) if isinstance(v, tuple)]   # calls / sampled methods
        async for results in self:
            if any(results[i] is not None for i in idx):
                return results

(until_all_done is not affected by plain values, because they are never None.)
"""
import sys
from amaranth import *
from amaranth.lib.data import StructLayout
from transactron import *
from transactron.lib import AdapterTrans
from transactron.testing import PysimSimulator, TestbenchIO, CallTrigger
from transactron.utils.dependencies import DependencyContext, DependencyManager

W = 4
PERIOD = 3  # the method is ready in one cycle out of PERIOD


class Dut(Elaboratable):
    def __init__(self):
        self.method = Method(i=StructLayout({"data": W}), o=StructLayout({"data": W}))
        self.timer = Signal(4, init=1)
        self.calls = Signal(8)

    def elaborate(self, platform):
        m = TModule()
        m.d.sync += self.timer.eq(Mux(self.timer == PERIOD - 1, 0, self.timer + 1))

        @def_method(m, self.method, ready=self.timer == 0)
        def _(data):
            m.d.sync += self.calls.eq(self.calls + 1)
            return {"data": data + 1}

        return m


class Top(Elaboratable):
    def __init__(self):
        self.dut = Dut()
        self.io = TestbenchIO(AdapterTrans.create(self.dut.method))

    def elaborate(self, platform):
        m = TModule()
        m.submodules += [self.dut, self.io]
        return m


failures = []

with DependencyContext(DependencyManager()):
    top = Top()
    sim = PysimSimulator(top, max_cycles=100)

    async def tb(s):
        cycle = 0
        # reference: plain call() waits for the ready cycle and calls exactly once
        before = s.get(top.dut.calls)
        res = await top.io.call(s, data=3)
        if res is None or res.data != 4 or s.get(top.dut.calls) - before != 1:
            failures.append(f"plain call(): got {res}, calls +{s.get(top.dut.calls) - before}; expected data=4, +1")
        # the same call with one additionally sampled signal
        for attempt in range(PERIOD):  # whatever the phase of the readiness history is
            before = s.get(top.dut.calls)
            timer_before = s.get(top.dut.timer)
            res, timer = await CallTrigger(s).call(top.io, data=5).sample(top.dut.timer).until_done()
            after = s.get(top.dut.calls)
            if res is None or after - before != 1:
                failures.append(
                    f"config: method ready 1 cycle in {PERIOD}, until_done with .sample(timer); "
                    f"attempt {attempt} (timer={timer_before} when started): got call result {res!r}, "
                    f"method executed {after - before} times; expected a result with data=6 and exactly 1 execution"
                )
                break

    sim.add_testbench(tb)
    sim.run()

if failures:
    print("MISMATCH:", failures[0])
    sys.exit(1)
print("ok")
