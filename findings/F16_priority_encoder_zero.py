"""C38 defect 1: coding.PriorityEncoder(width) with width not a power of two drives o = width
(truncated to len(o) bits) instead of 0 when no input bit is asserted.

Docstring (the definition): "If any bit in i is asserted, n is low and o indicates the least
significant asserted bit.  Otherwise, n is high and o is 0."

Root cause: transactron/utils/amaranth_ext/coding.py:88
    m.d.comb += self.o.eq(count_trailing_zeros(self.i))
count_trailing_zeros(0) == len(i) == width; o is Signal(range(width)), so for a power-of-two width
the value wraps to 0 by truncation (the only case test_coding.py checks: width 4), for every other
width >= 3 it stays non-zero (3->3, 5->5, 6->6, 7->7, 9->9, ...).

Smallest fix (coding.py:88):
    m.d.comb += self.o.eq(Mux(self.i == 0, 0, count_trailing_zeros(self.i)))
"""
import sys
from amaranth.sim import Simulator
from transactron.utils.amaranth_ext.coding import PriorityEncoder

mismatch = []

for width in range(1, 13):
    dut = PriorityEncoder(width)

    async def tb(ctx):
        for x in range(2**width):
            ctx.set(dut.i, x)
            await ctx.delay(1e-9)
            got = (ctx.get(dut.o), ctx.get(dut.n))
            exp = ((x & -x).bit_length() - 1, 0) if x else (0, 1)
            if got != exp:
                mismatch.append(f"PriorityEncoder(width={width}) i={x:#b}: got (o, n)={got}, expected {exp}")
                return

    sim = Simulator(dut)
    sim.add_testbench(tb)
    sim.run()

for line in mismatch:
    print(line)
sys.exit(1 if mismatch else 0)
