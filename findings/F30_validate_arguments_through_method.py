"""C05 audit, defect 2 (argument routing into validate_arguments; outside the literal C05 sentence, which does not
name validate_arguments, but the same routing machinery: manager.py:519-536 next to :313-326/:548-552).

A method X with `validate_arguments` is called by an intermediate method M with an argument computed from M's own
input; M has two call sites (two branches of one transaction, or two transactions).  The validator of the calling
transaction is NOT given the argument this transaction would pass.  It is given the call-site signal inside M,
i.e. a function of M.data_in, and M.data_in is the multiplexer over M's callers selected by their `run` bits
(manager.py:324 `source.run & enable`, :552).  So `runnable` of the transaction depends on its own `run`:

  * nobody runs -> M.data_in == 0 -> the validator sees f(0).  If f(0) is rejected, the transaction is never
    runnable although the argument of its active call is accepted by validate_arguments: a stable deadlock
    (configurations "branches" and "two_transactions" below);
  * if f(0) is accepted but the real argument is not, run -> data_in -> validate -> runnable -> run is a
    combinational loop that does not settle (configuration "loop", guarded by a watchdog).

With ONE call site of M the one-input OneHotMux is a wire (one_hot_mux returns the only input), data_in does not
depend on run, and everything works (configuration "single", the control) - which is also the only shape the
existing tests use (test_branches.py ExclusiveDiamondValidateArgumentsCircuit passes constants from the
intermediate methods).

Root cause: transactron/core/manager.py:519-525 validate_args_for_method uses `call.arg` of the innermost call site
(CallInfo.arg recorded at manager.py:115-121) as "the argument of this transaction"; for an indirect call this
signal is downstream of the run-selected data_in multiplexer of every intermediate method.

Smallest fix I would propose: the manager cannot re-evaluate an intermediate body per caller, so refuse what it
cannot build instead of building a loop - in validate_args_for_method (or in MethodMap.rec) raise

    RuntimeError("validate_arguments of X reached through M, which has several call sites and passes on its input")

when `method.validate_arguments is not None`, len(call.ancestors) > 1 and some intermediate ancestor has more than one
entry in method_args (manager.py:546) and a non-empty data_in.  (A complete fix would select data_in of the
intermediate methods by the callers' `ready`/request-independent enables for the purpose of validation, i.e.
instantiate the intermediate argument path once per calling transaction.)
"""

import signal
import sys
import warnings
from amaranth import *
from amaranth.sim import Simulator
from transactron import *
from transactron.core.context import TransactronContextElaboratable

warnings.filterwarnings("ignore")


class Design(Elaboratable):
    def __init__(self, variant):
        self.variant = variant
        self.sel = Signal()
        self.req = [Signal(name=f"req{i}") for i in range(2)]
        self.a = [Signal(4, name=f"a{i}") for i in range(2)]

    def elaborate(self, platform):
        m = TModule()
        self.X = X = Method(i=[("a", 4)])
        M = Method(i=[("a", 4)])
        if self.variant == "loop":
            valid = lambda a: a[0] == 0  # noqa: E731   accepts 0
        else:
            valid = lambda a: a != 0  # noqa: E731      rejects 0

        @def_method(m, X, validate_arguments=valid)
        def _(a):
            pass

        @def_method(m, M)
        def _(a):
            X(m, a=a)

        self.t = []
        if self.variant == "single":
            with Transaction(name="T0").body(m, ready=self.req[0]) as t:
                M(m, a=self.a[0])
            self.t.append(t)
        elif self.variant == "branches":
            with Transaction(name="T0").body(m, ready=self.req[0]) as t:
                with m.If(self.sel):
                    M(m, a=self.a[0])
                with m.Else():
                    M(m, a=self.a[1])
            self.t.append(t)
        else:
            for i in range(2):
                with Transaction(name=f"T{i}").body(m, ready=self.req[i]) as t:
                    M(m, a=self.a[i])
                self.t.append(t)
        return m


def check(variant, stimulus):
    """stimulus: list of (sel, req0, req1, a0, a1); returns True when every cycle matches the reference"""
    d = Design(variant)
    sim = Simulator(TransactronContextElaboratable(d))
    ok = [True]

    def valid(v):
        return (v & 1) == 0 if variant == "loop" else v != 0

    async def tb(ctx):
        for cyc, (sel, r0, r1, a0, a1) in enumerate(stimulus):
            ctx.set(d.sel, sel)
            ctx.set(d.req[0], r0)
            ctx.set(d.req[1], r1)
            ctx.set(d.a[0], a0)
            ctx.set(d.a[1], a1)
            runs = [ctx.get(t.run) for t in d.t]
            # reference: a requesting transaction whose (selected) argument is accepted can run; at most one does
            if variant == "branches":
                cand = [r0 and valid(a0 if sel else a1)]
                args = [a0 if sel else a1]
            elif variant == "single":
                cand = [r0 and valid(a0)]
                args = [a0]
            else:
                cand = [r0 and valid(a0), r1 and valid(a1)]
                args = [a0, a1]
            exp_any = any(cand)
            bad = None
            if any(runs) != exp_any:
                bad = f"some transaction runs = {int(any(runs))}, expected {int(exp_any)}"
            elif any(r and not c for r, c in zip(runs, cand)):
                bad = f"runs {runs} but runnable reference is {[int(c) for c in cand]}"
            elif any(runs):
                act = [args[i] for i, r in enumerate(runs) if r]
                if len(act) != 1 or ctx.get(d.X.run) != 1 or ctx.get(d.X.data_in.a) != act[0]:
                    bad = f"X run/data_in {ctx.get(d.X.run)}/{ctx.get(d.X.data_in.a)}, expected 1/{act}"
            if bad:
                print(f"configuration {variant!r} cycle {cyc} (sel={sel} req={r0}{r1} a0={a0} a1={a1}): {bad}")
                ok[0] = False
                return
            await ctx.delay(1e-6)

    sim.add_testbench(tb)

    def on_alarm(*_):
        raise TimeoutError

    signal.signal(signal.SIGALRM, on_alarm)
    signal.alarm(15)
    try:
        sim.run()
    except TimeoutError:
        print(f"configuration {variant!r}: got a simulation that never settles (combinational loop "
              f"run -> M.data_in -> validate_arguments -> runnable -> run), expected T0 blocked and T1 running")
        ok[0] = False
    finally:
        signal.alarm(0)
    if ok[0]:
        print(f"configuration {variant!r}: as expected")
    return ok[0]


if __name__ == "__main__":
    res = []
    # control: one call site of M
    res.append(check("single", [(0, 1, 0, 5, 0), (0, 1, 0, 0, 0), (0, 0, 0, 7, 0), (0, 1, 0, 9, 0)]))
    # one transaction, two exclusive call sites of M, all arguments accepted by validate_arguments (a != 0)
    res.append(check("branches", [(1, 1, 0, 5, 6), (0, 1, 0, 5, 6)]))
    # two transactions, both arguments accepted
    res.append(check("two_transactions", [(0, 1, 1, 5, 6), (0, 1, 0, 5, 6)]))
    # two transactions, validate accepts even values: T0 passes 1 (rejected), T1 passes 2 (accepted)
    res.append(check("loop", [(0, 1, 1, 1, 2)]))
    sys.exit(0 if all(res) else 1)
