"""C41 defect 1: make_hashable does not preserve equality for sets.

make_hashable (transactron/utils/data_repr.py:26-36) turns every unhashable
non-Mapping Iterable into a tuple *in iteration order* (line 33-34).  A `set` is such an
Iterable, but its iteration order is not part of its value: two equal sets can iterate in
different orders (hash collisions resolved by insertion order), and a set is equal to a
frozenset with the same elements (which is hashable and therefore returned unchanged).
Hence  a == b  but  make_hashable(a) != make_hashable(b).

make_hashable is the cache key function of DependentCache.get
(transactron/utils/depcache.py:28), so equal keyword arguments create two cache entries /
two instances of a class that is meant to be a per-arguments singleton.

Proposed minimal fix (transactron/utils/data_repr.py, before the Iterable branch):

        from collections.abc import Set
        ...
        elif isinstance(val, Set):
            return frozenset(make_hashable(v) for v in val)
"""
import sys
from transactron.utils.data_repr import make_hashable
from transactron.utils.depcache import DependentCache

failures = []


def check(desc, a, b):
    assert a == b, "test bug: inputs must be equal"
    ha, hb = make_hashable(a), make_hashable(b)
    if ha != hb or hash(ha) != hash(hb):
        failures.append(f"{desc}: a={a!r} b={b!r} a==b is True, but make_hashable(a)={ha!r} != make_hashable(b)={hb!r}")


# search small integer sets for insertion-order dependence (0 and 8 collide in an 8-slot table)
for x in range(0, 40):
    for y in range(x + 1, 40):
        a = set([x, y])
        b = set([y, x])
        if list(a) != list(b):
            check("equal sets, different insertion order", a, b)
            check("same, nested in a kwargs dict", {"fields": a}, {"fields": b})
            check("same, nested in a list", [1, a], [1, b])
            break
    if failures:
        break

check("set vs equal frozenset", {1, 2}, frozenset({1, 2}))


class Dep:
    def __init__(self, *, fields):
        self.fields = fields


cache = DependentCache()
i1 = cache.get(Dep, fields=set([0, 8]))
i2 = cache.get(Dep, fields=set([8, 0]))
if i1 is not i2:
    failures.append("DependentCache.get(Dep, fields={0, 8}) called twice with EQUAL arguments returned two different instances")

if failures:
    print("C41 make_hashable: equality is not preserved; first mismatch:")
    print("  got     :", failures[0])
    print("  expected: make_hashable(a) == make_hashable(b) whenever a == b")
    print(f"  ({len(failures)} mismatches in total)")
    for f in failures[1:]:
        print("  -", f)
    sys.exit(1)
print("no mismatch")
