"""C42 defect 1: `None` is used as the "not provided" sentinel, so a simple key whose single
dependency (or whose allowed default) is `None` raises KeyError from `get_dependency`.

Component : transactron.utils.dependencies.DependencyManager.get_dependency (dependencies.py:117-127)
Property  : "a simple key returns its single dependency (its default when allowed, an error otherwise)"
            docstring of `empty_valid`: KeyError is raised only "if set to False".

Proposed minimal fix (transactron/utils/dependencies.py): do not funnel the answer through `None`.

    def get_dependency(self, key):
        if not key.empty_valid and key not in self.dependencies:
            if key.lock_on_get:
                self.locked_dependencies.add(key)
            raise KeyError(f"Dependency {key} not provided")
        return self.get_optional_dependency(key)        # no `if ret is None: raise`
"""

import itertools
import sys
from dataclasses import dataclass

from transactron.utils.dependencies import DependencyManager, SimpleKey

MISSING = object()


def make_key(lock, cache, empty_valid, default):
    ns: dict = dict(lock_on_get=lock, cache=cache, empty_valid=empty_valid)
    if default is not MISSING:
        ns["default_value"] = default
    return dataclass(frozen=True)(type("K", (SimpleKey,), ns))


def reference_get(key, deps):
    """The property, literally."""
    if len(deps) == 0:
        return ("value", key.default_value) if key.empty_valid else ("error", KeyError)
    if len(deps) == 1:
        return ("value", deps[0])
    return ("error", RuntimeError)


def real_get(dm, key):
    try:
        return ("value", dm.get_dependency(key))
    except Exception as e:
        return ("error", type(e))


VALUES = ["dep", 0, "", False, (), None]
failures = 0
for lock, cache, empty_valid, default, history in itertools.product(
    [True, False], [True, False], [True, False], VALUES, [[], *[[v] for v in VALUES]]
):
    key = make_key(lock, cache, empty_valid, default)()
    dm = DependencyManager()
    for v in history:
        dm.add_dependency(key, v)
    for n_get in range(2):  # the second get goes through the cache when cache=True
        got, exp = real_get(dm, key), reference_get(key, history)
        if got != exp:
            if failures == 0:
                print("FIRST MISMATCH")
            if failures < 6:
                print(
                    f"  SimpleKey(lock_on_get={lock}, cache={cache}, empty_valid={empty_valid}, "
                    f"default_value={default!r}); history: "
                    + "".join(f"add({v!r}); " for v in history)
                    + "get(); " * (n_get + 1)
                    + f"-> got {got}, expected {exp}"
                )
            failures += 1

print(f"{failures} mismatching (configuration, history) pairs")
sys.exit(1 if failures else 0)
