#!/usr/bin/env python
"""C18 defect 1: MethodFilter(use_condition=True) truncates the condition to its lowest bit.

Docstring of MethodFilter: "Non-zero return value is interpreted as true."  With
use_condition=False (m.If) this holds.  With use_condition=True the condition value is
assigned to a ONE-BIT signal (transactron/lib/transformers.py:248-249)

        cond = Signal()
        m.d.top_comb += cond.eq(self.condition(m, arg))

so every condition value that is non-zero but has bit 0 clear (2, 4, 6, ...) is treated as
FALSE: the target is NOT called although the condition holds and the target is ready, the
`default` is returned instead of the target's result, and the call is performed even when
the target is not ready.

Smallest fix (transformers.py:249):

        m.d.top_comb += cond.eq(Value.cast(self.condition(m, arg)).bool())

Run:  cd /tmp/wt/audit_C18 && PYTHONPATH=/tmp/wt/audit_C18 /venv/bin/python defect1.py
Exits non-zero and prints the first mismatch on the unchanged code.
"""
import random
import sys

from amaranth import *
from amaranth.sim import Simulator

from transactron import *
from transactron.core.context import TransactronContextElaboratable
from transactron.lib.adapters import Adapter, AdapterTrans
from transactron.lib.transformers import MethodFilter
from transactron.utils.dependencies import DependencyContext, DependencyManager

W = 4
LAYOUT = [("data", W)]
DEFAULT = {"data": 5}


def run(cond_name, cond_fn, cond_py, use_condition, cycles=200, seed=1):
    dm = DependencyManager()
    with DependencyContext(dm):
        target = Adapter(i=LAYOUT, o=LAYOUT)  # the filtered method, ready == target.en
        filt = MethodFilter.create(target.iface, cond_fn, DEFAULT, use_condition=use_condition)
        caller = AdapterTrans.create(filt.method)  # transaction calling the filter, request == caller.en

        class Top(Elaboratable):
            def elaborate(self, platform):
                m = TModule()
                tick = Signal()
                m.d.sync += tick.eq(~tick)  # the design is purely combinational; keep a sync domain
                m.submodules.target = target
                m.submodules.filt = filt
                m.submodules.caller = caller
                return m

        sim = Simulator(TransactronContextElaboratable(Top(), dependency_manager=dm))
        sim.add_clock(1e-6)
        rnd = random.Random(seed)
        mismatch = []

        async def tb(ctx):
            for cycle in range(cycles):
                en = rnd.random() < 0.8
                trdy = rnd.random() < 0.5
                arg = rnd.randrange(1 << W)
                tret = rnd.randrange(1 << W)
                ctx.set(caller.en, en)
                ctx.set(caller.data_in.data, arg)
                ctx.set(target.en, trdy)
                ctx.set(target.data_in.data, tret)
                await ctx.delay(1e-7)
                got = dict(
                    filter_called=ctx.get(caller.done),
                    target_called=ctx.get(target.done),
                    result=ctx.get(caller.data_out.data),
                )
                # reference model of the documented function
                holds = bool(cond_py(arg))  # non-zero == true
                if use_condition:
                    f_called = en and (trdy or not holds)  # does not block on the target when cond is false
                else:
                    f_called = en and trdy  # target is locked even if not called
                exp = dict(
                    filter_called=int(f_called),
                    target_called=int(f_called and holds),
                    result=(tret if holds else DEFAULT["data"]) if f_called else got["result"],
                )
                if got != exp:
                    mismatch.append(
                        f"MethodFilter(condition={cond_name}, use_condition={use_condition}, default={DEFAULT}) "
                        f"cycle {cycle}: request={en} target_ready={trdy} arg={arg} "
                        f"(condition value non-zero: {holds}) target_returns={tret}\n"
                        f"   got      {got}\n   expected {exp}"
                    )
                    return
                await ctx.tick()

        sim.add_testbench(tb)
        sim.run()
        return mismatch


CONDITIONS = [
    # name, hardware condition function, python model ("non-zero is true")
    ("arg.data[0] (1 bit)", lambda m, v: v.data[0], lambda a: a & 1),
    ("arg.data (4 bits)", lambda m, v: v.data, lambda a: a),
    ("arg.data[1:] (3 bits)", lambda m, v: v.data[1:], lambda a: a >> 1),
    ("C(2, 2)", lambda m, v: C(2, 2), lambda a: 2),
]

failed = False
for name, fn, py in CONDITIONS:
    for use_condition in (False, True):
        res = run(name, fn, py, use_condition)
        if res:
            failed = True
            print("MISMATCH:", res[0])
        else:
            print(f"ok: condition={name}, use_condition={use_condition}")

sys.exit(1 if failed else 0)
