"""C04 defect 2: `parent.simultaneous(nested)` deletes the nested body's ready dependency on its enclosing body.

Configuration A ("uncalled_enclosing") - the idiom of test_simultaneous.py (a method with a helper transaction
nested in it, declared simultaneous with it), in a design where nobody uses that method:

    @def_method(m, encl)                     # encl is never called
    def _():
        with Transaction(name="nested").body(m) as nested:
            method_b(m)
        encl.simultaneous(nested)
    internal.simultaneous(method_b)          # two further (empty) methods
    with Transaction(name="user").body(m, ready=r_user):
        internal(m)

Configuration B ("conflicting_alternative") - every body is called:

    @def_method(m, encl)
    def _():
        with Transaction(name="nested").body(m) as nested: ...
    with Transaction(name="caller").body(m, ready=r_caller):  encl(m); shared(m)
    with Transaction(name="other").body(m, ready=r_other):    shared(m)      # conflicts with caller
    encl.simultaneous(nested);  nested.simultaneous(other)

Configuration C ("lib_condition_in_unused_method") - the same as A with library components only:
`transactron.lib.condition` *is* this idiom (`this.simultaneous_alternatives(*branch_transactions)`,
lib/simultaneous.py:86) and `transactron.lib.Connect` declares `write.simultaneous(read)`:

    @def_method(m, meth)                     # meth is never called
    def _(data):
        with condition(m) as branch:
            with branch(cond):
                conn.write(m, data=data)
            with branch():
                pass
    with Transaction(name="reader").body(m, ready=r_reader):
        conn.read(m)

Here `conn.write` runs (and `reader` receives data) whenever `cond & r_reader`, although the only call site of
`conn.write` is inside a method that never runs.

In all designs `nested` is lexically inside `encl`, so (C04) it must never run in a cycle in which `encl` does not
run; in A `encl` is never called, so neither `encl` nor `nested` (nor `method_b` through it) may ever run.
On the unchanged code `nested.run == 1` while `encl.run == 0` (A: whenever `user` runs; B: whenever `other` runs
and `caller` does not), and `method_b` runs although its only call site is not active.

Root cause
----------
transactron/core/manager.py, TransactionManager._simultaneous lines 374-385 ("remove orderings between
simultaneous methods/transactions") delete every non-conflict relation whose end is in `simultaneous_list` -
including the `ready_dependent` relation `encl -> nested` that Body.context (body.py:94-96) added.  The code relies on
the merged transaction built in step 5 to keep the two together, but
  * the groups are built per pair of *calling transactions* (lines 404-414): if `encl` has no caller there is no group
    for encl/nested at all (A), and a group that is "conflicting" is split into alternatives (lines 419-435), one of
    which does not contain any caller of `encl` (B);
  * `nested` is still scheduled through its *other* group (A: {user, nested} because of internal/method_b,
    B: {other, nested}), and in step 5 (lines 459-461) the removed dependency is re-imposed through `enable_call`
    only for enclosing bodies that are *conditionally called*:
        nontrivial_deps = ready_dependencies[transaction] & conditionally_called
After `_simultaneous`, `elaborate` recomputes `ready_dependencies` (line 489) from the pruned relations, so the
`runnable` term `encl.run` is gone as well.

Smallest fix
------------
Re-impose through `enable_call` every ready dependency that the pruning at lines 376-385 removes, not only the
conditionally called ones (manager.py line 460):

    nontrivial_deps = ready_dependencies[transaction] & (conditionally_called | set(transaction.simultaneous_list))

This restores C04, but the merged transaction still runs "empty" (in C `reader`/`conn.read` then run without
`conn.write`).  A slightly larger fix that also keeps simultaneity intact is not to build a merged transaction for
a group that can never legitimately run, i.e. one that contains a body whose enclosing (simultaneous) body has no
caller inside the group (manager.py, first statement of the loop at line 456):

    for group in final_simultaneous:
        if any(not (frozenset(method_map.transactions_for(dep)) & group)
               for transaction in group
               for dep in ready_dependencies[transaction] if dep in transaction.simultaneous_list):
            continue

(both verified by monkeypatching: this script passes, test/core + test/lib pass, and the random-design fuzzer no
longer finds mismatches of this kind.)
"""

import sys
import warnings
from itertools import product

from amaranth import *
from amaranth.sim import Simulator

from transactron.core import TModule, Method, Transaction, TransactronContextElaboratable, def_method
from transactron.lib import condition, Connect

warnings.filterwarnings("ignore")


def empty_method(m, method, stmt=None):
    @def_method(m, method)
    def _():
        if stmt is not None:
            m.d.comb += stmt.eq(1)


class DutA(Elaboratable):
    name = "uncalled_enclosing"
    inputs = ("r_user",)

    def __init__(self):
        self.r_user = Signal()
        self.call_site = Signal()  # 1 iff the statement next to `method_b(m)` executes
        self.method_b_stmt = Signal()

    def elaborate(self, platform):
        m = TModule()
        tick = Signal(4)
        m.d.sync += tick.eq(tick + 1)

        self.encl = encl = Method()
        self.method_b = method_b = Method()
        internal = Method()

        @def_method(m, encl)
        def _():
            with Transaction(name="nested").body(m) as nested:
                m.d.comb += self.call_site.eq(1)
                method_b(m)
            encl.simultaneous(nested)
            self.nested = nested

        empty_method(m, internal)
        empty_method(m, method_b, self.method_b_stmt)
        internal.simultaneous(method_b)

        with Transaction(name="user").body(m, ready=self.r_user):
            internal(m)

        return m

    def checks(self, sim):
        encl = sim.get(self.encl.run)
        nested = sim.get(self.nested.run)
        mb = sim.get(self.method_b.run)
        site = sim.get(self.call_site)
        out = []
        if encl:
            out.append(("encl.run", encl, 0, "encl is never called"))
        if nested and not encl:
            out.append(("nested.run", nested, 0, f"enclosing body encl.run={encl}"))
        if mb != site:
            out.append(("method_b.run", mb, site, "OR over the (single) call site of method_b"))
        if sim.get(self.method_b_stmt) != site:
            out.append(("method_b body executes", sim.get(self.method_b_stmt), site, "call site"))
        return out


class DutB(Elaboratable):
    name = "conflicting_alternative"
    inputs = ("r_caller", "r_other")

    def __init__(self):
        self.r_caller = Signal()
        self.r_other = Signal()
        self.nested_stmt = Signal()

    def elaborate(self, platform):
        m = TModule()
        tick = Signal(4)
        m.d.sync += tick.eq(tick + 1)

        self.encl = encl = Method()
        shared = Method()
        empty_method(m, shared)

        @def_method(m, encl)
        def _():
            with Transaction(name="nested").body(m) as nested:
                m.d.comb += self.nested_stmt.eq(1)
            self.nested = nested

        with Transaction(name="caller").body(m, ready=self.r_caller):
            encl(m)
            shared(m)

        with Transaction(name="other").body(m, ready=self.r_other) as other:
            shared(m)

        encl.simultaneous(self.nested)
        self.nested.simultaneous(other)
        return m

    def checks(self, sim):
        encl = sim.get(self.encl.run)
        nested = sim.get(self.nested.run)
        out = []
        if nested and not encl:
            out.append(("nested.run", nested, 0, f"enclosing body encl.run={encl}"))
        if sim.get(self.nested_stmt) != nested:
            out.append(("nested body executes", sim.get(self.nested_stmt), nested, "nested.run"))
        return out


class DutC(Elaboratable):
    name = "lib_condition_in_unused_method"
    inputs = ("cond", "r_reader")

    def __init__(self):
        self.cond = Signal()
        self.r_reader = Signal()
        self.call_site = Signal()  # 1 iff the statement next to `conn.write(m, ...)` executes

    def elaborate(self, platform):
        m = TModule()
        tick = Signal(4)
        m.d.sync += tick.eq(tick + 1)

        m.submodules.conn = self.conn = conn = Connect([("data", 4)])
        self.meth = meth = Method(i=[("data", 4)])

        @def_method(m, meth)  # never called
        def _(data):
            with condition(m) as branch:
                with branch(self.cond):
                    m.d.comb += self.call_site.eq(1)
                    conn.write(m, data=data)
                with branch():
                    pass

        with Transaction(name="reader").body(m, ready=self.r_reader):
            conn.read(m)

        return m

    def checks(self, sim):
        meth = sim.get(self.meth.run)
        write = sim.get(self.conn.write.run)
        site = sim.get(self.call_site)
        out = []
        if meth:
            out.append(("meth.run", meth, 0, "meth is never called"))
        if write != site:
            out.append(("conn.write.run", write, site, f"OR over its single call site (inside meth, meth.run={meth})"))
        return out


def check(dut):
    sim = Simulator(TransactronContextElaboratable(dut))
    sim.add_clock(1e-6)
    errors = []

    async def tb(sim):
        cycle = 0
        for _ in range(2):
            for vals in product((0, 1), repeat=len(dut.inputs)):
                for name, v in zip(dut.inputs, vals):
                    sim.set(getattr(dut, name), v)
                inputs = " ".join(f"{n}={v}" for n, v in zip(dut.inputs, vals))
                for what, got, expected, why in dut.checks(sim):
                    errors.append((cycle, inputs, what, got, expected, why))
                if errors:
                    return
                cycle += 1
                await sim.tick()

    sim.add_testbench(tb)
    sim.run()
    return errors


def main():
    failed = False
    for dut in (DutA(), DutB(), DutC()):
        errors = check(dut)
        if errors:
            failed = True
            cycle, inputs, what, got, expected, why = errors[0]
            print(
                f"MISMATCH configuration={dut.name} cycle={cycle} inputs: {inputs}: "
                f"{what} got={got} expected={expected} ({why})"
            )
            for e in errors[1:]:
                print("   also:", e)
        else:
            print(f"ok configuration={dut.name}")
    sys.exit(1 if failed else 0)


if __name__ == "__main__":
    main()
