"""C10 defect 1 (core): a method that contains a `condition()` and is called CONDITIONALLY elaborates into a
combinational cycle as soon as one of the branches calls a method with `validate_arguments`.

Design (every readiness is a plain register, no schedule_before at all, so the rules of C10 are followed):

    transaction T:         with m.If(c): meth(m)
    method meth:           with condition(m) as branch:
                               with branch(b): target(m, d=1)      # target has validate_arguments
                               with branch():  pass

Also an all-library instance: MethodFilter(use_condition=True) over WideFifo.write / CircularAllocator.alloc,
called under an m.If.

Root cause: transactron/core/manager.py:492 (TransactionManager._simultaneous, step 5)
    methods[transaction](m, enable_call=Cat(dep.run for dep in nontrivial_deps).all())
The branch transaction becomes a method of the merged transaction G and its call is enabled by `meth.run`
(meth is "conditionally called").  That enable is ANDed into `CallInfo.enable` of every call made by the branch
(manager.py:117), and manager.py:556/559 feeds `call.enable` into the validate_arguments term of `G.runnable`
(manager.py:570).  But meth.run = G.run & ... (manager.py:574-577) and G.run = G.ready & G.runnable & ...
(schedulers.py:43):   G.runnable -> G.run -> meth.run -> enable -> G.runnable.
It is a real oscillator, not only a structural loop: with c=1, b=1 and invalid arguments,
run=1 => validate term 0 => runnable=0 => run=0 => enable=0 => validate term 1 => runnable=1 => run=1 ...

Smallest fix (checked in a scratch copy: removes the cycle, test/core, test/lib/test_simultaneous.py and
test/lib/test_transformers.py still pass, 800 random designs with validate_arguments are cycle free):
do not derive the enable of a group member from `run` signals, use the caller-side call enables instead, which is
equivalent whenever G runs (member.run = G.run & enable):

                def member_enable(transaction):
                    nontrivial_deps = ready_dependencies[transaction] & conditionally_called
                    return Cat(dep_enable(dep) for dep in nontrivial_deps).all()

                def dep_enable(dep):
                    if dep in group:
                        return member_enable(dep)
                    return Cat(call.enable & member_enable(caller)
                               for caller in group
                               for call in method_map.info_by_call[(caller, dep)]).any()

                with Transaction(name=name).body(m):
                    for transaction in group:
                        methods[transaction](m, enable_call=member_enable(transaction))
"""

import sys
import warnings

warnings.filterwarnings("ignore")

from amaranth import *  # noqa: E402
from amaranth.hdl import Fragment, CombinationalCycle  # noqa: E402
from amaranth.hdl._ir import build_netlist  # noqa: E402
from transactron import *  # noqa: E402
from transactron.core.context import TransactronContextElaboratable  # noqa: E402
from transactron.utils import DependencyContext, DependencyManager  # noqa: E402
from transactron.lib import MethodFilter, condition  # noqa: E402
from transactron.lib.fifo import WideFifo  # noqa: E402
from transactron.lib.allocators import CircularAllocator  # noqa: E402


class Top(Elaboratable):
    def __init__(self, fn):
        self.fn = fn

    def elaborate(self, platform):
        m = TModule()
        self.fn(m)
        return m


def elaborate(fn):
    """None when the design elaborates into a cycle free netlist (this is what Verilog/RTLIL generation runs)."""
    try:
        with DependencyContext(DependencyManager()):
            top = TransactronContextElaboratable(Top(fn))
        build_netlist(Fragment.get(top, None), ports=[])
    except CombinationalCycle as e:
        return str(e)
    return None


def handwritten(conditional_call: bool, validated: bool):
    def fn(m: TModule):
        c, b, rdy = Signal(name="c"), Signal(name="b"), Signal(name="rdy")
        m.d.sync += [c.eq(~c), b.eq(~b), rdy.eq(~rdy)]  # local state only

        target = Method(name="target", i=[("d", 2)])
        kwargs = {"validate_arguments": lambda d: d != 3} if validated else {}

        @def_method(m, target, ready=rdy, **kwargs)
        def _(d):
            pass

        meth = Method(name="meth")

        @def_method(m, meth)
        def _():
            with condition(m) as branch:
                with branch(b):
                    target(m, d=1)
                with branch():
                    pass

        with Transaction(name="T").body(m):
            if conditional_call:
                with m.If(c):
                    meth(m)
            else:
                meth(m)

    return fn


def library(which: str):
    def fn(m: TModule):
        c = Signal(name="c")
        m.d.sync += c.eq(~c)
        if which == "WideFifo.write":
            m.submodules.wf = wf = WideFifo(8, 4, 2)
            target, args = wf.write, {"count": 1, "data": [1, 2]}
            cond = lambda m, arg: arg.count != 0  # noqa: E731
        else:
            m.submodules.alloc = alloc = CircularAllocator(4, max_alloc=2)
            target, args = alloc.alloc, {"count": 1}
            cond = lambda m, arg: arg.count != 0  # noqa: E731
        m.submodules.filter = filt = MethodFilter.create(target, cond, use_condition=True)
        with Transaction(name="T").body(m):
            with m.If(c):
                filt.method(m, **args)

    return fn


configs = [
    ("control: unconditional call of meth, validated target", handwritten(False, True), False),
    ("control: conditional call of meth, target without validate_arguments", handwritten(True, False), False),
    ("conditional call of meth, validated target", handwritten(True, True), True),
    ("m.If: MethodFilter(use_condition=True) over WideFifo.write", library("WideFifo.write"), True),
    ("m.If: MethodFilter(use_condition=True) over CircularAllocator(max_alloc=2).alloc", library("alloc"), True),
]

failed = False
for name, fn, _expected_to_fail in configs:
    res = elaborate(fn)
    if res is None:
        print(f"[ok]   {name}: no combinational cycle")
    else:
        through_492 = "manager.py:492" in res
        print(f"[FAIL] {name}")
        print("       expected: cycle free netlist; got: CombinationalCycle"
              f" (through manager.py:492: {through_492})")
        if not failed:
            print(res)
        failed = True

sys.exit(1 if failed else 0)
