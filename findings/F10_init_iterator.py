"""C23 defect 2: initial contents given as a one-shot iterable reach only the first physical memory.

`init` is typed `Iterable[ValueLike]` (memory.py:78) and amaranth.lib.memory.Memory accepts any iterable
(MemoryData.Init does `list(elems)`).  BaseMultiportMemory.__init__ stores the iterable as is
(memory.py:97) and elaborate() hands THE SAME object to several amaranth memories:
  * MultiReadMemory: one Memory per read port (memory.py:148-152) - the 2nd, 3rd... read port see all zeros;
  * MultiportXORMemory: the feedback memories of bank 0 (memory.py:222-228) exhaust it before the read
    block (memory.py:256-258), so with 2 write ports EVERY read port sees zeros (and with 1 write port all
    read ports but the first);
  * MultiportILVTMemory (XOR / one-hot): bank 0 is a MultiReadMemory (memory.py:510-513) - same as above.
So init=iter([...]), a generator or a map() gives rows that differ between read ports.

Proposed minimal fix: memory.py:97  `self.init = init`  ->  `self.init = list(init)`
"""
import sys
import warnings
from amaranth import *
from amaranth.sim import Simulator
import amaranth.lib.memory as amem
from transactron.core.context import TransactronContextElaboratable
from transactron.utils.dependencies import DependencyContext, DependencyManager
from transactron.utils.amaranth_ext.memory import (
    MultiReadMemory,
    MultiportXORMemory,
    MultiportXORILVTMemory,
    MultiportOneHotILVTMemory,
)

warnings.simplefilter("ignore")
WIDTH, DEPTH, INIT = 3, 4, [3, 1, 2, 7]


class Pair(Elaboratable):
    def __init__(self, cls, nr, nw):
        self.dut = cls(shape=WIDTH, depth=DEPTH, init=(v for v in INIT))
        self.ref = amem.Memory(shape=WIDTH, depth=DEPTH, init=(v for v in INIT))
        self.dw = [self.dut.write_port() for _ in range(nw)]  # never enabled
        self.rw = [self.ref.write_port() for _ in range(nw)]
        self.dr = [self.dut.read_port() for _ in range(nr)]
        self.rr = [self.ref.read_port() for _ in range(nr)]

    def elaborate(self, platform):
        m = Module()
        m.submodules.dut = self.dut
        m.submodules.ref = self.ref
        for a, b in zip(self.dr, self.rr):
            m.d.comb += [b.addr.eq(a.addr), b.en.eq(a.en)]
        return m


def check(cls, nr, nw):
    with DependencyContext(DependencyManager()):
        p = Pair(cls, nr, nw)
        sim = Simulator(TransactronContextElaboratable(p))
    sim.add_clock(1e-6)
    bad = []

    async def tb(ctx):
        for cyc in range(DEPTH):
            for r in p.dr:
                ctx.set(r.addr, cyc)
                ctx.set(r.en, 1)
            await ctx.tick()
            for i, (a, b) in enumerate(zip(p.dr, p.rr)):
                got, exp = ctx.get(a.data), ctx.get(b.data)
                if got != exp and not bad:
                    bad.append((cyc + 1, i, cyc, got, exp))

    sim.add_testbench(tb)
    sim.run()
    cfg = f"{cls.__name__}(shape={WIDTH}, depth={DEPTH}, init=(v for v in {INIT})), {nr} read / {nw} write ports"
    if bad:
        cyc, i, addr, got, exp = bad[0]
        print(f"MISMATCH {cfg}: cycle {cyc}: read port {i} data of read(addr={addr}) got {got}, expected {exp}")
    else:
        print(f"ok       {cfg}")
    return bool(bad)


if __name__ == "__main__":
    failed = [
        check(MultiReadMemory, 2, 1),
        check(MultiportXORMemory, 1, 2),
        check(MultiportXORILVTMemory, 2, 2),
        check(MultiportOneHotILVTMemory, 2, 2),
    ]
    sys.exit(1 if any(failed) else 0)
