"""C33 defect 1: generate_verilog()'s VerilogDebugWrapper corrupts (or fails to build) the generated
design when an event field / trigger is *directly* a signal that has no assignment statement in the
design: a top-level input port, or a memory read-port data signal (likewise an Instance output).

Root cause: transactron/utils/gen.py:244-265.  `collect_driven_sigs` only looks at assignment statements
(`frag.statements`), and `to_signal` then "fixes" every Signal it believes to be undriven with
`m.d.comb += val.eq(val.init)`:
  * an input port of the design (driven from outside) becomes a constant-driven *output* of the
    generated module -> the design no longer sees its input, the event (and everything else depending on
    the port) never fires: GeneratedEvLogSampler yields different events than the simulator capture;
  * a memory read port's data signal (driven by the memory, not by a statement) gets a second driver ->
    DriverConflict, generate_verilog() crashes for a design that simulates fine.

Smallest fix (gen.py, to_signal): never drive the user's signal, always sample it through a fresh one:

        def to_signal(val):
            val = Value.cast(val)
            sig = Signal.like(val)
            m.d.comb += sig.eq(val)
            return sig

(an undriven internal signal then simply reads as its init value, and the copy is always present in
the netlist, which is what the removed branch was for).

Yosys is not installed here, so only the final RTLIL->Verilog text conversion is stubbed; everything
up to and including the netlist (the Design object and the name map used for the locations) is the
unchanged library code, and that very Design is simulated.
"""
import re
import sys
import traceback

from amaranth import *
from amaranth.back import rtlil, verilog
from amaranth.lib.memory import Memory
from amaranth.lib.wiring import Component, In, Out
from amaranth.sim import Simulator
from amaranth.sim.pysim import PySimEngine

from transactron.core.context import TransactronContextElaboratable
from transactron.evlog import Event, EventLog, EventSource, EvLogEnabledKey, GeneratedEvLog, GeneratedEvLogSampler, event
from transactron.testing.evlog import capture_evlog
from transactron.testing.simulator import PysimSimulator
from transactron.testing.tick_count import make_tick_count_process
from transactron.utils.dependencies import DependencyContext, DependencyManager
from transactron.utils.gen import generate_verilog


@event("defect1.ev")
class Ev(Event):
    value: int


class PortField(Component):
    """The event field (and trigger) is an input port of the design."""

    def __init__(self):
        super().__init__({"din": In(8), "dout": Out(8)})
        self.evlog = EventSource("defect1.port")

    def elaborate(self, platform):
        m = Module()
        m.d.sync += self.dout.eq(self.din + 1)
        self.evlog.emit(m, Ev.hw(value=self.din), when=self.din[0])
        return m

    def ports(self):
        return [self.din, self.dout]


class MemField(Component):
    """The event field is the data signal of a memory read port."""

    def __init__(self):
        super().__init__({"din": In(8), "dout": Out(8)})
        self.evlog = EventSource("defect1.mem")

    def elaborate(self, platform):
        m = Module()
        m.submodules.mem = mem = Memory(shape=8, depth=4, init=[11, 22, 33, 44])
        rd = mem.read_port(domain="comb")
        m.d.comb += rd.addr.eq(self.din[1:3])
        m.d.sync += self.dout.eq(rd.data)
        self.evlog.emit(m, Ev.hw(value=rd.data), when=self.din[0])
        return m

    def ports(self):
        return [self.din, self.dout]


NCYCLES = 8


def stimulus(cyc):
    return (cyc * 7 + 1) & 255


def reference(cls):
    """Events captured from the Amaranth simulation of the design (capture_evlog)."""
    with DependencyContext(DependencyManager()):
        DependencyContext.get().add_dependency(EvLogEnabledKey(), True)
        dut = cls()
        sim = PysimSimulator(dut)
        sim.add_process(make_tick_count_process())
        log, proc = capture_evlog()
        sim.add_process(proc)

        async def tb(ctx):
            for cyc in range(NCYCLES):
                ctx.set(dut.din, stimulus(cyc))
                await ctx.tick()

        sim.add_testbench(tb)
        sim.run()
    return [(d.cycle, d.event) for d in log.decoded()]


def generated(cls, packed):
    """Events sampled with GeneratedEvLogSampler from the design produced by generate_verilog()."""
    captured = {}

    def convert_fragment_without_yosys(design, name="top", *, strip_internal_attrs=False, **kwargs):
        text, name_map = rtlil.convert_fragment(design, name=name, **kwargs)
        captured.update(design=design, name_map=name_map)
        return text, name_map

    orig = verilog.convert_fragment
    verilog.convert_fragment = convert_fragment_without_yosys
    try:
        with DependencyContext(DependencyManager()):
            DependencyContext.get().add_dependency(EvLogEnabledKey(), True)
            dut = cls()
            top = TransactronContextElaboratable(dut, dependency_manager=DependencyContext.get())
            text, info = generate_verilog(top, ports=dut.ports())
    finally:
        verilog.convert_fragment = orig

    problems = []
    m = re.search(r"wire width 8 (input|output) \d+\s+\\din\n", text)
    direction = m.group(1) if m else "missing"
    if direction != "input":
        problems.append(f"port `din` of the generated top module is `{direction}`, expected `input`")

    gen: GeneratedEvLog = GeneratedEvLog.from_json(info.evlog.to_json())  # type: ignore
    if not packed:
        gen.triggers_location = None
    handle_to_signal = {tuple(v): k for k, v in captured["name_map"].items()}

    design = captured["design"]
    sim = Simulator.__new__(Simulator)  # simulate the already prepared Design
    sim._design, sim._engine, sim._clocked, sim._running = design, PySimEngine(design), set(), False
    sim.add_clock(1e-6)
    log = EventLog(gen.schema)

    async def tb(ctx):
        sampler = GeneratedEvLogSampler(gen, lambda h: (lambda s=handle_to_signal[tuple(h)]: ctx.get(s)))
        for cyc in range(NCYCLES):
            try:
                ctx.set(dut.din, stimulus(cyc))
            except Exception as e:
                if cyc == 0:
                    problems.append(f"input port `din` cannot be driven: {type(e).__name__}: {e}")
            sampler.sample(cyc, log)
            await ctx.tick()

    sim.add_testbench(tb)
    sim.run()
    return [(d.cycle, d.event) for d in log.decoded()], problems


failed = False
for cls in (PortField, MemField):
    for packed in (True, False):
        config = f"{cls.__name__} ({cls.__doc__.strip()}), {'packed' if packed else 'per-site'} triggers"
        expected = reference(cls)
        try:
            got, problems = generated(cls, packed)
        except Exception as e:
            failed = True
            print(f"MISMATCH [{config}]: generate_verilog() crashed: {type(e).__name__}: {e}")
            print(f"    expected events (simulator capture of the same design): {expected[:3]} ...")
            continue
        for p in problems:
            print(f"PROBLEM [{config}]: {p}")
        if got != expected or problems:
            failed = True
            for i in range(max(len(got), len(expected))):
                g = got[i] if i < len(got) else None
                e = expected[i] if i < len(expected) else None
                if g != e:
                    print(f"MISMATCH [{config}]: record #{i}: got {g}, expected {e}")
                    break
        else:
            print(f"ok [{config}]")

sys.exit(1 if failed else 0)
