"""
C29 defect 1: StreamModuleWrapper creates a combinational loop through the transaction
scheduler when the wrapped stream module has a combinational ready path (i.ready depends on
o.ready -- e.g. the canonical one-register pipeline stage, or a pass-through) and the
transactions calling `write` and `read` conflict with each other (here: both also call one
shared exclusive method) with the writer ordered first.

  StreamSource.write.ready = ~o.valid | o.ready          (stream.py:122)
  o.ready = module.i.ready = ~module.o.valid | module.o.ready   (wrapped module, legal for lib.stream)
  module.o.ready = sink.i.ready = sink.read.run          (stream.py:70)
  => write.ready depends combinationally on read.run, i.e. on the grant of the reader
     transaction.  If the writer transaction has scheduling priority over the reader,
     grant_r = req_r & ~grant_w and grant_w = req_w = f(grant_r):  grant_r = req_r & ~grant_r.
  The design oscillates (the Amaranth simulator never converges; in hardware: comb. loop).

The library's own `Pipe` (connectors.py:218, identical structure `ready=~reg_valid | self.read.run`)
avoids this with `self.read.schedule_before(self.write)  # to avoid combinational loops`
(connectors.py:206); StreamModuleWrapper / StreamSource+StreamSink declare nothing.

Expected (stream semantics of the wrapped module, reference = same design with the two
transactions defined in the other order, or with `Pipe`): every cycle exactly one of the two
conflicting transactions runs when possible, items come out in order.
Got: simulation hangs at the first cycle in which source buffer and module output are both full.

Smallest fix (transactron/lib/stream.py, StreamModuleWrapper.elaborate, after creating source/sink):

        sink.read.schedule_before(source.write)  # write.ready may depend on read.run through the module

(verified by monkeypatching: with this line both orders work and all other checks still pass.)
"""
import signal
import sys
import warnings

warnings.filterwarnings("ignore")

from amaranth import *
from amaranth.lib import stream, wiring
from amaranth.lib.wiring import In, Out
from amaranth.sim import Simulator
from transactron import *
from transactron.core.context import TransactronContextElaboratable
from transactron.utils.dependencies import DependencyContext, DependencyManager
from transactron.lib.stream import StreamModuleWrapper


class RegStage(wiring.Component):
    """Canonical lib.stream register stage: i.ready = ~o.valid | o.ready (obeys all stream rules)."""

    def __init__(self, shape):
        super().__init__({"i": In(stream.Signature(shape)), "o": Out(stream.Signature(shape))})

    def elaborate(self, platform):
        m = Module()
        m.d.comb += self.i.ready.eq(~self.o.valid | self.o.ready)
        with m.If(self.i.ready):
            m.d.sync += self.o.valid.eq(self.i.valid)
            m.d.sync += self.o.payload.eq(self.i.payload)
        return m


class Top(Elaboratable):
    def __init__(self, order):
        self.order = order
        self.wdat = Signal(8)
        self.wrun = Signal()
        self.rrun = Signal()
        self.rdat = Signal(8)
        self.shared = Method()  # exclusive method called by both transactions -> they conflict

    def elaborate(self, platform):
        m = TModule()
        m.submodules.w = w = StreamModuleWrapper(RegStage(8))

        @def_method(m, self.shared)
        def _():
            pass

        def t_w():
            with Transaction(name="T_w").body(m):
                m.d.comb += self.wrun.eq(1)
                self.shared(m)
                w.write(m, data=self.wdat)

        def t_r():
            with Transaction(name="T_r").body(m):
                m.d.comb += self.rrun.eq(1)
                self.shared(m)
                m.d.comb += self.rdat.eq(w.read(m).data)

        for f in (t_w, t_r) if self.order == "writer-first" else (t_r, t_w):
            f()
        return m


class Hung(Exception):
    pass


def on_alarm(*_):
    raise Hung()


def run(order, cycles=40):
    cur = [0]
    result = {}
    with DependencyContext(DependencyManager()):
        dut = Top(order)
        sim = Simulator(TransactronContextElaboratable(dut))
        sim.add_clock(1e-6)

        async def tb(ctx):
            written, got = [], []
            for cyc in range(cycles):
                cur[0] = cyc
                ctx.set(dut.wdat, cyc)
                wr, rr = ctx.get(dut.wrun), ctx.get(dut.rrun)  # hangs here if the design oscillates
                assert not (wr and rr)
                if wr:
                    written.append(cyc)
                if rr:
                    got.append(ctx.get(dut.rdat))
                await ctx.tick()
            result["written"], result["got"] = written, got

        sim.add_testbench(tb)
        signal.signal(signal.SIGALRM, on_alarm)
        signal.alarm(20)
        try:
            sim.run()
        except Hung:
            return ("hang", cur[0])
        finally:
            signal.alarm(0)
    w, g = result["written"], result["got"]
    if g != w[: len(g)] or len(w) - len(g) > 2 or len(w) < cycles // 2 - 2:
        return ("bad data", w, g)
    return None


if __name__ == "__main__":
    ref = run("reader-first")
    print("reference (T_r defined before T_w):", "OK" if ref is None else ref)
    res = run("writer-first")
    if res is not None:
        print("MISMATCH: StreamModuleWrapper(RegStage(8)), conflicting T_w (defined first) and T_r, both always requesting")
        if res[0] == "hang":
            print(f"  right after the clock edge ending cycle {res[1]} (source buffer and module output both full): got: combinational oscillation (simulator does not converge within 20 s)")
            print("  expected: exactly one of T_w / T_r runs, as in the reference order (whole run takes < 1 s)")
        else:
            print("  ", res)
        sys.exit(1)
    print("no defect observed")
