"""F34: a METHOD nested in a body and declared simultaneous with it runs although the enclosing body does not.

    with encl.body(m):                 # `encl` is a method nobody calls (or: whose callers do not run)
        with inner.body(m): ...        # method defined inside encl: ready-dependent on encl
    encl.simultaneous(inner)
    T calls inner; T.simultaneous(V) for some other transaction V

_simultaneous removes the ordering relation encl -> inner because the two are simultaneous partners, and with it the
ready dependency; the dependency is re-imposed only for nested *transactions* (through the groups).  T and inner run
in every cycle, encl.run = 0.  (condition() only nests transactions, so the library's own use is not affected.)"""
import sys, warnings
from amaranth import *
from amaranth.sim import Simulator
from transactron import *
from transactron.core.context import TransactronContextElaboratable
warnings.filterwarnings("ignore")

class D(Elaboratable):
    def elaborate(self, platform):
        m = TModule()
        dummy = Signal(); m.d.sync += dummy.eq(~dummy)
        self.encl = encl = Method(name="encl"); self.inner = inner = Method(name="inner")
        self.other = other = Method(name="other")
        with other.body(m): pass
        with encl.body(m):
            with inner.body(m):
                pass
        encl.simultaneous(inner)
        with Transaction(name="T").body(m) as self.t:
            inner(m)
        with Transaction(name="V").body(m) as self.v:
            other(m)
        self.t.simultaneous(self.v)    # T is in a group of its own, which does not contain a caller of encl
        return m
d = D()
sim = Simulator(TransactronContextElaboratable(d)); sim.add_clock(1e-6)
bad = []
async def tb(ctx):
    for _ in range(3):
        await ctx.tick()
        e, i = ctx.get(d.encl.run), ctx.get(d.inner.run)
        if i and not e: bad.append((e, i))
sim.add_testbench(tb)
try:
    sim.run()
except Exception as ex:
    print("elaboration/simulation raised", type(ex).__name__, ex); sys.exit(0)
for e, i in bad[:1]: print(f"MISMATCH: inner.run={i} while its enclosing body encl.run={e}")
print("no mismatch" if not bad else "")
sys.exit(1 if bad else 0)
