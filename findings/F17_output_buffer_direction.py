# Defect 1 (C30): OutputBuffer declares its `data` port as an INPUT of the component.
#
# transactron/lib/basicio.py:197 (OutputBuffer.__init__) calls
#     super().__init__(from_method_layout(layout), False, edge, polarity, synchronize)
# i.e. direction=False, exactly like InputSampler (line 113).  BasicIOBase.__init__ (lines 17-20)
# then builds the signature {"trigger": In(1), "data": In(layout)}, although `put` drives `data`
# (line 205) and the class docstring says "data: MethodStruct, out".
#
# Consequences shown below, on the unchanged code:
#  (a) the Component signature says `data` is In;
#  (b) a consumer component with `data: In(layout)` wired with amaranth.lib.wiring.connect() never
#      sees the value passed to `put` (connect() silently skips In<->In members), so "put drives its
#      argument on data from the next cycle" fails for anything attached through the component
#      interface;
#  (c) elaborating OutputBuffer as the top-level component (ports derived from the signature, as
#      amaranth.back.rtlil.convert(component) does) raises DriverConflict, because `data` becomes a
#      top-level input that is also driven by the sync assignment in `put`.
#
# Smallest fix (transactron/lib/basicio.py:197):
#     -        super().__init__(from_method_layout(layout), False, edge, polarity, synchronize)
#     +        super().__init__(from_method_layout(layout), True, edge, polarity, synchronize)
import sys
import warnings

warnings.simplefilter("ignore")

from amaranth import *  # noqa: E402
from amaranth.lib import wiring, data  # noqa: E402
from amaranth.lib.wiring import In, Out, Component  # noqa: E402
from amaranth.back import rtlil  # noqa: E402
from amaranth.sim import Simulator  # noqa: E402
from transactron import TModule, Transaction  # noqa: E402
from transactron.core.context import TransactronContextElaboratable  # noqa: E402
from transactron.lib.basicio import OutputBuffer  # noqa: E402
from transactron.utils.dependencies import DependencyContext, DependencyManager  # noqa: E402

lay = data.StructLayout({"val": 4})
failures = []


class Sink(Component):
    """A consumer: drives the trigger, receives the data."""

    trigger: Out(1)
    data: In(lay)

    def elaborate(self, platform):
        return Module()


class Conn(Elaboratable):
    def __init__(self, a, b):
        self.a, self.b = a, b

    def elaborate(self, platform):
        m = Module()
        wiring.connect(m, self.a, self.b)
        return m


class Top(Elaboratable):
    def __init__(self, **kw):
        self.ob = OutputBuffer(lay, **kw)
        self.sink = Sink()
        self.arg = Signal(4)

    def elaborate(self, platform):
        m = TModule()
        m.submodules.ob = self.ob
        m.submodules.sink = self.sink
        m.submodules.conn = Conn(self.ob, self.sink)
        with Transaction().body(m):
            self.ob.put(m, val=self.arg)
        return m


# (a) declared direction
with DependencyContext(DependencyManager()):
    ob = OutputBuffer(lay)
    flow = ob.signature.members["data"].flow
    if flow != Out:
        failures.append(f"(a) OutputBuffer(layout).signature.members['data'].flow: got {flow!r}, expected Out")

# (b) value of put never reaches a consumer attached with wiring.connect
for cfg in [dict(), dict(polarity=True), dict(edge=True, polarity=True, synchronize=True)]:
    with DependencyContext(DependencyManager()):
        top = Top(**cfg)
        sim = Simulator(TransactronContextElaboratable(top))
        sim.add_clock(1e-6)
        first = []

        async def tb(ctx):
            # low-level default trigger: trigger=0 -> put ready in every cycle; for the other
            # configurations toggle the trigger so that put is ready at least every other cycle.
            model = 0
            for t in range(12):
                trig = t % 2
                arg = (3 * t + 5) % 16
                ctx.set(top.sink.trigger, trig)
                ctx.set(top.arg, arg)
                ran = ctx.get(top.ob.put.run)
                got_ob = ctx.get(top.ob.data.val)
                got_sink = ctx.get(top.sink.data.val)
                assert got_ob == model, "internal signal does follow put (functional part is fine)"
                if got_sink != model and not first:
                    first.append(f"(b) config {cfg}: cycle {t}: sink.data.val got {got_sink}, expected {model}")
                if ran:
                    model = arg
                await ctx.tick()

        sim.add_testbench(tb)
        sim.run()
        failures.extend(first)

# (c) OutputBuffer as the top-level component
with DependencyContext(DependencyManager()):
    ob = OutputBuffer(lay)
    try:
        rtlil.convert(ob)
    except Exception as e:  # amaranth.hdl.DriverConflict
        failures.append(f"(c) rtlil.convert(OutputBuffer(layout)) raised {type(e).__name__}: {e}")

for f in failures:
    print(f)
if failures:
    print("DEFECT: OutputBuffer.data is declared In (basicio.py:197 passes direction=False)")
    sys.exit(1)
print("no mismatch")
