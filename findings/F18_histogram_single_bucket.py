"""
C31 defect 1: HwExpHistogram(bucket_count=1) -- the single bucket "[0, inf)" only counts samples equal to 0.

The constructor accepts bucket_count=1 and names/describes the only bucket "bucket-inf",
"the cumulative counter for the observation bucket [0, inf)".  Every sample belongs to it, so
bucket[0] must always equal `count`.  In elaborate() (transactron/lib/metrics.py:474-482) the
`i == 0` test is made BEFORE the `i == self.bucket_count - 1` test, so for bucket_count == 1 the
only bucket gets `should_incr = sample == 0` and every non-zero sample is dropped from the buckets
(sum of buckets != count).

Smallest fix (metrics.py:475-482), test the last bucket first and let it also take 0 when it is the only one:

            for i in range(len(self.buckets)):
                if i == self.bucket_count - 1:
                    # last bucket: everything >= 2**(i-1)  (everything at all, if it is the only bucket)
                    should_incr = ((bucket_idx >= i - 1) & (sample != 0)) if i > 0 else C(1)
                elif i == 0:
                    should_incr = sample == 0
                else:
                    should_incr = (bucket_idx == i - 1) & (sample != 0)

(or reject bucket_count < 2 in __init__ with a ValueError).
"""

import sys
from amaranth import *
from amaranth.sim import Simulator
from transactron import TModule, Transaction
from transactron.core.context import TransactronContextElaboratable
from transactron.lib.metrics import HwExpHistogram, HwMetricsEnabledKey
from transactron.utils.dependencies import DependencyContext, DependencyManager

BUCKETS, SAMPLE_WIDTH, WAYS = 1, 4, 2


class Circ(Elaboratable):
    def __init__(self):
        self.h = HwExpHistogram("h", bucket_count=BUCKETS, sample_width=SAMPLE_WIDTH, ways=WAYS)
        self.en = Signal(WAYS)
        self.samples = [Signal(SAMPLE_WIDTH, name=f"s{k}") for k in range(WAYS)]

    def elaborate(self, platform):
        m = TModule()
        m.submodules.h = self.h
        with Transaction().body(m):
            for k in range(WAYS):
                self.h.add[k](m, self.samples[k], enable_call=self.en[k])
        return m


def ref_bucket(v):
    for i in range(BUCKETS):
        if v < 2**i or i == BUCKETS - 1:
            return i


# (enable mask, samples) per cycle
history = [(0b01, [0, 0]), (0b01, [5, 0]), (0b11, [1, 15]), (0b00, [3, 3]), (0b10, [0, 8])]
errors = []

dm = DependencyManager()
with DependencyContext(dm):
    dm.add_dependency(HwMetricsEnabledKey(), True)
    circ = Circ()
    sim = Simulator(TransactronContextElaboratable(circ, dependency_manager=dm))
    sim.add_clock(1e-6)

    async def tb(ctx):
        count = 0
        buckets = [0] * BUCKETS
        for cyc, (en, samples) in enumerate(history):
            ctx.set(circ.en, en)
            for k in range(WAYS):
                ctx.set(circ.samples[k], samples[k])
            await ctx.tick()
            for k in range(WAYS):
                if en >> k & 1:
                    count += 1
                    buckets[ref_bucket(samples[k])] += 1
            got_count = ctx.get(circ.h.count.value)
            got = [ctx.get(b.value) for b in circ.h.buckets]
            if got != buckets or got_count != count or sum(got) != got_count:
                errors.append(
                    f"HwExpHistogram(bucket_count={BUCKETS}, sample_width={SAMPLE_WIDTH}, ways={WAYS}) "
                    f"cycle {cyc} (enable={en:#b}, samples={samples}): count got {got_count} expected {count}; "
                    f"buckets {[b.name for b in circ.h.buckets]} got {got} expected {buckets}"
                )
                return

    sim.add_testbench(tb)
    sim.run()

if errors:
    print("MISMATCH:", errors[0])
    sys.exit(1)
print("no mismatch")
