# C21 defect 2: MemoryBank(transparent=True, read_on_resp=False) on a MultiportILVTMemory
# (MultiportOneHotILVTMemory / MultiportXORILVTMemory) with a granularity: a read requested in the same cycle
# as a PARTIAL write of the same row returns either the untouched old row or the whole data word of the write
# port, instead of the old row with only the enabled parts replaced.  One write port is enough.
#
# Root cause: transactron/utils/amaranth_ext/memory.py:553-558.  The transparency bypass of the ILVT memory is
#     ((write_addr_bypass[idx] == read_addr_bypass) & write_en_bypass[idx], write_data_bypass[idx])
# `write_en_bypass[idx]` is the multi-bit part enable and the address comparison is one bit wide, so the `&`
# zero-extends the comparison and only bit 0 of the enable survives: the complete `write_data_bypass[idx]` is
# forwarded iff part 0 was enabled.  mask=0b10 -> nothing is forwarded (the old row is returned, the written
# part is missing); mask=0b01 -> all parts of the write data are forwarded, including the disabled one.
# (This is the memory's own bypass, independent of the forwarding multiplexer in transactron/lib/storage.py,
# which is only used with read_on_resp=True.)
#
# Smallest fix: forward part by part, e.g.
#     g = width // len(write_en_bypass[idx])
#     for p in range(len(write_en_bypass[idx])):
#         part = slice(p * g, (p + 1) * g)
#         new_data[part] = OneHotMux.create(m, [((write_addr_bypass[idx] == read_addr_bypass)
#                                                & write_en_bypass[idx][p], write_data_bypass[idx][part]) ...],
#                                           bank_data[part])
#
# Run:  cd /tmp/wt/audit_C21 && PYTHONPATH=/tmp/wt/audit_C21 /venv/bin/python defect2.py
import sys
from amaranth import *
from amaranth.sim import Simulator
import amaranth.lib.memory as memory

from transactron.core.context import TransactronContextElaboratable
from transactron.utils.dependencies import DependencyContext, DependencyManager
from transactron.testing import SimpleTestCircuit, CallTrigger
from transactron.lib.storage import MemoryBank
from transactron.utils.amaranth_ext.memory import MultiportOneHotILVTMemory, MultiportXORILVTMemory


def run(cfg, part_bits, script, to_data=lambda x: x):
    """Drives MemoryBank(**cfg) cycle by cycle with `script` = [(writes, reqs, resps), ...] where
    writes = {port: (addr, data, mask)}, reqs = {port: addr}, resps = {ports}; compares every response with an
    ideal memory.  Returns a description of the first mismatch or None."""
    width = Shape.cast(cfg["shape"]).width
    transparent = cfg.get("transparent", False)
    read_on_resp = cfg.get("read_on_resp", False)
    out = []
    with DependencyContext(DependencyManager()):
        tc = SimpleTestCircuit(MemoryBank(**cfg))
        sim = Simulator(TransactronContextElaboratable(tc))
        sim.add_clock(1e-6)

        async def tb(ctx):
            mem = [0] * cfg["depth"]
            pending = [[] for _ in range(cfg.get("read_ports", 1))]
            for cyc, (writes, reqs, resps) in enumerate(script):
                trig, order = CallTrigger(ctx), []
                for j, (a, d, mk) in writes.items():
                    trig = trig.call(tc.write[j], {"addr": a, "data": to_data(d), "mask": mk})
                    order.append(("w", j))
                for i, a in reqs.items():
                    trig = trig.call(tc.read_req[i], {"addr": a})
                    order.append(("q", i))
                for i in resps:
                    trig = trig.call(tc.read_resp[i], {})
                    order.append(("r", i))
                res = await trig
                after = list(mem)
                for a, d, mk in writes.values():
                    for b in range(width // part_bits):
                        if (mk >> b) & 1:
                            fm = ((1 << part_bits) - 1) << (b * part_bits)
                            after[a] = (after[a] & ~fm) | (d & fm)
                visible = after if transparent else mem
                npend = [len(p) for p in pending]
                for (kind, idx), r in zip(order, res):
                    if kind == "w":
                        assert r is not None
                    elif kind == "r":
                        if (r is not None) != (npend[idx] > 0):
                            out.append(f"cycle {cyc}: read_resp[{idx}] ready={r is not None}, pending={npend[idx]}")
                            return
                        if r is not None:
                            a, v = pending[idx].pop(0)
                            if read_on_resp:
                                v = visible[a]
                            got = r.data if isinstance(r.data, int) else r.data.as_bits()
                            if got != v:
                                out.append(f"cycle {cyc}: read_resp[{idx}] for addr {a}: got {got:#x}, expected {v:#x}")
                                return
                    else:
                        if (r is not None) != (npend[idx] < 2):
                            out.append(f"cycle {cyc}: read_req[{idx}] ready={r is not None}, pending={npend[idx]}")
                            return
                        if r is not None:
                            pending[idx].append((reqs[idx], visible[reqs[idx]]))
                mem[:] = after

        sim.add_testbench(tb)
        sim.run()
    return out[0] if out else None


def script(mask):
    return [
        ({0: (0, 0xAB, 0b11)}, {}, set()),  # row 0 := 0xAB
        ({}, {}, set()),
        ({}, {}, set()),
        ({0: (0, 0xCD, mask)}, {0: 0}, set()),  # partial write + read_req(0) in the same cycle
        ({}, {}, {0}),  # transparent: read_resp must see the partial write (0xCB resp. 0xAD)
    ]


bad = 0
for mt in [MultiportOneHotILVTMemory, MultiportXORILVTMemory, memory.Memory]:
    for mask in [0b10, 0b01]:
        cfg = dict(shape=8, depth=2, granularity=4, read_ports=1, write_ports=1, transparent=True, memory_type=mt)
        r = run(cfg, 4, script(mask))
        print(
            f"{mt.__name__}: shape=8 depth=2 granularity=4 write_ports=1 transparent=True read_on_resp=False "
            f"mask={mask:#04b} ->",
            r or "ok",
        )
        if r:
            bad = 1
sys.exit(bad)
