"""
C34 defect 2: a failed assertion / ERROR-level record does NOT end the simulation when the display
filters of the logging process (minimum level above ERROR, or a namespace regexp that does not
match the record's logger) are in effect.  The harness exposes both filters to the user
(pytest `--log-level`, `--transactron-log-filter`, see test/conftest.py:36-40), and
parse_logging_level accepts "CRITICAL" and any integer.  So running the tests with
`--transactron-log-filter=front` (to read only the frontend's messages) or `--log-level=CRITICAL`
(to silence output) silently switches off every hardware assertion outside the filter, and
failing designs pass.

Component : transactron/testing/logging.py make_logging_process (through TestCaseWithSimulatorBase)
Root cause: transactron/testing/logging.py:74-75 - the set of records that is *watched* is the same
            filtered set that is *printed* (tlog.get_log_records(level, namespace_regexp),
            transactron/utils/logging.py:410), so on_error (logging.py:100-101) can never be
            reached for an ERROR record that is filtered out.
            The filtering itself is documented (get_log_records docstring); what contradicts the
            property is that it also removes the "ends the simulation with a failure" effect.

Smallest fix (transactron/testing/logging.py, make_logging_process): always watch ERROR records,
use the filters only for the others:

    -   combined_trigger = tlog.get_trigger_bit(level, namespace_regexp)
    -   records = tlog.get_log_records(level, namespace_regexp)
    +   records = [
    +       rec for rec in tlog.get_log_records(0)
    +       if rec.level >= logging.ERROR or (rec.level >= level and re.search(namespace_regexp, rec.logger_name))
    +   ]
    +   combined_trigger = Cat(rec.trigger for rec in records).any()

Run: cd /tmp/wt/audit_C34 && PYTHONPATH=/tmp/wt/audit_C34 /venv/bin/python defect2.py
"""
import os
import sys
import logging as pylog

os.environ["__TRANSACTRON_LOG_LEVEL"] = "WARNING"
os.environ["__TRANSACTRON_LOG_FILTER"] = ".*"

from amaranth import *  # noqa: E402
from transactron import *  # noqa: E402
from transactron.utils import logging as tlog  # noqa: E402
from transactron.testing.test_case import TestCaseWithSimulatorBase  # noqa: E402
from transactron.testing.logging import parse_logging_level  # noqa: E402

front = tlog.HardwareLogger("front")
back = tlog.HardwareLogger("back.fifo")


class Dut(Elaboratable):
    def __init__(self, kind):
        self.kind = kind
        self.level = Signal(3)  # "fifo level", must never exceed 4

    def elaborate(self, platform):
        m = TModule()
        front.warning(m, self.level == 4, "fifo is full")
        if self.kind == "assertion":
            back.assertion(m, self.level <= 4, "fifo overflow, level={}", self.level)
        elif self.kind == "error":
            back.error(m, self.level > 4, "fifo overflow, level={}", self.level)
        elif self.kind == "top_assertion":
            tlog.top_assertion(self.level <= 4, "fifo overflow, level={}", self.level, name="back.fifo")
        return m


class T(TestCaseWithSimulatorBase):
    def go(self, kind, hist):
        dut = Dut(kind)

        async def tb(sim):
            for v in hist:
                sim.set(dut.level, v)
                await sim.tick()
            sim.set(dut.level, 0)
            await sim.tick()

        with self.run_simulation(dut) as sim:
            sim.add_testbench(tb)


def run(kind, hist, level, ns):
    os.environ["__TRANSACTRON_LOG_LEVEL"] = level
    os.environ["__TRANSACTRON_LOG_FILTER"] = ns
    parse_logging_level(level)  # the configuration is accepted
    saved_stderr, sys.stderr = sys.stderr, open(os.devnull, "w")
    try:
        t = T()
        with t.ctx_testing_env("defect2"):
            t.go(kind, hist)
        return False
    except AssertionError:
        return True
    finally:
        sys.stderr = saved_stderr


if __name__ == "__main__":
    pylog.getLogger().setLevel(0)
    hist = [0, 1, 4, 3, 5, 2]  # the ERROR trigger holds in cycle 4
    expected = True  # reference model: any cycle with level > 4 => simulation ends with a failure
    bad = None
    for kind in ["assertion", "error", "top_assertion"]:
        for level, ns in [
            ("WARNING", ".*"),  # harness default: works
            ("DEBUG", "back"),  # works
            ("ERROR", ".*"),  # works
            ("WARNING", "front"),  # namespace filter that does not match "back.fifo"
            ("WARNING", "^fifo"),
            ("CRITICAL", ".*"),  # minimum display level above ERROR
            ("41", ".*"),
        ]:
            got = run(kind, hist, level, ns)
            print(f"kind={kind:14} log level={level:9} log filter={ns!r:8} simulation failed: {got}")
            if got != expected and bad is None:
                bad = (kind, level, ns, got)
    if bad is not None:
        kind, level, ns, got = bad
        print()
        print(f"MISMATCH: configuration: record kind={kind}, logger 'back.fifo', log level={level}, log filter={ns!r}")
        print(f"  history of `level`: {hist}; the ERROR trigger (level > 4) holds in cycle 4")
        print(f"  got      : simulation ended with a failure = {got}")
        print(f"  expected : simulation ended with a failure = {expected} (at cycle 4)")
        sys.exit(1)
    print("no mismatch")
