"""C13 defect 1: a merged (simultaneous) group may run a body without its simultaneous() partner.

Property C13: two bodies related by simultaneous() (Connect.write / Connect.read) run in exactly the
same cycles.  On the unchanged code `TransactionManager._simultaneous` builds, for every *maximal*
transitive group of caller transactions, one merged transaction - but never checks that the group is
*complete*, i.e. that for every body the group runs, a caller of each of its simultaneous() partners is
in the group as well.  A maximal group that cannot be extended (because the missing caller is
independent of / conflicts with a member, or because nobody calls the partner at all) is emitted
anyway, and Connect.write then runs in cycles in which Connect.read does not (or vice versa).

Three configurations, all accepted at elaboration:

 A  two Connects, three transactions (no condition(), no nonexclusive methods):
        T0: c0.write, c1.write      T1: c0.read       T2: c0.read, c1.read
    groups {T0,T1} and {T0,T2} are both maximal (T1, T2 both call c0.read, so they are never joined).
    {T0,T1} runs c1.write although no caller of c1.read is in the group.
    The only legal group is {T0,T2}.
 B  one Connect, ONE transaction: T calls c.read, and has a condition() whose first branch calls
    c.write and whose second branch calls nothing.  When the second branch is taken, c.read runs
    without c.write.
 C  two Connects; T0: c0.write, c1.write; T1: c1.read; nobody calls c0.read.
    (With c0 alone T0 correctly never runs; the relation to T1 makes the manager forget the constraint.)

Run:  cd /tmp/wt/audit_C13 && PYTHONPATH=/tmp/wt/audit_C13 /venv/bin/python defect1.py
Exits 1 and prints the first mismatch of every configuration (configuration, cycle, got / expected).

Proposed smallest fix (transactron/core/manager.py, step 5 of `_simultaneous`, lines 479-487): the
filter that drops a group currently only looks at partners that are ready-dependencies
(`for dep in ready_dependencies[body] if dep in body.simultaneous_list`).  Make it look at every
partner; a partner declared as one of several alternatives (simultaneous_alternatives) is satisfied by
any member of its family:

            for group in final_simultaneous:
                def family(body, dep):
                    # `dep` and the partners of `body` declared as its alternatives
                    fams = [[x, *x.independent_list] for x in body.simultaneous_list]
                    return [d for d in body.simultaneous_list if d is dep or any(d in f and dep in f for f in fams)]

                if any(
                    not any(group & frozenset(method_map.transactions_for(alt)) for alt in family(body, dep))
                    for transaction in group
                    for body in method_map.ready_for_transaction(transaction)
                    for dep in body.simultaneous_list
                ):
                    continue

With this change this script passes, the whole test suite (test/core, test/lib) still passes, and
~5000 randomly generated Connect / condition() / nonexclusive / nested-transaction designs show no
write.run != read.run cycle any more (several hundred of them do on the unchanged code).
"""

import itertools
import random
import sys
import warnings

from amaranth import *
from amaranth.sim import Simulator

from transactron import *
from transactron.core.context import TransactronContextElaboratable
from transactron.lib.connectors import Connect
from transactron.lib.simultaneous import condition
from transactron.utils.dependencies import DependencyContext, DependencyManager

warnings.filterwarnings("ignore")
W = 4


class Design(Elaboratable):
    """`kind` in "A", "B", "C"; self.en are the externally driven readiness / branch conditions."""

    def __init__(self, kind):
        self.kind = kind
        self.conns = [Connect([("data", W)], [("data", W)]) for _ in range(1 if kind == "B" else 2)]
        self.en = [Signal(name=f"en{i}") for i in range({"A": 3, "B": 3, "C": 2}[kind])]
        # per Connect: argument given to write / to read, result obtained by the writer / by the reader
        self.warg = [Signal(W, name=f"warg{i}") for i in range(len(self.conns))]
        self.rarg = [Signal(W, name=f"rarg{i}") for i in range(len(self.conns))]

    def elaborate(self, platform):
        m = TModule()
        tick = Signal()
        m.d.sync += tick.eq(~tick)  # gives the simulation a clock domain
        for i, c in enumerate(self.conns):
            m.submodules[f"c{i}"] = c
        c = self.conns
        en = self.en

        def write(i):
            c[i].write(m, data=self.warg[i])

        def read(i):
            c[i].read(m, data=self.rarg[i])

        if self.kind == "A":
            with Transaction(name="T0").body(m, ready=en[0]):
                write(0)
                write(1)
            with Transaction(name="T1").body(m, ready=en[1]):
                read(0)
            with Transaction(name="T2").body(m, ready=en[2]):
                read(0)
                read(1)
        elif self.kind == "B":
            with Transaction(name="T").body(m, ready=en[0]):
                read(0)
                with condition(m) as branch:
                    with branch(en[1]):
                        write(0)
                    with branch(en[2]):
                        pass
        else:
            with Transaction(name="T0").body(m, ready=en[0]):
                write(0)
                write(1)
            with Transaction(name="T1").body(m, ready=en[1]):
                read(1)
        return m


def check(kind):
    """Returns None or the description of the first mismatch."""
    with DependencyContext(DependencyManager()):
        d = Design(kind)
        sim = Simulator(TransactronContextElaboratable(d))  # elaborates: all three are accepted
    sim.add_clock(1e-6)
    rng = random.Random(13)
    found = []

    async def tb(sim):
        cyc = 0
        for _ in range(3):
            for ens in itertools.product([0, 1], repeat=len(d.en)):
                for s, v in zip(d.en, ens):
                    sim.set(s, v)
                for s in d.warg + d.rarg:
                    sim.set(s, rng.randrange(1 << W))
                for i, c in enumerate(d.conns):
                    wr, rr = sim.get(c.write.run), sim.get(c.read.run)
                    if wr != rr:
                        found.append(
                            f"configuration {kind}, cycle {cyc}, inputs {dict((s.name, v) for s, v in zip(d.en, ens))}: "
                            f"c{i}.write.run={wr} c{i}.read.run={rr}  (expected: equal)"
                        )
                        return
                    if wr:
                        got = (sim.get(c.read.data_out.data), sim.get(c.write.data_out.data))
                        exp = (sim.get(d.warg[i]), sim.get(d.rarg[i]))
                        if got != exp:
                            found.append(
                                f"configuration {kind}, cycle {cyc}: c{i} delivered (to reader, to writer)={got}, "
                                f"expected {exp}"
                            )
                            return
                await sim.tick()
                cyc += 1

    sim.add_testbench(tb)
    sim.run()
    return found[0] if found else None


if __name__ == "__main__":
    bad = 0
    for kind in "ABC":
        r = check(kind)
        if r:
            print("MISMATCH:", r)
            bad += 1
        else:
            print(f"configuration {kind}: ok")
    sys.exit(1 if bad else 0)
