"""C42 defect 3: a list key hands out the manager's INTERNAL list (ListKey.combine returns `data`
itself, and the cache stores that same object), so the value of a `get` is not a result but a live
alias of the manager's state.

Component : transactron.utils.dependencies.ListKey.combine (dependencies.py:87-88) together with
            DependencyManager.get_optional_dependency (dependencies.py:144-149)
Property  : "a list key returns all dependencies in insertion order" / "adding to a key after it was
            read raises when the key locks on get"

 (a) pure add/get history, ListKey(lock_on_get=False), cache True or False:
         r = get(k)  -> []          (correct at that time)
         add(k, "a")
     the object returned by the earlier get is now ["a"]: an already returned result changed.
 (b) the library itself trips over it: TransactionManager.elaborate does
         self.methods = DependencyContext.get().get_dependency(DefinedMethodsKey())   (core/manager.py:499)
         ...  self.methods.append(method)                                              (core/manager.py:474)
     i.e. it appends to the list of a key that is locked by that very get.  After elaborating a design
     with two simultaneous transactions, get_dependency(DefinedMethodsKey()) returns Methods that were
     never passed to add_dependency(DefinedMethodsKey(), ...); the lock ("no new dependencies ... if it
     was already read") is bypassed without any error.

Proposed minimal fix (transactron/utils/dependencies.py, class ListKey): hand out a fresh copy on
every get - copying in `combine` alone is not enough, because with cache=True the cached copy would be
the object every caller shares (checked: (b) still fails then):

    class ListKey[T](DependencyKey[T, list[T]]):
        empty_valid = True
        cache = False                      # a copy is cheap; do not share one cached object

        def combine(self, data: list[T]) -> list[T]:
            return list(data)

(callers such as manager.py:474 then only change their own copy.)
"""

import itertools
import sys
import warnings
from dataclasses import dataclass

from amaranth import *
from amaranth.hdl import Fragment

from transactron import *
from transactron.core.context import TransactronContextElaboratable
from transactron.core.keys import DefinedMethodsKey
from transactron.utils.dependencies import DependencyManager, ListKey

warnings.simplefilter("ignore")
failures = []

# ---- (a) add/get histories against a snapshot model -------------------------------------------------
for lock, cache in itertools.product([True, False], repeat=2):

    @dataclass(frozen=True)
    class K(ListKey[str]):
        lock_on_get = lock

    K.cache = cache
    for history in itertools.product("ag", repeat=4):
        dm, model, returned, n = DependencyManager(), [], [], 0
        locked = False
        for step, op in enumerate(history):
            if op == "a":
                n += 1
                try:
                    dm.add_dependency(K(), f"d{n}")
                    raised = False
                except KeyError:
                    raised = True
                if raised != locked:
                    failures.append(f"ListKey(lock_on_get={lock}, cache={cache}) {history} step {step}: raised={raised}")
                if not locked:
                    model.append(f"d{n}")
            else:
                got = dm.get_dependency(K())
                locked = locked or lock
                if got != model:
                    failures.append(f"ListKey(lock_on_get={lock}, cache={cache}) {history} step {step}: got {got}")
                returned.append((step, got, list(model)))
            for at, obj, snapshot in returned:
                if obj != snapshot:
                    failures.append(
                        f"ListKey(lock_on_get={lock}, cache={cache}) history {''.join(history)} "
                        f"(a=add, g=get): the list returned by the get at step {at} was {snapshot}, "
                        f"after step {step} ({'add' if op == 'a' else 'get'}) the same result reads {obj}"
                    )
                    break
            else:
                continue
            break

# ---- (b) the library's own caller mutates a locked key -----------------------------------------------


class LoggingManager(DependencyManager):
    """Unchanged behaviour; only records what was really added per key."""

    def __init__(self):
        super().__init__()
        self.added = {}

    def add_dependency(self, key, dependency):
        super().add_dependency(key, dependency)
        self.added.setdefault(key, []).append(dependency)


class TwoSimultaneous(Elaboratable):
    def elaborate(self, platform):
        m = TModule()
        self.meth = Method()

        @def_method(m, self.meth)
        def _():
            pass

        with Transaction(name="t1").body(m) as t1:
            self.meth(m)
        with Transaction(name="t2").body(m) as t2:
            pass
        t1.simultaneous(t2)
        return m


dm = LoggingManager()
Fragment.get(TransactronContextElaboratable(TwoSimultaneous(), dependency_manager=dm), None)
really_added = dm.added.get(DefinedMethodsKey(), [])
reported = dm.get_dependency(DefinedMethodsKey())
if [id(x) for x in reported] != [id(x) for x in really_added]:
    failures.append(
        "DefinedMethodsKey (ListKey, lock_on_get=True) after elaborating two simultaneous transactions: "
        f"get_dependency returns {[x.name for x in reported]}, but only {[x.name for x in really_added]} "
        "were ever passed to add_dependency (manager.py:474 appended to the list returned by the get at :499)"
    )
try:
    dm.add_dependency(DefinedMethodsKey(), Method())
    failures.append("DefinedMethodsKey was not even locked")
except KeyError:
    pass  # locked, as it should be - yet its contents changed after the get, see above

part_a = [f for f in failures if "history" in f]
part_b = [f for f in failures if "history" not in f]
for f in part_a[:1]:
    print("FIRST MISMATCH (a):", f)
if len(part_a) > 1:
    print(f"   ... and {len(part_a) - 1} more add/get histories of the same kind")
for f in part_b:
    print("MISMATCH (b):", f)
print(f"{len(failures)} mismatches")
sys.exit(1 if failures else 0)
