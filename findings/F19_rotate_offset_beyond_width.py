"""C37 defect 1: rotate_left / rotate_right / rotate_vec_left / rotate_vec_right do NOT rotate
modulo the width (length) once offset > width.

Root cause: transactron/utils/amaranth_ext/shifter.py:50
    Cat(value1, value2).bit_select(offset, len(value1))
only holds 2*w bits, so for offset > w the window [offset, offset+w) runs past the end of
Cat(value, value) and bit_select fills the missing bits with 0 (rotate_* at :161 / :184,
rotate_vec_* at :403 / :433 pass `offset` through unreduced).  The offset signal is accepted with
any width (and every width-w value with w not a power of two needs an offset signal that can also
hold values > w); a Python int offset > w is accepted too and even returns a NARROWER value.

Smallest proposed fix (reduce the offset in the four rotate functions):

    def rotate_right(value, offset):
        value = Value.cast(value); offset = Value.cast(offset)
        if len(value) and 2 ** len(offset) - 1 > len(value):
            offset = offset % len(value)
        return generic_shift_right(value, value, offset)
    # same in rotate_left; in rotate_vec_right/left use len(data) instead of len(value)

(checked exhaustively for w in 1..5, offset widths 1..4: no mismatch left)
"""
import sys
from amaranth import *
from amaranth.lib import data
from amaranth.sim import Simulator
from transactron.utils.amaranth_ext.shifter import rotate_left, rotate_right, rotate_vec_left, rotate_vec_right


def bits(v, w):
    return [(v >> i) & 1 for i in range(w)]


def ref_ror(v, o, w):
    return sum(bits(v, w)[(i + o) % w] << i for i in range(w))


def ref_rol(v, o, w):
    return sum(bits(v, w)[(i - o) % w] << i for i in range(w))


fails = []


def scalar(fun, ref, w, ow):
    m = Module()
    inp, off, out = Signal(w), Signal(ow), Signal(w)
    m.d.comb += out.eq(fun(inp, off))
    sim = Simulator(m)

    async def tb(ctx):
        for o in range(2**ow):
            for v in range(2**w):
                ctx.set(inp, v)
                ctx.set(off, o)
                got, exp = ctx.get(out), ref(v, o, w)
                if got != exp:
                    fails.append(
                        f"{fun.__name__}: width={w} offset_width={ow} value={v:#0{w+2}b} offset={o}: "
                        f"got {got:#0{w+2}b} expected {exp:#0{w+2}b}"
                    )
                    return

    sim.add_testbench(tb)
    sim.run()


def vec(fun, left, n, ow):
    layout = data.StructLayout({"a": 2, "b": signed(2)})
    ins = [Signal(layout, name=f"i{k}") for k in range(n)]
    off = Signal(ow)
    res = fun(ins, off)
    outs = [Signal(layout, name=f"o{k}") for k in range(n)]
    m = Module()
    m.d.comb += [o.eq(r) for o, r in zip(outs, res)]
    sim = Simulator(m)
    vals = [(3 * k + 1) % 16 for k in range(n)]

    async def tb(ctx):
        for s, x in zip(ins, vals):
            ctx.set(s.as_value(), x)
        for o in range(2**ow):
            ctx.set(off, o)
            got = [ctx.get(x.as_value()) for x in outs]
            exp = [vals[(i - o) % n] if left else vals[(i + o) % n] for i in range(n)]
            if got != exp:
                fails.append(f"{fun.__name__}: length={n} offset_width={ow} data={vals} offset={o}: got {got} expected {exp}")
                return

    sim.add_testbench(tb)
    sim.run()


for w in range(1, 7):
    for ow in range(1, 5):
        scalar(rotate_right, ref_ror, w, ow)
        scalar(rotate_left, ref_rol, w, ow)
for n in (1, 2, 3, 5, 6):
    for ow in (1, 2, 3, 4):
        vec(rotate_vec_right, False, n, ow)
        vec(rotate_vec_left, True, n, ow)

# a constant offset > width is accepted as well and even changes the width of the result
r = rotate_right(Signal(4), 6)
if len(r) != 4:
    fails.append(f"rotate_right(Signal(4), 6): result width {len(r)}, expected 4 ('the same width as value')")

if fails:
    print(f"{len(fails)} failing configurations; first mismatch:")
    print("  " + fails[0])
    print("others:")
    for f in fails[1:8]:
        print("  " + f)
    sys.exit(1)
print("no mismatch")
