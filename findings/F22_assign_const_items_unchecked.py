"""
C40 defect 2: a shape mismatch between an lhs field and the corresponding field of a `data.Const` rhs is
not rejected; the value is silently truncated / re-interpreted, so afterwards lhs.field != rhs.field.

Component: transactron.utils.assign.assign (rhs is an amaranth.lib.data.Const - a field container that
assign_arg_fields() explicitly supports, assign.py:47)
Configuration (smallest): lhs = Signal(StructLayout({"a": unsigned(1)})),
                          rhs = StructLayout({"a": unsigned(2)}).const({"a": 2}), any `fields` mode.
The same pair with rhs = Signal(StructLayout({"a": unsigned(2)})) raises ValueError("Shapes not matching").
Expected (property C40): raise (shape mismatch) - or lhs.a == rhs.a afterwards.
Got: one statement `lhs.a.eq(2)`; lhs.a == 0 != 2.   Signedness is lost as well:
lhs {"a": unsigned(2)} <- Const {"a": signed(2)} = -1 gives lhs.a == 3 != -1.

Root cause: transactron/utils/assign.py:131-134.  `data.Const.__getitem__` returns a bare Python int for
plain-shaped fields; rec_call() passes that int on and deliberately clears rhs_strict for it
(`and not isinstance(rhs[name], int)`), and has_explicit_shape(int) is False (assign.py:204-212), so the
shape recorded in the constant's layout is never compared with the lhs shape.

Smallest proposed fix (in rec_call, assign.py:122-135): give the int its declared shape back

        rhs_item = rhs[name]
        if isinstance(rhs, data.Const) and isinstance(rhs_item, int):
            layout = rhs.shape()
            shape = layout.elem_shape if isinstance(layout, data.ArrayLayout) else layout.members[name]
            rhs_item = Const(rhs_item, shape)
        return assign(lhs[name], rhs_item, fields=subfields,
                      lhs_strict=..., rhs_strict=isinstance(rhs, ValueLike) and not isinstance(rhs_item, int))

(the same two lines are needed where a single-field Const is unwrapped, assign.py:200-202).

Run `python defect2.py` -> exits 1 on the unchanged library.
Run `python defect2.py --with-fix` -> applies the fix in memory (library files untouched), exits 0.
"""

import sys
import inspect
import itertools
import warnings
from amaranth import *
from amaranth.lib import data
from amaranth.sim import Simulator
import transactron.utils  # noqa: F401

A = sys.modules["transactron.utils.assign"]
AssignType = A.AssignType

warnings.simplefilter("ignore")

if "--with-fix" in sys.argv:
    src = inspect.getsource(A.assign)
    old1 = "            rhs[name],  # type: ignore\n"
    new1 = "            rhs_item,  # type: ignore\n"
    old2 = "            rhs_strict=isinstance(rhs, ValueLike) and not isinstance(rhs[name], int),  # type: ignore\n"
    new2 = "            rhs_strict=isinstance(rhs, ValueLike) and not isinstance(rhs_item, int),  # type: ignore\n"
    old3 = "        return assign(\n"
    new3 = (
        "        rhs_item = rhs[name]\n"
        "        if isinstance(rhs, data.Const) and isinstance(rhs_item, int):\n"
        "            layout = rhs.shape()\n"
        "            shape = layout.elem_shape if isinstance(layout, data.ArrayLayout) else layout.members[name]\n"
        "            rhs_item = Const(rhs_item, shape)\n"
        "        return assign(\n"
    )
    old4 = "            rhs = rhs[next(iter(rhs_fields))]  # type: ignore\n"
    new4 = (
        "            name = next(iter(rhs_fields))\n"
        "            item = rhs[name]\n"
        "            if isinstance(rhs, data.Const) and isinstance(item, int):\n"
        "                layout = rhs.shape()\n"
        "                shape = layout.elem_shape if isinstance(layout, data.ArrayLayout) else layout.members[name]\n"
        "                item = Const(item, shape)\n"
        "                rhs_strict = True\n"
        "            rhs = item\n"
    )
    for o in (old1, old2, old3, old4):
        assert src.count(o) == 1, o
    src = src.replace(old1, new1).replace(old2, new2).replace(old3, new3).replace(old4, new4)
    exec(src, A.__dict__)

assign = A.assign

shapes = [unsigned(1), unsigned(2), unsigned(3), signed(1), signed(2), signed(3)]


def values(shape):
    if shape.signed:
        return range(-(1 << (shape.width - 1)), 1 << (shape.width - 1))
    return range(1 << shape.width)


def containers(shape):
    """(name, layout, constructor of the constant initialiser, accessor)"""
    yield "struct", data.StructLayout({"a": shape}), (lambda v: {"a": v}), (lambda o: o["a"])
    yield "array", data.ArrayLayout(shape, 2), (lambda v: [v, v]), (lambda o: o[1])
    yield "nested", data.StructLayout({"x": data.ArrayLayout(data.StructLayout({"a": shape, "b": 1}), 1)}), (
        lambda v: {"x": [{"a": v, "b": 1}]}
    ), (lambda o: o["x"][0]["a"])


def run(stmts, probe):
    m = Module()
    m.d.comb += stmts
    res = []

    async def tb(ctx):
        await ctx.delay(1e-9)
        res.append(ctx.get(Value.cast(probe)))

    sim = Simulator(m)
    sim.add_testbench(tb)
    sim.run()
    return res[0]


n = 0
for lshape, rshape in itertools.product(shapes, shapes):
    for (cname, llay, _, lacc), (_, rlay, rmk, racc) in zip(containers(lshape), containers(rshape)):
        for lhs_kind in ("view", "dict"):
            silent = None
            for v in values(rshape):
                lview = Signal(llay)
                if lhs_kind == "view":
                    lhs = lview
                elif cname == "struct":
                    lhs = {"a": Signal(lshape)}
                elif cname == "array":
                    lhs = [Signal(lshape), Signal(lshape)]
                else:
                    lhs = {"x": [{"a": Signal(lshape), "b": Signal(1)}]}
                rhs = rlay.const(rmk(v))
                cfg = (
                    f"config: container={cname}, lhs={lhs_kind} with field shape {lshape!r}; "
                    f"rhs=data.Const with field shape {rshape!r}, field value {v}"
                )
                n += 1
                try:
                    stmts = list(assign(lhs, rhs, fields=AssignType.ALL))
                except (ValueError, KeyError, TypeError):
                    if lshape == rshape:
                        print(cfg)
                        print("got: exception, expected: assignment (shapes are equal)")
                        sys.exit(1)
                    continue
                got = run(stmts, lacc(lhs))
                if got != v:
                    print(cfg)
                    print(f"cycle 0: no exception; lhs field got {got}, expected {v} (or a ValueError: the shapes differ)")
                    sys.exit(1)
                if lshape != rshape:
                    silent = cfg
            if silent is not None:
                print(silent)
                print("cycle 0: no exception although the field shapes differ (all values happened to fit)")
                sys.exit(1)
print(f"all {n} configurations OK")
