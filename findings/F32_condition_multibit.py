"""F32: condition() with a multi-bit condition: `ready.eq(cond)` keeps bit 0 only, so for cond = 2 the branch never
runs and the default branch runs although a condition holds (Amaranth's If, which condition() is documented to resemble,
tests cond != 0)."""
import sys, warnings
from amaranth import *
from amaranth.sim import Simulator
from transactron import *
from transactron.core.context import TransactronContextElaboratable
from transactron.lib.simultaneous import condition
warnings.filterwarnings("ignore")

class D(Elaboratable):
    def __init__(self):
        self.c = Signal(2); self.b = Signal(); self.d = Signal()
    def elaborate(self, platform):
        m = TModule()
        dummy = Signal(); m.d.sync += dummy.eq(~dummy)
        with Transaction().body(m):
            with condition(m) as branch:
                with branch(self.c):
                    m.d.comb += self.b.eq(1)
                with branch():
                    m.d.comb += self.d.eq(1)
        return m

d = D()
sim = Simulator(TransactronContextElaboratable(d)); sim.add_clock(1e-6)
bad = []
async def tb(ctx):
    for v in range(4):
        ctx.set(d.c, v)
        await ctx.tick()
        got = (ctx.get(d.b), ctx.get(d.d)); exp = (int(v != 0), int(v == 0))
        if got != exp: bad.append((v, got, exp))
sim.add_testbench(tb); sim.run()
for v, got, exp in bad: print(f"MISMATCH cond={v}: (branch, default) ran {got}, expected {exp}")
print("no mismatch" if not bad else "")
sys.exit(1 if bad else 0)
