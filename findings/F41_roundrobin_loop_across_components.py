"""C09 defect 1: trivial_roundrobin_cc_scheduler builds a combinational loop ACROSS conflict components.

Design (accepted by the manager, fine with the default eager scheduler, no ready dependency inside
any conflict component):

    T1 { T2 }      T2 is nested in T1  ->  T2 is ready-dependent on T1
    T3 { T4 }      T4 is nested in T3  ->  T4 is ready-dependent on T3
    T1.add_conflict(T4)   -> component A = {T1, T4}
    T2.add_conflict(T3)   -> component B = {T2, T3}

A's request for T4 depends on T3.run (component B), B's request for T2 depends on T1.run (component A).
With the round-robin scheduler every grant of a component depends combinationally on every request of
that component (schedulers.py:74-76, elaboratables.py:179-188), so
    T1.run <- A.requests[T4] <- T3.run <- B.requests[T2] <- T1.run
is a combinational cycle.  The eager scheduler has no such cycle, because run signals only depend on
transactions earlier in the priority order (which the manager computes so that T1 < T2 and T3 < T4);
the round-robin scheduler ignores that order.

History: cycle 0: only T1, T3 ready -> both run, A's pointer is on T1, B's pointer is on T3.
         cycle 1: T2 and T4 become ready too (same clock edge).  A now prefers T4, B prefers T2:
                  (T1,T3 run) -> (T4,T2 granted) -> T2,T4 lose their enclosing body -> (T1,T3) -> ...
The netlist never settles: the simulator spins forever (hardware: oscillation / race).  Expected by C09:
a settled cycle with exactly one running transaction in A and exactly one in B.

Smallest fix proposed (schedulers.py, at the top of trivial_roundrobin_cc_scheduler): refuse what the
arbiter cannot implement -- follow the ready dependencies out of the component and raise when they come back
(this also rejects the already known case of a body nested in a transaction of its own component):

    deps = TransactionManager._ready_dependencies(method_map)
    seen, todo = set(), list(cc)
    while todo:
        t = todo.pop()
        for body in method_map.ready_for_transaction(t):
            for dep in deps[body]:
                for u in method_map.transactions_for(dep):
                    comp, q = set(), [u]                  # conflict component of u
                    while q:
                        w = q.pop()
                        if w not in comp:
                            comp.add(w); q.extend(gr[w])
                    if comp & set(cc):
                        raise RuntimeError("round-robin scheduler: ready dependencies lead back into the component")
                    for w in comp - seen:
                        seen.add(w); todo.append(w)

(prototyped as a wrapper scheduler: rejects this design and every non-settling random design found, accepts all
designs that simulated cleanly).
"""
import os, signal, sys, warnings

from amaranth import *
from amaranth.sim import Simulator
from transactron import *
from transactron.core.context import TransactronContextElaboratable
from transactron.core.manager import TransactionManager
from transactron.core.schedulers import trivial_roundrobin_cc_scheduler, eager_deterministic_cc_scheduler
from transactron.utils import DependencyContext, DependencyManager

warnings.filterwarnings("ignore")


class Dut(Elaboratable):
    def __init__(self):
        self.outer = Signal()  # ready of T1 and T3
        self.inner = Signal()  # ready of T2 and T4 (one register in a real design: they change together)

    def elaborate(self, platform):
        m = TModule()
        tick = Signal()
        m.d.sync += tick.eq(~tick)
        self.t = t = [Transaction(name=f"T{i + 1}") for i in range(4)]
        with t[0].body(m, ready=self.outer):
            with t[1].body(m, ready=self.inner):
                pass
        with t[2].body(m, ready=self.outer):
            with t[3].body(m, ready=self.inner):
                pass
        t[0].add_conflict(t[3])
        t[1].add_conflict(t[2])
        return m


class Unsettled(Exception):
    pass


def on_alarm(*_):
    raise Unsettled()


def run(scheduler):
    dut = Dut()
    ccs = []

    def recording(method_map, gr, cc, porder):
        ccs.append(list(cc))
        return scheduler(method_map, gr, cc, porder)

    with DependencyContext(DependencyManager()):
        sim = Simulator(TransactronContextElaboratable(dut, DependencyContext.get(), TransactionManager(recording)))
    sim.add_clock(1e-6)
    state = {"cycle": -1}
    bad = []

    async def tb(ctx):
        for cyc, (outer, inner) in enumerate([(1, 0), (1, 1), (1, 1), (1, 1)]):
            state["cycle"] = cyc
            ctx.set(dut.outer, outer)
            ctx.set(dut.inner, inner)
            for cc in ccs:
                req = [ctx.get(t.ready) & ctx.get(t.runnable) for t in cc]
                runs = [ctx.get(t.run) for t in cc]
                if sum(runs) != (1 if any(req) else 0):
                    bad.append((cyc, [t.name for t in cc], req, runs))
            await ctx.tick()

    sim.add_testbench(tb)
    signal.signal(signal.SIGALRM, on_alarm)
    signal.alarm(15)
    try:
        sim.run()
    except Unsettled:
        return "unsettled", state["cycle"], [[t.name for t in cc] for cc in ccs]
    finally:
        signal.alarm(0)
    return ("mismatch" if bad else "ok"), bad, [[t.name for t in cc] for cc in ccs]


res = run(eager_deterministic_cc_scheduler)
print("eager_deterministic_cc_scheduler:", res)
assert res[0] == "ok", "reference run with the default scheduler should be fine"
res = run(trivial_roundrobin_cc_scheduler)
print("trivial_roundrobin_cc_scheduler:", res)
if res[0] != "ok":
    print(
        "MISMATCH: config = T1{T2}, T3{T4}, T1#T4, T2#T3; components %s; cycle %s; "
        "got: combinational loop never settles (simulator spun for 15 s); "
        "expected: exactly one running transaction per component" % (res[2], res[1])
    )
    sys.stdout.flush()
    os._exit(1)
print("no deviation")
