"""C37 defect 2: shift_left / shift_right (and shift_vec_left / shift_vec_right) do NOT fill with the
placeholder once offset > width (length): the vacated positions are filled with 0 instead.

Root cause: transactron/utils/amaranth_ext/shifter.py:50
    Cat(value1, value2).bit_select(offset, len(value1))
Only w placeholder bits are appended (shifter.py:107 / :138 `placeholder.replicate(len(value))`,
:333 / :373 `[placeholder] * len(data)`), so for offset > w the window [offset, offset+w) runs past
the 2*w bits of the Cat and bit_select supplies zeros.  With the default placeholder 0 this is
invisible, with placeholder=1 (or a non-zero vector placeholder) the result is wrong.  The offset
signal is accepted with any width; e.g. a 5 bit value with the natural offset Signal(range(5 + 1))
(3 bits) already has the failing offsets 6 and 7.  A Python int offset > w returns a narrower value.

Smallest proposed fix (saturate the offset in the four shift functions):

    def shift_right(value, offset, placeholder=0):
        value = Value.cast(value); offset = Value.cast(offset)
        if 2 ** len(offset) - 1 > len(value):
            offset = Mux(offset > len(value), len(value), offset)
        ...unchanged...
    # same in shift_left; in shift_vec_right/left use len(data) instead of len(value)

(checked exhaustively for w in 1..5, offset widths 1..4, placeholder 0/1: no mismatch left)
"""
import sys
from amaranth import *
from amaranth.lib import data
from amaranth.sim import Simulator
from transactron.utils.amaranth_ext.shifter import shift_left, shift_right, shift_vec_left, shift_vec_right


def bits(v, w):
    return [(v >> i) & 1 for i in range(w)]


def ref_shr(v, o, w, p):
    return sum((bits(v, w)[i + o] if i + o < w else p) << i for i in range(w))


def ref_shl(v, o, w, p):
    return sum((bits(v, w)[i - o] if i - o >= 0 else p) << i for i in range(w))


fails = []


def scalar(fun, ref, w, ow):
    m = Module()
    inp, off, ph, out = Signal(w), Signal(ow), Signal(1), Signal(w)
    m.d.comb += out.eq(fun(inp, off, placeholder=ph))
    sim = Simulator(m)

    async def tb(ctx):
        for o in range(2**ow):
            for v in range(2**w):
                for p in (0, 1):
                    ctx.set(inp, v)
                    ctx.set(off, o)
                    ctx.set(ph, p)
                    got, exp = ctx.get(out), ref(v, o, w, p)
                    if got != exp:
                        fails.append(
                            f"{fun.__name__}: width={w} offset_width={ow} value={v:#0{w+2}b} offset={o} "
                            f"placeholder={p}: got {got:#0{w+2}b} expected {exp:#0{w+2}b}"
                        )
                        return

    sim.add_testbench(tb)
    sim.run()


def vec(fun, left, n, ow):
    layout = data.StructLayout({"a": 2, "b": signed(2)})
    ins = [Signal(layout, name=f"i{k}") for k in range(n)]
    off = Signal(ow)
    ph = 0b1011
    res = fun(ins, off, placeholder=layout.from_bits(ph))
    outs = [Signal(layout, name=f"o{k}") for k in range(n)]
    m = Module()
    m.d.comb += [o.eq(r) for o, r in zip(outs, res)]
    sim = Simulator(m)
    vals = [(3 * k + 1) % 16 for k in range(n)]

    async def tb(ctx):
        for s, x in zip(ins, vals):
            ctx.set(s.as_value(), x)
        for o in range(2**ow):
            ctx.set(off, o)
            got = [ctx.get(x.as_value()) for x in outs]
            if left:
                exp = [vals[i - o] if i - o >= 0 else ph for i in range(n)]
            else:
                exp = [vals[i + o] if i + o < n else ph for i in range(n)]
            if got != exp:
                fails.append(
                    f"{fun.__name__}: length={n} offset_width={ow} data={vals} placeholder={ph} offset={o}: "
                    f"got {got} expected {exp}"
                )
                return

    sim.add_testbench(tb)
    sim.run()


for w in range(1, 7):
    for ow in range(1, 5):
        scalar(shift_right, ref_shr, w, ow)
        scalar(shift_left, ref_shl, w, ow)
for n in (1, 2, 3, 5, 6):
    for ow in (1, 2, 3, 4):
        vec(shift_vec_right, False, n, ow)
        vec(shift_vec_left, True, n, ow)

r = shift_right(Signal(4), 6, 1)
if len(r) != 4:
    fails.append(f"shift_right(Signal(4), 6, 1): result width {len(r)}, expected 4 ('the same width as value')")

if fails:
    print(f"{len(fails)} failing configurations; first mismatch:")
    print("  " + fails[0])
    print("others:")
    for f in fails[1:6]:
        print("  " + f)
    for f in [f for f in fails if f.startswith("shift_vec")][:2]:
        print("  " + f)
    sys.exit(1)
print("no mismatch")
