"""C10 defect 2 (library): MemoryBank(read_on_resp=True, transparent=True) reads `write.run` and the write
arguments combinationally in the value returned by `read_resp`, but declares no order between `write` and
`read_resp`.  Whether a design using it has a combinational cycle then depends on the definition order of the
user's transactions.

Design A (only library components, `m.If` on a returned value, all readiness from registers; no validate_arguments):

    issue:    bank.read_req[0](m, addr=1)
    resp:     d = bank.read_resp[0](m);  with m.If(d.data != 0): fwd.write(m, d)      # fwd = Forwarder
    consume:  out.write(m, fwd.read(m))                                               # out = FIFO
    update:   bank.write[0](m, addr=1, data=2);  out.write(m, data=3)

  consume and update conflict (both write `out`).  If the scheduler puts consume first (it does whenever consume is
  defined before update: 12 of the 24 definition orders):
    update.run <- ~consume.run <- consume.runnable <- fwd.read.ready <- fwd.write.run <- enable (d.data != 0)
               <- read_resp.data_out <- write_port.en <- bank.write.run <- update.run
Design B (two producers of one WideFifo, validate_arguments of WideFifo.write looks at the forwarded value):

    T1:  d = bank.read_resp[0](m);  wf.write(m, count=d.data, data=[1, 2])
    T2:  bank.write[0](m, addr=1, data=2);  wf.write(m, count=1, data=[3, 4])

With transparent=False (or read_on_resp=False) the same designs are cycle free in every order: controls below.

Root cause: transactron/lib/storage.py:126-145 (read_output_next / overflow_next are a OneHotMux over
`write_port[j].en & (write_port[j].addr == ...)`, and write_port[j].en is assigned under `write.run`,
storage.py:204/206) and storage.py:168-172 (read_resp returns overflow_next / read_output_next when
read_on_resp and transparent).  Forwarder and Pipe declare this kind of dependency with schedule_before
(connectors.py:133, 206); MemoryBank does not.

Smallest fix (checked in a scratch copy: all orders below become cycle free, test/lib/test_storage.py passes):
define the write methods before read_resp (schedule_before rejects "defined afterwards") and declare the order:

        @def_methods(m, self.write)          # moved up, unchanged
        def _(i: int, arg): ...

        if self.read_on_resp and self.transparent:
            for write in self.write:
                for read_resp in self.read_resp:
                    write.schedule_before(read_resp)

        @def_methods(m, self.read_resp, ...)
"""

import itertools
import sys
import warnings

warnings.filterwarnings("ignore")

from amaranth import *  # noqa: E402
from amaranth.hdl import Fragment, CombinationalCycle  # noqa: E402
from amaranth.hdl._ir import build_netlist  # noqa: E402
from transactron import *  # noqa: E402
from transactron.core.context import TransactronContextElaboratable  # noqa: E402
from transactron.utils import DependencyContext, DependencyManager  # noqa: E402
from transactron.lib import Forwarder, FIFO  # noqa: E402
from transactron.lib.fifo import WideFifo  # noqa: E402
from transactron.lib.storage import MemoryBank  # noqa: E402


class Top(Elaboratable):
    def __init__(self, fn):
        self.fn = fn

    def elaborate(self, platform):
        m = TModule()
        self.fn(m)
        return m


def elaborate(fn):
    try:
        with DependencyContext(DependencyManager()):
            top = TransactronContextElaboratable(Top(fn))
        build_netlist(Fragment.get(top, None), ports=[])
    except CombinationalCycle as e:
        return str(e)
    return None


def design_a(order: str, read_on_resp: bool, transparent: bool):
    def fn(m: TModule):
        m.submodules.bank = bank = MemoryBank(shape=2, depth=4, read_on_resp=read_on_resp, transparent=transparent)
        m.submodules.fwd = fwd = Forwarder([("data", 2)])
        m.submodules.out = out = FIFO([("data", 2)], 2)

        def issue():
            with Transaction(name="issue").body(m):
                bank.read_req[0](m, addr=1)

        def resp():
            with Transaction(name="resp").body(m):
                d = bank.read_resp[0](m)
                with m.If(d.data != 0):
                    fwd.write(m, d)

        def consume():
            with Transaction(name="consume").body(m):
                out.write(m, fwd.read(m))

        def update():
            with Transaction(name="update").body(m):
                bank.write[0](m, addr=1, data=2)
                out.write(m, data=3)

        for k in order:
            {"i": issue, "r": resp, "c": consume, "u": update}[k]()

    return fn


def design_b(order: str, read_on_resp: bool, transparent: bool):
    def fn(m: TModule):
        m.submodules.bank = bank = MemoryBank(shape=2, depth=4, read_on_resp=read_on_resp, transparent=transparent)
        m.submodules.wf = wf = WideFifo(8, 4, 2)

        def t0():
            with Transaction(name="T0").body(m):
                bank.read_req[0](m, addr=1)

        def t1():
            with Transaction(name="T1").body(m):
                d = bank.read_resp[0](m)
                wf.write(m, count=d.data, data=[1, 2])

        def t2():
            with Transaction(name="T2").body(m):
                bank.write[0](m, addr=1, data=2)
                wf.write(m, count=1, data=[3, 4])

        for k in order:
            {"0": t0, "1": t1, "2": t2}[k]()

    return fn


failed = False
first = True
for design, name, letters in ((design_a, "A (Forwarder/FIFO, no validate_arguments)", "ircu"), (design_b, "B (WideFifo)", "012")):
    for read_on_resp, transparent in ((False, False), (False, True), (True, False), (True, True)):
        bad = []
        for order in itertools.permutations(letters):
            res = elaborate(design(order, read_on_resp, transparent))
            if res is not None:
                bad.append(("".join(order), res))
        cfg = f"design {name}, MemoryBank(read_on_resp={read_on_resp}, transparent={transparent})"
        if not bad:
            print(f"[ok]   {cfg}: cycle free in every definition order")
        else:
            failed = True
            print(f"[FAIL] {cfg}: expected a cycle free netlist in every definition order, got CombinationalCycle "
                  f"for definition orders {[o for o, _ in bad]}")
            if first:
                first = False
                print(f"first failing order {bad[0][0]}:")
                print(bad[0][1])

sys.exit(1 if failed else 0)
