"""C05 audit, defect 1: a design in which one transaction reaches a NONEXCLUSIVE method by two call sites is
rejected at elaboration with "Method 'X' called twice" as soon as that nonexclusive method itself calls an
exclusive method X -- although X has exactly one call site (inside the nonexclusive method, whose body runs once
per cycle whatever the number of its callers) and therefore a single active call.

The very same sharing is accepted when the two call sites of the nonexclusive method are in two different
transactions (TransactionManager._conflict_graph.calls_nonexclusive looks at the last common ancestor of the two
call chains and accepts when it is nonexclusive), and a nonexclusive method that calls nothing may be called twice by
one transaction (test_twice_nonexclusive).  Only the per-root check in MethodMap.validate_root_call_tree forgets
the rule.

Root cause: transactron/core/manager.py:82-97 (rec_root).  Every call site of a nonexclusive method N is descended
again, so every method called by N is recorded once per call site of N; the pair of records of the exclusive callee X
is then compared only by control path (line 93), never by "is the last common ancestor nonexclusive".

Smallest fix (manager.py:92-94), the rule calls_nonexclusive already uses for two transactions:

        for old_ancestors, old_call_path in call_sights[method]:
    -       if not method.nonexclusive and not call_paths_exclusive(old_call_path, new_call_path):
    +       common = longest_common_prefix(old_ancestors, new_ancestors)   # callee-first, never empty
    +       if not common[-1].nonexclusive and not call_paths_exclusive(old_call_path, new_call_path):
                report_double_call(root, method, old_ancestors, new_ancestors)

(with the fix this script elaborates the designs, simulates them and checks that X sees the combiner of the active
arguments of N and that every caller sees X's result; it then exits 0.)
"""

import random
import sys
import warnings
from amaranth import *
from amaranth.sim import Simulator
from transactron import *
from transactron.core.context import TransactronContextElaboratable

warnings.filterwarnings("ignore")


class Design(Elaboratable):
    """variant "twice":   T: N(a0); N(a1)                 N (nonexclusive, OR combiner): X(a)
    variant "diamond": T: N(a0); M(a1)      M: N(a)    N (nonexclusive, OR combiner): X(a)
    variant "two_transactions" (control, accepted by the library): T0: N(a0)   T1: N(a1)"""

    def __init__(self, variant):
        self.variant = variant
        self.req = [Signal(name=f"req{i}") for i in range(2)]
        self.a = [Signal(4, name=f"a{i}") for i in range(2)]
        self.x_ready = Signal()

    def elaborate(self, platform):
        m = TModule()
        lay = [("a", 4)]
        self.X = X = Method(i=lay, o=[("r", 4)])
        self.N = N = Method(i=lay, o=[("r", 4)])
        M = Method(i=lay, o=[("r", 4)])

        @def_method(m, X, ready=self.x_ready)
        def _(a):
            return {"r": a + 3}

        def or_combiner(mm, args, runs):
            v = C(0, 4)
            for i, arg in enumerate(args):
                v = v | Mux(runs[i], arg.a, 0)
            return {"a": v}

        @def_method(m, N, nonexclusive=True, combiner=or_combiner)
        def _(a):
            return X(m, a=a)

        @def_method(m, M)
        def _(a):
            return N(m, a=a)

        self.t = []
        self.rets = []  # (transaction index, returned struct)
        if self.variant == "two_transactions":
            for i in range(2):
                with Transaction(name=f"T{i}").body(m, ready=self.req[i]) as t:
                    self.rets.append((i, N(m, a=self.a[i])))
                self.t.append(t)
        else:
            with Transaction(name="T").body(m, ready=self.req[0]) as t:
                self.rets.append((0, N(m, a=self.a[0])))
                second = N if self.variant == "twice" else M
                self.rets.append((0, second(m, {"a": self.a[1]})))
            self.t.append(t)
        return m


def check(variant):
    d = Design(variant)
    try:
        sim = Simulator(TransactronContextElaboratable(d))
    except RuntimeError as e:
        print(f"configuration {variant!r}: elaboration of a well-formed design failed")
        print("  got     : RuntimeError:", str(e).replace("\n", "\n            "))
        print("  expected: accepted; exclusive X has one call site (in nonexclusive N) and one active call per cycle")
        return False

    ok = [True]

    async def tb(ctx):
        rng = random.Random(5)
        for cyc in range(200):
            for s in d.req + d.a + [d.x_ready]:
                ctx.set(s, rng.getrandbits(len(s)))
            runs = [ctx.get(t.run) for t in d.t]
            a = [ctx.get(s) for s in d.a]
            if variant == "two_transactions":
                active = [a[i] for i in range(2) if runs[i]]
            else:
                active = a if runs[0] else []
            exp = 0
            for v in active:
                exp |= v
            got_run = ctx.get(d.X.run)
            if got_run != bool(active) or (active and ctx.get(d.X.data_in.a) != exp):
                print(f"configuration {variant!r} cycle {cyc}: X run/data_in = {got_run}/{ctx.get(d.X.data_in.a)}, "
                      f"expected {int(bool(active))}/{exp}")
                ok[0] = False
                return
            for ti, ret in d.rets:
                if runs[ti] and ctx.get(ret.r) != (exp + 3) % 16:
                    print(f"configuration {variant!r} cycle {cyc}: caller sees {ctx.get(ret.r)}, expected {(exp + 3) % 16}")
                    ok[0] = False
                    return
            await ctx.delay(1e-6)

    sim.add_testbench(tb)
    sim.run()
    if ok[0]:
        print(f"configuration {variant!r}: accepted, routing correct")
    return ok[0]


if __name__ == "__main__":
    results = [check(v) for v in ("two_transactions", "twice", "diamond")]
    sys.exit(0 if all(results) else 1)
