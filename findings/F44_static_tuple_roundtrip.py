"""C33 defect 3: saving and loading an event log (EventLog.save/load, EventLogReader) does not yield the
same decoded events when a static field holds a plain Python value which JSON cannot represent
one-to-one - most commonly a tuple (e.g. `port: Static[tuple[int, int]]`), also a dict with int keys.

EventSource.top_emit (transactron/evlog/emit.py:154-159) stores the static value as given
(static_to_raw, transactron/evlog/event.py:47-51, only unwraps a top-level Enum), so the in-memory log
decodes to `Ev(..., port=(1, 2))`.  _write_header/_read_header (transactron/evlog/log.py:77-82) send the
schema through JSON, the loaded log decodes to `Ev(..., port=[1, 2])`: `loaded.schema != log.schema`,
`loaded.decoded() != log.decoded()`, `list(EventLogReader(path)) != log.decoded()`; a consumer that uses
the static as a dict key / set member works on the captured log and raises TypeError on the loaded one.
The value is accepted at emission time (it is a "plain Python value", and "JSON-serializable" as the
EmittedEvent.statics docstring demands).

Smallest fix (event.py, static_to_raw): store what a reader of the file will see, so that every route
decodes the same thing:

    def static_to_raw(value):
        if isinstance(value, enum.Enum):
            value = value.value
        return json.loads(json.dumps(value))    # canonical JSON form (also rejects non-serializable statics early)

(optionally let _convert_field turn lists back into tuples when the annotation's origin is `tuple`).
"""
import os
import sys
import tempfile

from amaranth import *

from transactron.evlog import Event, EventLog, EventLogReader, EventSource, EvLogEnabledKey, Static, event
from transactron.testing.evlog import capture_evlog
from transactron.testing.simulator import PysimSimulator
from transactron.testing.tick_count import make_tick_count_process
from transactron.utils.dependencies import DependencyContext, DependencyManager


@event("defect3.ev")
class Ev(Event):
    value: int
    port: Static[tuple[int, int]]


class Dut(Elaboratable):
    def __init__(self):
        self.value = Signal(4)
        self.fire = Signal()
        self.evlog = EventSource("defect3")

    def elaborate(self, platform):
        m = Module()
        cnt = Signal(4)
        m.d.sync += cnt.eq(cnt + 1)
        self.evlog.emit(m, Ev.hw(value=self.value, port=(1, 2)), when=self.fire)
        return m


with DependencyContext(DependencyManager()):
    DependencyContext.get().add_dependency(EvLogEnabledKey(), True)
    dut = Dut()
    sim = PysimSimulator(dut)
    sim.add_process(make_tick_count_process())
    log, proc = capture_evlog()
    sim.add_process(proc)

    async def tb(ctx):
        for cyc in range(6):
            ctx.set(dut.value, cyc + 3)
            ctx.set(dut.fire, cyc % 2)
            await ctx.tick()

    sim.add_testbench(tb)
    sim.run()

expected = log.decoded()
assert [(d.cycle, d.event) for d in expected] == [(c, Ev(value=c + 3, port=(1, 2))) for c in (1, 3, 5)]

fd, path = tempfile.mkstemp(suffix=".jsonl")
os.close(fd)
try:
    log.save(path)
    routes = {
        "EventLog.load(path).decoded()": EventLog.load(path).decoded(),
        "list(EventLogReader(path))": list(EventLogReader(path)),
    }
    loaded_schema = EventLog.load(path).schema
finally:
    os.unlink(path)

failed = False
config = "site Ev(value: 4 bits, port: Static[tuple[int, int]] = (1, 2))"
if loaded_schema != log.schema:
    failed = True
    print(f"MISMATCH [{config}]: loaded schema statics {loaded_schema.sites[0].statics}, "
          f"expected {log.schema.sites[0].statics}")
for name, got in routes.items():
    for g, e in zip(got, expected):
        if g.event != e.event or g != e:
            failed = True
            print(f"MISMATCH [{config}]: {name}: cycle {e.cycle}: got {g.event}, expected {e.event}")
            break

sys.exit(1 if failed else 0)
