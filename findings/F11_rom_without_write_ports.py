"""C23 defect 1: a multiport memory WITHOUT write ports (a ROM) loses its initial contents.

MultiportXORMemory, MultiportXORILVTMemory and MultiportOneHotILVTMemory accept a configuration with
read ports only (MultiReadMemory and amaranth.lib.memory.Memory handle it correctly: it is a ROM
holding `init`).  The initial contents live only in "bank 0", and the banks are created per WRITE
port (memory.py:245-262 for the XOR memory, memory.py:501-517 for the ILVT memories), so with no write
port there is no storage at all: read_xors stays Value.cast(0) (memory.py:210) / the m.Switch at
memory.py:548-551 has no case, and every read returns 0.

Proposed minimal fix (checked by monkey-patching: all three classes then match the ideal memory):
at the start of MultiportXORMemory.elaborate and MultiportILVTMemory.elaborate, before
`self._frozen = True`:

        if not self.write_ports:
            self.write_port()  # never-enabled dummy port, so that bank 0 (holding init) exists
"""
import sys
import warnings
from amaranth import *
from amaranth.sim import Simulator
import amaranth.lib.memory as amem
from transactron.core.context import TransactronContextElaboratable
from transactron.utils.dependencies import DependencyContext, DependencyManager
from transactron.utils.amaranth_ext.memory import (
    MultiReadMemory,
    MultiportXORMemory,
    MultiportXORILVTMemory,
    MultiportOneHotILVTMemory,
)

warnings.simplefilter("ignore")
WIDTH, DEPTH, INIT = 4, 3, [5, 6, 7]


class Pair(Elaboratable):
    def __init__(self, cls):
        self.dut = cls(shape=WIDTH, depth=DEPTH, init=INIT)
        self.ref = amem.Memory(shape=WIDTH, depth=DEPTH, init=INIT)
        self.dr = self.dut.read_port()
        self.rr = self.ref.read_port()

    def elaborate(self, platform):
        m = Module()
        m.submodules.dut = self.dut
        m.submodules.ref = self.ref
        m.d.comb += [self.rr.addr.eq(self.dr.addr), self.rr.en.eq(self.dr.en)]
        return m


def check(cls):
    with DependencyContext(DependencyManager()):
        p = Pair(cls)
        sim = Simulator(TransactronContextElaboratable(p))
    sim.add_clock(1e-6)
    bad = []

    async def tb(ctx):
        for cyc, addr in enumerate([0, 1, 2, 0]):
            ctx.set(p.dr.addr, addr)
            ctx.set(p.dr.en, 1)
            await ctx.tick()
            got, exp = ctx.get(p.dr.data), ctx.get(p.rr.data)
            if got != exp and not bad:
                bad.append((cyc + 1, addr, got, exp))

    sim.add_testbench(tb)
    sim.run()
    if bad:
        cyc, addr, got, exp = bad[0]
        print(
            f"MISMATCH {cls.__name__}(shape={WIDTH}, depth={DEPTH}, init={INIT}), 1 read port, 0 write ports: "
            f"cycle {cyc}: data of read(addr={addr}) got {got}, expected {exp}"
        )
    else:
        print(f"ok       {cls.__name__}")
    return bool(bad)


if __name__ == "__main__":
    failed = [check(c) for c in [MultiReadMemory, MultiportXORMemory, MultiportXORILVTMemory, MultiportOneHotILVTMemory]]
    sys.exit(1 if any(failed) else 0)
