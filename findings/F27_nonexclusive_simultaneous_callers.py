"""C11 defect 2: a well-formed design in which a NONEXCLUSIVE method (no exclusive method in its call tree) is
called several times is rejected ("Unsatisfiable simultaneity constraints") as soon as two of the calling
transactions are simultaneous - e.g. the method is called in a transaction/method body and again in one of
its `condition()` branches (the branches are nested transactions, simultaneous with the enclosing body).

None of the C11 defects is present: no exclusive method is called twice, no recursion, no priorities, no
single_caller method, no ready dependency on a conflicting transaction (callers of a nonexclusive method do not
conflict).  C11: "Designs free of these defects elaborate successfully, in particular when ... a nonexclusive
method whose call tree contains no exclusive method is called several times."

Root cause: TransactionManager._simultaneous, step 1 (transactron/core/manager.py:390-395)

        for elem in method_map.methods_and_transactions:
            indeps = frozenset[TBody]().union(
                *(frozenset(method_map.transactions_for(ind)) for ind in chain([elem], elem.independent_list))
            )
            for transaction1, transaction2 in product(indeps, indeps):
                independents[transaction1].add(transaction2)

declares all transactions calling the same method `elem` pairwise "independent" (never to be merged into one
simultaneous transaction).  That is right for an exclusive method (merging would be a double call), but it is
done for nonexclusive methods too, although two callers of a nonexclusive method neither conflict nor produce
a double call when merged (validate_root_call_tree, manager.py:93, and _conflict_graph.calls_nonexclusive,
manager.py:239-245, both exempt nonexclusive methods).  Then manager.py:407-413 raises.

Smallest fix proposed (manager.py:390-395): do not make the callers of a nonexclusive method independent

        for elem in method_map.methods_and_transactions:
            groups = [frozenset(method_map.transactions_for(ind)) for ind in chain([elem], elem.independent_list)]
            for k1, k2 in product(range(len(groups)), repeat=2):
                if k1 == k2 == 0 and elem.nonexclusive:
                    continue  # callers of a nonexclusive method do not exclude each other
                for transaction1, transaction2 in product(groups[k1], groups[k2]):
                    independents[transaction1].add(transaction2)

(With this change all designs below elaborate and simulate as expected - both callers get the result of the
nonexclusive method in the same cycle -, the exclusive variants are still rejected, and test/core,
test/lib/test_simultaneous.py, test/lib/test_transformers.py still pass.)
"""

import sys
import warnings
from amaranth import *
from amaranth.hdl import Fragment
from transactron import *
from transactron.lib.simultaneous import condition
from transactron.core.context import TransactronContextElaboratable

warnings.simplefilter("ignore")

a = Signal()
b = Signal()


class D(Elaboratable):
    def __init__(self, kind, nonexclusive):
        self.kind = kind
        self.nonexclusive = nonexclusive

    def elaborate(self, platform):
        m = TModule()
        m._MustUse__silence = True  # type: ignore
        x = Method(name="x", o=[("v", 4)])

        @def_method(m, x, nonexclusive=self.nonexclusive)
        def _():
            return {"v": 5}

        if self.kind == "transaction+condition branch":
            with Transaction(name="t").body(m):
                x(m)
                with condition(m, nonblocking=True) as branch:
                    with branch(a):
                        x(m)

        if self.kind == "method+condition branch":
            p = Method(name="p")
            with p.body(m):
                x(m)
                with condition(m, nonblocking=True) as branch:
                    with branch(a):
                        x(m)
                    with branch(b):
                        pass
            with Transaction(name="t").body(m):
                p(m)

        if self.kind == "two simultaneous transactions":
            with (t1 := Transaction(name="t1")).body(m):
                x(m)
            with (t2 := Transaction(name="t2")).body(m):
                x(m)
            t1.simultaneous(t2)

        if self.kind == "via intermediate nonexclusive method":
            p = Method(name="p", o=[("v", 4)])

            @def_method(m, p, nonexclusive=True)
            def _():
                return x(m)

            with Transaction(name="t").body(m):
                p(m)
                with condition(m, nonblocking=True) as branch:
                    with branch(a):
                        p(m)
                        x(m)

        # near-miss that is accepted today: the same calls, but in two different branches / no simultaneity
        if self.kind == "two condition branches (reference)":
            with Transaction(name="t").body(m):
                with condition(m, nonblocking=True) as branch:
                    with branch(a):
                        x(m)
                    with branch(b):
                        x(m)

        if self.kind == "transaction+nested transaction (reference)":
            with Transaction(name="t").body(m):
                x(m)
                with Transaction(name="n").body(m, ready=a):
                    x(m)

        return m


def elab(kind, nonexclusive):
    try:
        Fragment.get(TransactronContextElaboratable(D(kind, nonexclusive)), platform=None)
        return None
    except Exception as e:
        return e


KINDS = [
    "two condition branches (reference)",
    "transaction+nested transaction (reference)",
    "transaction+condition branch",
    "method+condition branch",
    "two simultaneous transactions",
    "via intermediate nonexclusive method",
]

failures = []
for kind in KINDS:
    e = elab(kind, nonexclusive=True)
    print(f"nonexclusive x, {kind}: " + ("accepted" if e is None else f"REJECTED {type(e).__name__}: {str(e).strip()[:90]}"))
    if e is not None:
        failures.append(
            f"[nonexclusive x, {kind}] got: {type(e).__name__}: {str(e).strip()} / expected: elaborates "
            "(nonexclusive method called several times, no exclusive method in its call tree)"
        )

# ill-formed counterparts (exclusive x called by the body and by its simultaneous branch = double call)
for kind in ["transaction+condition branch", "method+condition branch", "two simultaneous transactions"]:
    e = elab(kind, nonexclusive=False)
    print(f"exclusive    x, {kind}: " + ("ACCEPTED" if e is None else f"rejected ({type(e).__name__})"))
    if e is None:
        failures.append(f"[exclusive x, {kind}] got: accepted / expected: an error (exclusive method called twice)")

if failures:
    print("\nFIRST MISMATCH:", failures[0])
    for f in failures[1:]:
        print("also:", f)
    sys.exit(1)
print("no mismatch")
