"""C10 defect 3 (library): the value returned by WideFifo.read (field `count`) depends combinationally on the
method's OWN `run` signal.  Moving data from one WideFifo to another in one transaction - two library components,
no user logic, every readiness from registers - therefore elaborates into a combinational cycle:

    with Transaction().body(m):
        r = a.read(m, count=2)                       # a, b = WideFifo(8, 4, 2)
        b.write(m, count=r.count, data=r.data)       # WideFifo.write has validate_arguments (count <= remaining)

    T.runnable <- validate_arguments(b.write)(count) <- a.read.data_out.count <- read_count (assigned in m.d.comb
    inside the body of read, i.e. under `read.run`) <- a.read.run <- T.run <- T.runnable
It oscillates for real whenever the elements do not fit into b: run=1 => count=k > remaining => runnable=0 =>
run=0 => count=0 <= remaining => runnable=1 => run=1 ...   (`peek` returns read_available directly and is fine.)

Same pattern, same kind of fix (the other library methods whose result depends on their own run):
  * AsyncMemoryBank.read      transactron/lib/storage.py:394   `m.d.comb += read_port[i].addr.eq(addr)`
  * MethodFilter.method       transactron/lib/transformers.py:243/252/255  `m.d.comb += ret.eq(self.target(m, arg))`
  * MethodTryProduct.method   transactron/lib/transformers.py:428  `success` of the nested transactions (by design)
A scan of every method of FIFO, Forwarder, Pipe, Connect, BasicFifo, WideFifo, Semaphore, Stack, MemoryBank (all
four modes), AsyncMemoryBank, ContentAddressableMemory and the three allocators finds no other method whose
ready/data_out reads its own run.

Root cause: transactron/lib/fifo.py:353-355
            m.d.comb += read_count.eq(Mux(count > read_available, read_available, count))   # guarded by read.run
            ...
            return {"count": read_count, "data": head}

Smallest fix (checked in a scratch copy: cycle gone, test/lib/test_fifo.py and test/lib/test_metrics.py pass):
            ret_count = Signal.like(read_count)
            m.d.av_comb += ret_count.eq(Mux(count > read_available, read_available, count))   # not guarded by run
            m.d.comb += read_count.eq(ret_count)
            m.d.comb += next_read_idx.eq(incr_row_col(read_idx, incr_read_row, read_count))
            return {"count": ret_count, "data": head}
and for AsyncMemoryBank.read: `m.d.av_comb += read_port[i].addr.eq(addr)`.
"""

import sys
import warnings

warnings.filterwarnings("ignore")

from amaranth import *  # noqa: E402
from amaranth.hdl import Fragment, CombinationalCycle  # noqa: E402
from amaranth.hdl._ir import build_netlist  # noqa: E402
from transactron import *  # noqa: E402
from transactron.core.context import TransactronContextElaboratable  # noqa: E402
from transactron.utils import DependencyContext, DependencyManager  # noqa: E402
from transactron.lib.fifo import WideFifo  # noqa: E402
from transactron.lib.storage import AsyncMemoryBank  # noqa: E402
from transactron.lib.allocators import CircularAllocator  # noqa: E402


class Top(Elaboratable):
    def __init__(self, fn):
        self.fn = fn

    def elaborate(self, platform):
        m = TModule()
        self.fn(m)
        return m


def elaborate(fn):
    try:
        with DependencyContext(DependencyManager()):
            top = TransactronContextElaboratable(Top(fn))
        build_netlist(Fragment.get(top, None), ports=[])
    except CombinationalCycle as e:
        return str(e)
    return None


def widefifo_transfer(depth, read_width, write_width, use_peek=False, write_max_count=False):
    def fn(m: TModule):
        m.submodules.a = a = WideFifo(8, depth, read_width)
        m.submodules.b = b = WideFifo(8, depth, read_width, write_width, write_max_count=write_max_count)
        with Transaction(name="move").body(m):
            r = a.peek(m) if use_peek else a.read(m, count=read_width)
            data = [r.data[i] if i < read_width else 0 for i in range(write_width)]
            if write_max_count:
                b.write(m, count=r.count, max_count=r.count, data=data)
            else:
                b.write(m, count=r.count, data=data)

    return fn


def widefifo_to_allocator(m: TModule):
    m.submodules.a = a = WideFifo(8, 4, 2)
    m.submodules.alloc = alloc = CircularAllocator(4, max_alloc=2)
    with Transaction(name="alloc_as_many").body(m):
        alloc.alloc(m, count=a.read(m, count=2).count)


def asyncmem_to_widefifo(m: TModule):
    m.submodules.mem = mem = AsyncMemoryBank(shape=2, depth=4)
    m.submodules.b = b = WideFifo(8, 4, 2)
    with Transaction(name="push_n").body(m):
        n = mem.read[0](m, addr=1).data
        b.write(m, count=n, data=[1, 2])


configs = [
    ("control: WideFifo(8,4,2).peek -> WideFifo(8,4,2).write", widefifo_transfer(4, 2, 2, use_peek=True)),
    ("WideFifo(8,4,2).read -> WideFifo(8,4,2).write", widefifo_transfer(4, 2, 2)),
    ("WideFifo(8,3,1).read -> WideFifo(8,3,1).write", widefifo_transfer(3, 1, 1)),
    ("WideFifo(8,6,2).read -> WideFifo(8,6,2,3).write", widefifo_transfer(6, 2, 3)),
    ("WideFifo(8,4,2).read -> WideFifo(8,4,2,write_max_count=True).write", widefifo_transfer(4, 2, 2, write_max_count=True)),
    ("WideFifo(8,4,2).read -> CircularAllocator(4, max_alloc=2).alloc", widefifo_to_allocator),
    ("AsyncMemoryBank(shape=2, depth=4).read -> WideFifo(8,4,2).write", asyncmem_to_widefifo),
]

failed = False
for name, fn in configs:
    res = elaborate(fn)
    if res is None:
        print(f"[ok]   {name}: no combinational cycle")
    else:
        print(f"[FAIL] {name}: expected a cycle free netlist, got CombinationalCycle")
        if not failed:
            print(res)
        failed = True

sys.exit(1 if failed else 0)
