"""F2 (C31): TaggedCounter in one-hot mode indexes the sorted tag list with a *bit position*.

Documented tag sets whose values are powers of two with gaps (list [1, 4], Enum A=1, B=4) make
`elaborate` raise IndexError (bit position 2 -> sorted_tags[2]) or count the wrong tag.
Run: /venv/bin/python F2_tagged_counter_sparse_onehot.py   (exit 0 = counts are right)
"""
import sys
from enum import IntFlag
from amaranth import *
from amaranth.sim import Simulator
from transactron import TModule, Transaction
from transactron.core.context import TransactronContextElaboratable
from transactron.lib.metrics import TaggedCounter
from transactron.utils.dependencies import DependencyContext, DependencyManager
from transactron.lib.metrics import HwMetricsEnabledKey


class T(IntFlag):
    A = 1
    B = 4


def run(tags, seq):
    dm = DependencyManager()
    dm.add_dependency(HwMetricsEnabledKey(), True)
    with DependencyContext(dm):
        m = TModule()
        counter = TaggedCounter("c", "demo", tags=tags)
        m.submodules.counter = counter
        tag = Signal(counter.tag_shape if not isinstance(counter.tag_shape, range) else range(counter.tag_shape.stop))
        en = Signal()
        with Transaction().body(m, ready=en):
            counter.incr(m, tag)
        top = TransactronContextElaboratable(m, dependency_manager=dm)
        sim = Simulator(top)
        sim.add_clock(1e-6)
        res = {}

        async def tb(ctx):
            for v in seq:
                ctx.set(tag, v)
                ctx.set(en, 1)
                await ctx.tick()
            ctx.set(en, 0)
            await ctx.tick()
            for tv, reg in counter.counters.items():
                res[int(tv)] = ctx.get(reg.value)

        sim.add_testbench(tb)
        sim.run()
        return res


bad = 0
for tags, seq in (([1, 2, 4], [1, 4, 4, 2]), ([1, 4], [1, 4, 4]), (T, [T.A, T.B, T.B]), ([2, 4], [2, 4, 4])):
    want = {}
    for v in seq:
        want[int(v)] = want.get(int(v), 0) + 1
    try:
        got = run(tags, seq)
        got = {k: v for k, v in got.items() if v}
    except Exception as e:  # noqa: BLE001
        got = f"{type(e).__name__}: {e}"
    ok = got == want
    print(f"tags={tags!s:32} calls={[int(v) for v in seq]} counted={got} expected={want} {'ok' if ok else 'WRONG'}")
    bad += not ok
sys.exit(1 if bad else 0)
