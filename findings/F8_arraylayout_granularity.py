# C21 defect 3: MemoryBank with shape=ArrayLayout(elem, n), a granularity, and any memory_type from
# transactron.utils.amaranth_ext.memory that accepts a granularity (MultiReadMemory, MultiportOneHotILVTMemory,
# MultiportXORILVTMemory): the mask bits enable single BITS (resp. `granularity`-bit groups) at the bottom of
# the row instead of array elements; most of the data is never written.  A single full-mask write followed by a
# read already fails.  With amaranth.lib.memory.Memory the same configuration is correct.
#
# Root cause: transactron/utils/amaranth_ext/memory.py:95 (`self.shape = Shape.cast(shape)`) throws the
# ArrayLayout away, and WritePort.__init__ (memory.py:52-62) computes the enable width as
# `shape.width // granularity`, i.e. it counts bits, whereas MemoryBank (transactron/lib/storage.py:89-96) and
# amaranth.lib.memory count array ELEMENTS for an ArrayLayout.  For ArrayLayout(4, 2) and granularity=1 the bank's
# `mask` is 2 bits wide, the memory's `en` is 8 bits wide with 1-bit parts, and storage.py:206
# `write_port[i].en.eq(arg.mask)` zero-extends the mask.
#
# Smallest fix: keep the uncast shape (`self.orig_shape = shape`) in BaseMultiportMemory, build the inner
# amaranth memories with it (MultiReadMemory.elaborate: `memory.Memory(shape=self.orig_shape, ...)`, the ILVT banks
# likewise) and size WritePort.en with Amaranth's rule:
#     self.en = Signal(memory.WritePort.Signature(addr_width=0, shape=memory.orig_shape,
#                                                 granularity=granularity).members["en"].shape)
#
# Run:  cd /tmp/wt/audit_C21 && PYTHONPATH=/tmp/wt/audit_C21 /venv/bin/python defect3.py
import sys
from amaranth import *
from amaranth.sim import Simulator
import amaranth.lib.memory as memory

from transactron.core.context import TransactronContextElaboratable
from transactron.utils.dependencies import DependencyContext, DependencyManager
from transactron.testing import SimpleTestCircuit, CallTrigger
from transactron.lib.storage import MemoryBank
from transactron.utils.amaranth_ext.memory import MultiportOneHotILVTMemory, MultiportXORILVTMemory


def run(cfg, part_bits, script, to_data=lambda x: x):
    """Drives MemoryBank(**cfg) cycle by cycle with `script` = [(writes, reqs, resps), ...] where
    writes = {port: (addr, data, mask)}, reqs = {port: addr}, resps = {ports}; compares every response with an
    ideal memory.  Returns a description of the first mismatch or None."""
    width = Shape.cast(cfg["shape"]).width
    transparent = cfg.get("transparent", False)
    read_on_resp = cfg.get("read_on_resp", False)
    out = []
    with DependencyContext(DependencyManager()):
        tc = SimpleTestCircuit(MemoryBank(**cfg))
        sim = Simulator(TransactronContextElaboratable(tc))
        sim.add_clock(1e-6)

        async def tb(ctx):
            mem = [0] * cfg["depth"]
            pending = [[] for _ in range(cfg.get("read_ports", 1))]
            for cyc, (writes, reqs, resps) in enumerate(script):
                trig, order = CallTrigger(ctx), []
                for j, (a, d, mk) in writes.items():
                    trig = trig.call(tc.write[j], {"addr": a, "data": to_data(d), "mask": mk})
                    order.append(("w", j))
                for i, a in reqs.items():
                    trig = trig.call(tc.read_req[i], {"addr": a})
                    order.append(("q", i))
                for i in resps:
                    trig = trig.call(tc.read_resp[i], {})
                    order.append(("r", i))
                res = await trig
                after = list(mem)
                for a, d, mk in writes.values():
                    for b in range(width // part_bits):
                        if (mk >> b) & 1:
                            fm = ((1 << part_bits) - 1) << (b * part_bits)
                            after[a] = (after[a] & ~fm) | (d & fm)
                visible = after if transparent else mem
                npend = [len(p) for p in pending]
                for (kind, idx), r in zip(order, res):
                    if kind == "w":
                        assert r is not None
                    elif kind == "r":
                        if (r is not None) != (npend[idx] > 0):
                            out.append(f"cycle {cyc}: read_resp[{idx}] ready={r is not None}, pending={npend[idx]}")
                            return
                        if r is not None:
                            a, v = pending[idx].pop(0)
                            if read_on_resp:
                                v = visible[a]
                            got = r.data if isinstance(r.data, int) else r.data.as_bits()
                            if got != v:
                                out.append(f"cycle {cyc}: read_resp[{idx}] for addr {a}: got {got:#x}, expected {v:#x}")
                                return
                    else:
                        if (r is not None) != (npend[idx] < 2):
                            out.append(f"cycle {cyc}: read_req[{idx}] ready={r is not None}, pending={npend[idx]}")
                            return
                        if r is not None:
                            pending[idx].append((reqs[idx], visible[reqs[idx]]))
                mem[:] = after

        sim.add_testbench(tb)
        sim.run()
    return out[0] if out else None


from amaranth.lib.data import ArrayLayout
from transactron.utils.amaranth_ext.memory import MultiReadMemory

script = [
    ({0: (0, 0xAB, 0b11)}, {}, set()),  # write both elements of row 0: [0xB, 0xA]
    ({}, {}, set()),
    ({}, {}, set()),
    ({}, {0: 0}, set()),  # read_req(0)
    ({}, {}, {0}),  # read_resp must be 0xAB
]

bad = 0
for mt in [MultiReadMemory, MultiportOneHotILVTMemory, MultiportXORILVTMemory, memory.Memory]:
    cfg = dict(shape=ArrayLayout(4, 2), depth=2, granularity=1, read_ports=1, write_ports=1, memory_type=mt)
    r = run(cfg, 4, script, to_data=lambda x: [x & 0xF, x >> 4])
    print(f"{mt.__name__}: shape=ArrayLayout(4,2) depth=2 granularity=1 write_ports=1 ->", r or "ok")
    if r:
        bad = 1
sys.exit(bad)
