"""F5 (C21): MemoryBank(read_on_resp=True, transparent=True, granularity=g) forwards whole words.

The forwarding select of the read_on_resp network is `write_port[j].en & (write_port[j].addr == tracked addr)`:
with a granule mask `en` is several bits wide, the 1-bit comparison keeps only bit 0 of it, and the mux forwards the
whole written word.  Row 1 holds 0xAB; in the cycle of the response
  - a low-nibble write 0x?C (mask 0b01) makes the response 0x0C  (ideal transparent memory: 0xAC),
  - a high-nibble write 0xD? (mask 0b10) is not forwarded at all: 0xAB (ideal: 0xDB).
Run: /venv/bin/python F5_memorybank_granular_forwarding.py   (exit 0 = responses equal the ideal memory)
"""
import sys
from amaranth import *
from amaranth.sim import Simulator
from transactron import TModule, Transaction
from transactron.core.context import TransactronContextElaboratable
from transactron.lib.storage import MemoryBank


class Harness(Elaboratable):
    def __init__(self):
        self.bank = MemoryBank(shape=8, depth=4, granularity=4, transparent=True, read_on_resp=True)
        self.do_req, self.do_resp, self.do_write = Signal(), Signal(), Signal()
        self.req_addr, self.w_addr = Signal(2), Signal(2)
        self.w_data, self.w_mask = Signal(8), Signal(2)
        self.resp_data, self.resp_ran = Signal(8), Signal()

    def elaborate(self, platform):
        m = TModule()
        m.submodules.bank = self.bank
        with Transaction().body(m, ready=self.do_req):
            self.bank.read_req[0](m, addr=self.req_addr)
        with Transaction().body(m, ready=self.do_resp):
            r = self.bank.read_resp[0](m)
            m.d.av_comb += self.resp_data.eq(r.data)
            m.d.comb += self.resp_ran.eq(1)
        with Transaction().body(m, ready=self.do_write):
            self.bank.write[0](m, addr=self.w_addr, data=self.w_data, mask=self.w_mask)
        return m


def scenario(nibble_data, nibble_mask):
    h = Harness()
    sim = Simulator(TransactronContextElaboratable(h))
    sim.add_clock(1e-6)
    out = {}

    async def tb(ctx):
        # cycle 0: write 0xAB to row 1 (both granules)
        ctx.set(h.do_write, 1); ctx.set(h.w_addr, 1); ctx.set(h.w_data, 0xAB); ctx.set(h.w_mask, 0b11)
        await ctx.tick()
        # cycle 1: request row 1
        ctx.set(h.do_write, 0); ctx.set(h.do_req, 1); ctx.set(h.req_addr, 1)
        await ctx.tick()
        ctx.set(h.do_req, 0)
        await ctx.tick()
        # cycle 3: take the response while writing one granule of row 1
        ctx.set(h.do_resp, 1); ctx.set(h.do_write, 1); ctx.set(h.w_data, nibble_data); ctx.set(h.w_mask, nibble_mask)
        await ctx.delay(1e-7)
        assert ctx.get(h.resp_ran) == 1
        out["v"] = ctx.get(h.resp_data)
        await ctx.tick()

    sim.add_testbench(tb)
    sim.run()
    return out["v"]


bad = 0
for data, mask, ideal in ((0x0C, 0b01, 0xAC), (0xD0, 0b10, 0xDB)):
    got = scenario(data, mask)
    print(f"row holds 0xAB; response in the cycle of a write data={data:#04x} mask={mask:#04b}: got {got:#04x}, ideal transparent memory {ideal:#04x}")
    bad += got != ideal
sys.exit(1 if bad else 0)
