"""F4 (C23): MultiportILVTMemory accepts `granularity` on its write ports but tracks the live bank per *row*.

The ILVT write enable is `write_ports[k].en.any()` and the read multiplexer / bypass select whole words, so after
port 0 wrote 0xAB to row 3 and port 1 later wrote only the low nibble 0xC of row 3, a read returns bank 1's word
(0x0C) while an Amaranth Memory with the same ports holds 0xAC.
Run: /venv/bin/python F4_ilvt_granularity.py   (exit 0 = all memories agree with the ideal memory)
"""
import sys
from amaranth import *
from amaranth.lib import memory
from amaranth.sim import Simulator
from transactron.utils.amaranth_ext.memory import MultiportXORILVTMemory, MultiportOneHotILVTMemory


def run(mem_cls):
    mem = mem_cls(shape=8, depth=8, init=[])
    wp0 = mem.write_port(granularity=4)
    wp1 = mem.write_port(granularity=4)
    rp = mem.read_port()
    m = Module()
    m.submodules.mem = mem
    sim = Simulator(m)
    sim.add_clock(1e-6)
    out = {}

    async def tb(ctx):
        ctx.set(rp.en, 1)
        ctx.set(rp.addr, 3)
        ctx.set(wp0.addr, 3); ctx.set(wp0.data, 0xAB); ctx.set(wp0.en, 0b11)
        await ctx.tick()
        ctx.set(wp0.en, 0)
        await ctx.tick()
        await ctx.tick()
        ctx.set(wp1.addr, 3); ctx.set(wp1.data, 0x0C); ctx.set(wp1.en, 0b01)
        await ctx.tick()
        ctx.set(wp1.en, 0)
        for _ in range(4):
            await ctx.tick()
        out["v"] = ctx.get(rp.data)

    sim.add_testbench(tb)
    sim.run()
    return out["v"]


bad = 0
for cls in (memory.Memory, MultiportXORILVTMemory, MultiportOneHotILVTMemory):
    v = run(cls)
    print(f"{cls.__name__:28}: row 3 after 0xAB (port 0, both granules) then 0x?C (port 1, low granule) reads {v:#04x} (ideal 0xac)")
    bad += v != 0xAC
sys.exit(1 if bad else 0)
