"""F1 (C23): MultiportILVTMemory delays the read *address* in a register declared with the *data* shape.

depth 32 (5 address bits), data width 4: a transparent read of row 17 in the cycle row 17 is written
returns the old contents (0) instead of the written value, because the bypass compares a truncated
address (17 & 15 = 1) with the write address.  An Amaranth Memory with the same ports returns 5.
Run: /venv/bin/python F1_ilvt_read_addr_bypass.py   (exit 0 = memories agree with the ideal memory)
"""
import sys
from amaranth import *
from amaranth.lib import memory
from amaranth.sim import Simulator
from transactron.utils.amaranth_ext.memory import MultiportXORILVTMemory, MultiportOneHotILVTMemory


def run(mem_cls, width):
    mem = mem_cls(shape=width, depth=32, init=[])
    wp = mem.write_port()
    rp = mem.read_port(transparent_for=[wp])
    m = Module()
    m.submodules.mem = mem
    sim = Simulator(m)
    sim.add_clock(1e-6)
    out = {}

    async def tb(ctx):
        ctx.set(rp.en, 1)
        ctx.set(rp.addr, 17)
        ctx.set(wp.addr, 17)
        ctx.set(wp.data, 5)
        ctx.set(wp.en, 1)
        await ctx.tick()
        ctx.set(wp.en, 0)
        out["v"] = ctx.get(rp.data)

    sim.add_testbench(tb)
    sim.run()
    return out["v"]


bad = 0
for cls in (memory.Memory, MultiportXORILVTMemory, MultiportOneHotILVTMemory):
    for width in (4, 8):
        v = run(cls, width)
        print(f"{cls.__name__:28} width={width}: transparent read of the row being written -> {v} (ideal 5)")
        bad += v != 5
sys.exit(1 if bad else 0)
