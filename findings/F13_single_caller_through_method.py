#!/usr/bin/env python
"""C18 defect 2: MethodFilter(use_condition=True) reached from two transactions through ONE call
site is accepted and elaborates into a combinational loop (the simulation never converges).

MethodFilter's docstring: with `use_condition=True` "the provided method will be `single_caller`".
Method.body's docstring: "single_caller: ... this method is intended to be called from a single
transaction.  An error will be thrown if called from multiple transactions."

The check that is implemented (transactron/core/manager.py:543)

        if method.single_caller and len(method_args[method]) > 1:

counts the CALL SITES of the method, not the transactions that reach it.  So if the filter
method is called at exactly one place - inside another method `wrap` - and `wrap` is called by two
transactions, nothing is rejected.  The argument of the filter is then the run-dependent
OneHotMux of the two callers' arguments (manager.py:546), the filter condition is computed from
it (transformers.py:249), the condition is the `ready` of the branch transactions
(simultaneous.py:69-72), and these decide which caller runs: a combinational cycle
run -> data_in -> cond -> ready -> run.  For the history below (target not ready, caller A's
argument has condition true, caller B's argument has condition false, and the mirrored one) the
cycle has no stable state when the blocked caller has the scheduling priority: the documented
outcome is "B is served with the default, A waits", the design oscillates instead.

Smallest fix: make the guard do what its docstring says, i.e. check the number of transactions
that reach a single_caller method, before simultaneous transactions are merged.  In
TransactionManager._simultaneous (manager.py:364, right after `method_map = MethodMap(...)`):

        for method in method_map.methods:
            if method.single_caller and len(method_map.transactions_by_method[method]) > 1:
                raise RuntimeError(f"Single-caller method '{method.name}' {method.src_loc} called more than once")

(then this configuration is rejected at elaboration, as documented, and this script exits 0).

Run:  cd /tmp/wt/audit_C18 && PYTHONPATH=/tmp/wt/audit_C18 /venv/bin/python defect2.py
Exits non-zero on the unchanged code.
"""
import os
import signal
import sys

from amaranth import *
from amaranth.sim import Simulator

from transactron import *
from transactron.core.context import TransactronContextElaboratable
from transactron.lib.adapters import Adapter, AdapterTrans
from transactron.lib.transformers import MethodFilter
from transactron.utils.dependencies import DependencyContext, DependencyManager

W = 3
LAYOUT = [("data", W)]
DEFAULT = {"data": 5}
TIMEOUT = 20  # seconds; a single settle of this tiny design takes milliseconds

# (target_ready, reqA, argA, reqB, argB); the condition is arg[0]
HISTORY = [
    (1, 1, 1, 0, 0),  # only A, condition true, target ready     -> A calls target
    (0, 1, 2, 0, 0),  # only A, condition false, target not ready -> A gets default
    (0, 0, 0, 1, 1),  # only B, condition true, target not ready  -> B waits
    (0, 1, 1, 1, 0),  # A blocked (cond true, target not ready), B must be served with the default
    (0, 1, 0, 1, 1),  # mirrored
    (1, 1, 1, 1, 0),  # target ready: exactly one of them is served
]

state = {"cycle": None}


def on_timeout(signum, frame):
    print(
        "MISMATCH: MethodFilter(use_condition=True) called at one place (method `wrap`), `wrap` called by "
        f"2 transactions: accepted at elaboration, but in cycle {state['cycle']} with "
        f"(target_ready, reqA, argA, reqB, argB) = {HISTORY[state['cycle']]} the simulator did not settle within "
        f"{TIMEOUT}s (combinational loop run -> data_in -> cond -> ready -> run).\n"
        "   got      no stable value of run/done\n"
        "   expected either a RuntimeError('Single-caller method ... called more than once') at elaboration "
        "(docstring of single_caller), or exactly one served caller per the MethodFilter function"
    )
    sys.stdout.flush()
    os._exit(1)


dm = DependencyManager()
with DependencyContext(dm):
    target = Adapter(i=LAYOUT, o=LAYOUT)
    filt = MethodFilter.create(target.iface, lambda m, v: v.data[0], DEFAULT, use_condition=True)
    wrap = Method(i=LAYOUT, o=LAYOUT)
    callers = [AdapterTrans.create(wrap), AdapterTrans.create(wrap)]

    class Top(Elaboratable):
        def elaborate(self, platform):
            m = TModule()
            tick = Signal()
            m.d.sync += tick.eq(~tick)
            m.submodules.target = target
            m.submodules.filt = filt
            m.submodules.a = callers[0]
            m.submodules.b = callers[1]

            @def_method(m, wrap)
            def _(arg):
                return filt.method(m, arg)  # the one and only call site of the single_caller method

            return m

    try:
        sim = Simulator(TransactronContextElaboratable(Top(), dependency_manager=dm))
    except RuntimeError as e:
        print("ok: configuration rejected at elaboration:", e)
        sys.exit(0)

    print("configuration accepted at elaboration (no single_caller error); simulating")
    sim.add_clock(1e-6)
    mismatch = []

    async def tb(ctx):
        for cycle, (trdy, ra, aa, rb, ab) in enumerate(HISTORY):
            state["cycle"] = cycle
            ctx.set(target.en, trdy)
            ctx.set(target.data_in.data, 6)
            ctx.set(callers[0].en, ra)
            ctx.set(callers[0].data_in.data, aa)
            ctx.set(callers[1].en, rb)
            ctx.set(callers[1].data_in.data, ab)
            await ctx.delay(1e-7)
            done = [ctx.get(c.done) for c in callers]
            tdone = ctx.get(target.done)
            outs = [ctx.get(c.data_out.data) for c in callers]
            req, arg = (ra, rb), (aa, ab)
            can = [bool(req[k] and (trdy or not (arg[k] & 1))) for k in range(2)]
            ok = sum(done) == (1 if any(can) else 0)
            if ok and sum(done):
                k = done.index(1)
                holds = bool(arg[k] & 1)
                ok = can[k] and bool(tdone) == holds and outs[k] == (6 if holds else DEFAULT["data"])
            elif ok:
                ok = not tdone
            if not ok:
                mismatch.append(
                    f"MISMATCH: cycle {cycle} (target_ready, reqA, argA, reqB, argB)={HISTORY[cycle]}\n"
                    f"   got      done={done} target_called={tdone} results={outs}\n"
                    f"   expected served callers among {[k for k in range(2) if can[k]]} (exactly one if any)"
                )
                return
            await ctx.tick()

    sim.add_testbench(tb)
    signal.signal(signal.SIGALRM, on_timeout)
    signal.alarm(TIMEOUT)
    sim.run()
    signal.alarm(0)

if mismatch:
    print(mismatch[0])
    sys.exit(1)
print("ok: all cycles settled and matched the reference model")
sys.exit(0)
