#!/usr/bin/env python
"""
C36 defect 1: mod_add() does not compute (sig + incr) % mod when max_incr > mod
and mod is not a power of two.

transactron/utils/amaranth_ext/functions.py:58-68

    def mod_add(sig, mod, incr, max_incr):
        '''Perform `(sig+incr) % mod` operation, for `0 < incr <= max_incr`.'''
        assert mod > 0
        assert max_incr >= 0
        ...
        if not (mod & (mod - 1)):
            return (sig + incr) & (mod - 1)                       # correct for every incr
        return SwitchValue(sig + incr, [(mod + i, i) for i in range(0, max_incr)] + [(None, sig + incr)])

The non-power-of-two branch maps the sum `mod + i` to `i`, which is only the
residue while i < mod.  For max_incr > mod (accepted: the only asserts are mod > 0
and max_incr >= 0; the docstring only requires 0 < incr <= max_incr) the sums
2*mod, 2*mod+1, ... are mapped to mod, mod+1, ... instead of 0, 1, ...
E.g. mod_add(sig=2, mod=3, incr=4, max_incr=4) == 3, but (2+4) % 3 == 0.
The power-of-two branch of the very same function is correct for those inputs,
so the two branches disagree about the function's domain.

Smallest proposed fix (functions.py:68): return the residue, not the offset:

    return SwitchValue(sig + incr, [(mod + i, i % mod) for i in range(0, max_incr)] + [(None, sig + incr)])

(or, if max_incr > mod is meant to be illegal, `assert max_incr <= mod` - but then
the power-of-two branch would have to be restricted as well, and so would
CircularAllocator(entries=3, max_alloc=5), transactron/lib/allocators.py:309, which
calls mod_add(end_idx, 3, 4, 4) for its idents[4] output - harmless there only
because validate_arguments keeps count <= entries, so that entry is never valid).
"""
import sys
from amaranth import *
from amaranth.sim import Simulator
from transactron.utils.amaranth_ext.functions import mod_add

mismatches = []


def check(mod: int, max_incr: int):
    sig = Signal(range(mod))
    incr = Signal(range(max_incr + 1))
    expr = mod_add(sig, mod, incr, max_incr)
    out = Signal(expr.shape())
    m = Module()
    m.d.comb += out.eq(expr)

    async def tb(ctx):
        for s in range(mod):
            for i in range(1, max_incr + 1):  # documented domain: 0 < incr <= max_incr, sig in range(mod)
                ctx.set(sig, s)
                ctx.set(incr, i)
                got = ctx.get(out)
                exp = (s + i) % mod
                if got != exp:
                    mismatches.append((mod, max_incr, s, i, got, exp))

    sim = Simulator(m)
    sim.add_testbench(tb)
    sim.run()


for mod in range(1, 14):
    for max_incr in range(0, 2 * mod + 2):
        check(mod, max_incr)

if mismatches:
    mod, max_incr, s, i, got, exp = mismatches[0]
    print(f"{len(mismatches)} mismatches; first one:")
    print(f"  configuration: mod_add(sig, mod={mod}, incr, max_incr={max_incr})  (combinational, cycle 0)")
    print(f"  input: sig={s}, incr={i}")
    print(f"  got {got}, expected (sig+incr) % mod = {exp}")
    print("  moduli with mismatches:", sorted({x[0] for x in mismatches}))
    print("  all mismatches have max_incr > mod:", all(x[1] > x[0] for x in mismatches))
    sys.exit(1)
print("no mismatch")
