#!/usr/bin/env python
"""
C12 defect 1: a branch of a condition() nested three levels deep (or a branch of a condition() in a method
that is called from a second-level branch) runs -- and calls its methods -- although the enclosing bodies do
not run, when the outermost method is called conditionally (``with m.If(sig): M(m)`` or ``M(m, enable_call=sig)``)
and the call is disabled.

Violated clause: "a branch runs only if the enclosing body runs".

Root cause: transactron/core/manager.py:339-359 (TransactionManager._conditionally_called).  The "infection"
of the simultaneous alternatives of a conditionally called method adds the direct branches (`dep`) of the method
to `ret`, and the methods they call to the work list, but never puts the branch itself on the work list, so the
branches nested in it (dep.simultaneous_list) are not visited: second-level branches are still gated (their
parent is in `ret`), third-level branches and the branches of methods called from second-level branches are not
in `ret`, therefore step 5 of _simultaneous (manager.py:460-461) calls them with enable_call = Cat().all() = 1.

Smallest fix (manager.py, loop at 342-359; validated with the random harness: no violation left):

         while conditional_to_infect:
             method = conditional_to_infect.pop()
             ready_dependent = {relation.end for relation in method.relations if relation.ready_dependent}
             for dep in method.simultaneous_list:
    +            if any(r.ready_dependent and r.end is method for r in dep.relations):
    +                continue  # dep is the body enclosing `method` (a branch looking at its parent)
                 if dep in ready_dependent and dep in method_map.transactions:
                     for called_method in method_map.methods_by_transaction[TBody(dep)]:
                         if called_method not in ret:
                             ret.add(called_method)
                             conditional_to_infect.append(called_method)
    -                ret.add(dep)
    +                if dep not in ret:
    +                    ret.add(dep)
    +                    conditional_to_infect.append(dep)   # visit the branches nested in this branch too
                 else:
                     raise RuntimeError(...)
"""
import random
import sys
import warnings

from amaranth import *
from amaranth.sim import Simulator

from transactron import *
from transactron.core.body import Body
from transactron.core.context import TransactronContextElaboratable
from transactron.lib.simultaneous import condition

warnings.filterwarnings("ignore")


class Nested(Elaboratable):
    """T calls M conditionally; M contains `depth`+1 nested blocking conditions; the innermost branch calls Y.
    With via_method, the innermost level lives in a separate method X called from the branch above it."""

    def __init__(self, depth: int, style: str, via_method: bool):
        self.depth, self.style, self.via_method = depth, style, via_method
        self.sig = Signal()
        self.conds = [Signal(name=f"c{i}") for i in range(depth + 1)]
        self.bodies: list[tuple[str, Body, Body]] = []  # (name, branch body, enclosing body)

    def elaborate(self, platform):
        m = TModule()
        self.M, self.X, self.Y = M, X, Y = Method(name="M"), Method(name="X"), Method(name="Y")

        with Y.body(m):
            pass

        def nest(level: int):
            encl = Body.get()
            with condition(m) as branch:
                with branch(self.conds[level]):
                    self.bodies.append((f"level{level}", Body.get(), encl))
                    if level == self.depth:
                        Y(m)
                    elif self.via_method and level == self.depth - 1:
                        X(m)
                    else:
                        nest(level + 1)

        if self.via_method:
            with X.body(m):
                nest(self.depth)
        with M.body(m):
            nest(0)
        with Transaction(name="T").body(m):
            if self.style == "if":
                with m.If(self.sig):
                    M(m)
            else:
                M(m, enable_call=self.sig)
        self.bodies.sort(key=lambda t: t[0])
        return m


def run_config(depth, style, via_method, cycles=100):
    d = Nested(depth, style, via_method)
    cfg = f"depth={depth} (nested conditions: {depth + 1}) call_style={style} innermost_in_called_method={via_method}"
    sim = Simulator(TransactronContextElaboratable(d))
    rnd = random.Random(depth * 10 + len(style))
    fail = []

    async def tb(ctx):
        for cyc in range(cycles):
            ctx.set(d.sig, rnd.randrange(2))
            for c in d.conds:
                ctx.set(c, int(rnd.random() < 0.8))
            await ctx.delay(1e-6)
            inputs = f"sig={ctx.get(d.sig)} conds={[ctx.get(c) for c in d.conds]}"
            m_run = ctx.get(d.M.run)
            if m_run != (ctx.get(d.sig) and all(ctx.get(c) for c in d.conds)):
                fail.append(f"{cfg}: cycle {cyc}: {inputs}: M.run got {m_run}")
            for (name, b, encl), c in zip(d.bodies, d.conds):
                if ctx.get(b.run) and not ctx.get(encl.run):
                    fail.append(
                        f"{cfg}: cycle {cyc}: {inputs}: branch {name} run got 1, expected 0 "
                        f"(enclosing body {encl.name!r} run=0, M.run={m_run})"
                    )
            if ctx.get(d.Y.run) != m_run:
                fail.append(f"{cfg}: cycle {cyc}: {inputs}: Y.run got {ctx.get(d.Y.run)}, expected {m_run} (= M.run)")
            if fail:
                return

    sim.add_testbench(tb)
    sim.run()
    return cfg, fail


if __name__ == "__main__":
    bad = 0
    for via_method in [False, True]:
        for style in ["if", "enable_call"]:
            for depth in range(1 if via_method else 0, 4):
                cfg, fail = run_config(depth, style, via_method)
                if fail:
                    bad += 1
                    print("MISMATCH", fail[0])
                else:
                    print("ok      ", cfg)
    sys.exit(1 if bad else 0)
