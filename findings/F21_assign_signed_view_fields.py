"""
C40 defect 3: SIGNED fields of views escape the shape check.  A mismatch that raises ValueError for an
unsigned field is silently accepted for a signed one; the assignment truncates, so lhs != rhs afterwards.

Component: transactron.utils.assign.assign
Configurations (all accepted; each has an unsigned twin that raises "Shapes not matching"):
  (a) single-field unwrapping (assign.py:196-202; this is what `def_method` relies on when the body
      returns a bare value for a one-field output layout, core/sugar.py:84):
        assign(Signal(signed(2)), Signal(StructLayout({"a": signed(3)})))
        assign(Signal(StructLayout({"a": signed(2)})), Signal(signed(3)))
      also with ArrayLayout(signed(n), 1) and when nested below a dict.
  (b) a signed view field used as a dict / list item:
        assign({"a": view2.a}, {"a": view3.a})    # view2: {"a": signed(2)}, view3: {"a": signed(3)}
Expected (property C40): ValueError (shape mismatch) - or lhs == rhs afterwards.
Got: no exception, e.g. rhs = -3 gives lhs = 1.

Root cause: transactron/utils/assign.py:204-205.  `View.__getitem__` returns `Slice(...).as_signed()` for a
signed field, i.e. an Operator, which has_explicit_shape() does not recognise (it only knows Signal,
ArrayProxy, Slice, ValueCastable) although the docstring (assign.py:81-82) names "a field of a View" as
explicitly shaped.  Inside a View-to-View recursion this is hidden by lhs_strict/rhs_strict, but the
flags are not set when the field is reached by the unwrapping loops at assign.py:197-202 (the loops replace
`lhs`/`rhs` by the field and leave lhs_strict/rhs_strict at their old value) or handed over inside a dict.

Smallest proposed fix (assign.py:204-205):

        def has_explicit_shape(val: ValueLike):
            if isinstance(val, Operator) and val.operator in ("s", "u") :   # .as_signed() / .as_unsigned()
                return has_explicit_shape(val.operands[0])
            return isinstance(val, (Signal, ArrayProxy, Slice, ValueCastable))

(with `from amaranth.hdl._ast import Operator`); alternatively set lhs_strict / rhs_strict = True inside the
two unwrapping loops, which repairs (a) only.

Run `python defect3.py` -> exits 1 on the unchanged library.
Run `python defect3.py --with-fix` -> applies the fix in memory (library files untouched), exits 0.
"""

import sys
import inspect
import itertools
import warnings
from amaranth import *
from amaranth.lib import data
from amaranth.sim import Simulator
import transactron.utils  # noqa: F401

A = sys.modules["transactron.utils.assign"]
AssignType = A.AssignType

warnings.simplefilter("ignore")

if "--with-fix" in sys.argv:
    src = inspect.getsource(A.assign)
    old = "            return isinstance(val, (Signal, ArrayProxy, Slice, ValueCastable))\n"
    new = (
        '            if isinstance(val, Operator) and val.operator in ("s", "u"):\n'
        "                return has_explicit_shape(val.operands[0])\n" + old
    )
    assert src.count(old) == 1
    exec("from amaranth.hdl._ast import Operator\n" + src.replace(old, new), A.__dict__)

assign = A.assign

shapes = [unsigned(1), unsigned(2), unsigned(3), signed(1), signed(2), signed(3)]


def values(shape):
    if shape.signed:
        return range(-(1 << (shape.width - 1)), 1 << (shape.width - 1))
    return range(1 << shape.width)


def wrap(kind, shape):
    """returns (assign argument, Value to drive / observe)"""
    if kind == "scalar":
        s = Signal(shape)
        return s, s
    if kind == "struct1":  # single-field struct view
        s = Signal(data.StructLayout({"a": shape}))
        return s, s.a
    if kind == "array1":  # length-1 array view
        s = Signal(data.ArrayLayout(shape, 1))
        return s, s[0]
    if kind == "dict(struct1)":  # single-field struct view below a dict
        s = Signal(data.StructLayout({"a": shape}))
        return {"x": s}, s.a
    if kind == "dict(scalar)":
        s = Signal(shape)
        return {"x": s}, s
    if kind == "dict(viewfield)":  # field of a bigger view handed over in a dict
        s = Signal(data.StructLayout({"a": shape, "b": 2}))
        return {"x": s.a}, s.a
    assert False


# (lhs kind, rhs kind)
pairs = [
    ("scalar", "struct1"),
    ("struct1", "scalar"),
    ("scalar", "array1"),
    ("array1", "scalar"),
    ("dict(scalar)", "dict(struct1)"),
    ("dict(struct1)", "dict(scalar)"),
    ("dict(viewfield)", "dict(viewfield)"),
    ("dict(viewfield)", "dict(scalar)"),
    ("dict(scalar)", "dict(viewfield)"),
]

n = 0
for (lkind, rkind), lshape, rshape in itertools.product(pairs, shapes, shapes):
    lhs, lprobe = wrap(lkind, lshape)
    rhs, rdrive = wrap(rkind, rshape)
    cfg = f"config: lhs={lkind} of {lshape!r}, rhs={rkind} of {rshape!r}, fields=AssignType.ALL"
    n += 1
    try:
        stmts = list(assign(lhs, rhs, fields=AssignType.ALL))
    except ValueError:
        if lshape == rshape:
            print(cfg)
            print("got: ValueError, expected: assignment (shapes are equal)")
            sys.exit(1)
        continue

    m = Module()
    m.d.comb += stmts
    bad = []

    async def tb(ctx):
        for cycle, v in enumerate(values(rshape)):
            ctx.set(rdrive, v)
            await ctx.delay(1e-9)
            if ctx.get(lprobe) != v:
                bad.append((cycle, ctx.get(lprobe), v))
                return

    sim = Simulator(m)
    sim.add_testbench(tb)
    sim.run()
    if bad:
        print(cfg)
        print(f"cycle {bad[0][0]}: no exception; lhs got {bad[0][1]}, expected {bad[0][2]} (or a ValueError: the shapes differ)")
        sys.exit(1)
    if lshape != rshape:
        print(cfg)
        print("no exception although the shapes differ (all values happened to fit)")
        sys.exit(1)
print(f"all {n} configurations OK")
