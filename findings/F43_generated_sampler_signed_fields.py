"""C33 defect 2: signed event fields sampled from a generated (Verilog) design through
GeneratedEvLogSampler decode to different values than in the simulator capture.

The schema records `EventFieldSchema.signed` (transactron/evlog/schema.py:39-45,144), and the pysim
capture process (transactron/testing/evlog.py:25-34) stores *signed* Python ints for signed fields.
A SignalReader of a Verilog backend (VPI / cocotb `int(handle.value)` / a VCD replay - the sampler is
documented as "simulator-agnostic", reading "the current value of a single signal" by its hierarchical
location) delivers the bit pattern of the wire, i.e. the two's complement value as a non-negative
integer; a HandleResolver only receives the SignalHandle, so it cannot know the signedness.  Nobody ever
consults `signed`: GeneratedEvLogSampler.sample (transactron/evlog/sampler.py:50-62) forwards the
reader values verbatim and EventDecoder.decode (transactron/evlog/log.py:66-74) ignores the field schema.
So a field holding -3 in a signed(4) signal is logged as 13 (and an enum-typed signed field makes
decoding raise ValueError).

Smallest fix (sampler.py): normalise the values with the schema before reporting them, e.g.

    def _values(self, site, readers):
        out = []
        for field, read in zip(self.generated.schema.sites[site].fields, readers):
            v = read() & ((1 << field.width) - 1)
            if field.signed and field.width and v >> (field.width - 1):
                v -= 1 << field.width
            out.append(v)
        return out

and use `self._values(site, field_readers)` in both branches of `sample` (idempotent for readers which
already return signed values).

Yosys is not installed here, so only the final RTLIL->Verilog text step of generate_verilog() is
stubbed; the Design that would be converted is simulated and its wires are read as bit vectors.
"""
import sys

from amaranth import *
from amaranth.back import rtlil, verilog
from amaranth.lib.wiring import Component, In, Out
from amaranth.sim import Simulator
from amaranth.sim.pysim import PySimEngine

from transactron.core.context import TransactronContextElaboratable
from transactron.evlog import Event, EventLog, EventSource, EvLogEnabledKey, GeneratedEvLog, GeneratedEvLogSampler, event
from transactron.testing.evlog import capture_evlog
from transactron.testing.simulator import PysimSimulator
from transactron.testing.tick_count import make_tick_count_process
from transactron.utils.dependencies import DependencyContext, DependencyManager
from transactron.utils.gen import generate_verilog


@event("defect2.ev")
class Ev(Event):
    delta: int
    plain: int


class Dut(Component):
    def __init__(self):
        super().__init__({"din": In(8), "dout": Out(8)})
        self.evlog = EventSource("defect2")

    def elaborate(self, platform):
        m = Module()
        delta = Signal(signed(4))
        m.d.comb += delta.eq(self.din[4:8])
        m.d.sync += self.dout.eq(self.din)
        self.evlog.emit(m, Ev.hw(delta=delta, plain=self.din[4:8]), when=self.din[0])
        return m


NCYCLES = 16
stimulus = [(c * 37 + 1) & 255 for c in range(NCYCLES)]


def reference():
    with DependencyContext(DependencyManager()):
        DependencyContext.get().add_dependency(EvLogEnabledKey(), True)
        dut = Dut()
        sim = PysimSimulator(dut)
        sim.add_process(make_tick_count_process())
        log, proc = capture_evlog()
        sim.add_process(proc)

        async def tb(ctx):
            for cyc in range(NCYCLES):
                ctx.set(dut.din, stimulus[cyc])
                await ctx.tick()

        sim.add_testbench(tb)
        sim.run()
    return log


def generated(packed):
    captured = {}

    def convert_fragment_without_yosys(design, name="top", *, strip_internal_attrs=False, **kwargs):
        text, name_map = rtlil.convert_fragment(design, name=name, **kwargs)
        captured.update(design=design, name_map=name_map)
        return text, name_map

    orig = verilog.convert_fragment
    verilog.convert_fragment = convert_fragment_without_yosys
    try:
        with DependencyContext(DependencyManager()):
            DependencyContext.get().add_dependency(EvLogEnabledKey(), True)
            dut = Dut()
            top = TransactronContextElaboratable(dut, dependency_manager=DependencyContext.get())
            _, info = generate_verilog(top, ports=[dut.din, dut.dout])
    finally:
        verilog.convert_fragment = orig

    gen: GeneratedEvLog = GeneratedEvLog.from_json(info.evlog.to_json())  # type: ignore
    if not packed:
        gen.triggers_location = None
    handle_to_signal = {tuple(v): k for k, v in captured["name_map"].items()}
    design = captured["design"]
    sim = Simulator.__new__(Simulator)  # simulate the already prepared Design
    sim._design, sim._engine, sim._clocked, sim._running = design, PySimEngine(design), set(), False
    sim.add_clock(1e-6)
    log = EventLog(gen.schema)

    async def tb(ctx):
        def resolve(handle):
            sig = handle_to_signal[tuple(handle)]
            # what a Verilog simulator handle / VCD gives: the bits of the wire
            return lambda: ctx.get(sig) & ((1 << len(sig)) - 1)

        sampler = GeneratedEvLogSampler(gen, resolve)
        for cyc in range(NCYCLES):
            ctx.set(dut.din, stimulus[cyc])
            sampler.sample(cyc, log)
            await ctx.tick()

    sim.add_testbench(tb)
    sim.run()
    return log


ref = reference()
expected = [(d.cycle, d.event) for d in ref.decoded()]
failed = False
for packed in (True, False):
    config = f"field delta: Signal(signed(4)), {'packed' if packed else 'per-site'} triggers"
    log = generated(packed)
    assert log.schema == ref.schema, "schemas differ"
    assert log.schema.sites[0].fields[0].signed
    got = [(d.cycle, d.event) for d in log.decoded()]
    for i in range(max(len(got), len(expected))):
        g = got[i] if i < len(got) else None
        e = expected[i] if i < len(expected) else None
        if g != e:
            failed = True
            cyc = (g or e)[0]
            print(f"MISMATCH [{config}]: cycle {cyc} (din={stimulus[cyc]:#04x}): got {g}, expected {e}")
            break
    else:
        print(f"ok [{config}]")

sys.exit(1 if failed else 0)
