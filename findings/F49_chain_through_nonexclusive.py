import sys, warnings
from amaranth import *
from amaranth.sim import Simulator
from transactron import *
from transactron.core.context import TransactronContextElaboratable
from transactron.lib.connectors import Connect
warnings.filterwarnings("ignore")
class D(Elaboratable):
    def elaborate(self, platform):
        m = TModule()
        dummy = Signal(); m.d.sync += dummy.eq(~dummy)
        m.submodules.c1 = c1 = Connect([("d", 2)]); m.submodules.c2 = c2 = Connect([("d", 2)])
        self.c1, self.c2 = c1, c2
        N = Method(name="N")
        with N.body(m, nonexclusive=True): pass
        with Transaction(name="A").body(m) as self.a:
            c1.write(m, d=1); N(m)
        with Transaction(name="M").body(m) as self.mm:
            x = c1.read(m); c2.write(m, d=x.d)
        with Transaction(name="R").body(m) as self.r:
            c2.read(m); N(m)
        return m
d = D()
sim = Simulator(TransactronContextElaboratable(d)); sim.add_clock(1e-6)
async def tb(ctx):
    for _ in range(3):
        await ctx.tick()
        print("c1.write", ctx.get(d.c1.write.run), "c1.read", ctx.get(d.c1.read.run), "c2.write", ctx.get(d.c2.write.run), "c2.read", ctx.get(d.c2.read.run))
sim.add_testbench(tb)
try:
    sim.run()
except Exception as e:
    print("raised", type(e).__name__, str(e)[:150])
