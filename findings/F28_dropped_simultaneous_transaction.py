"""C04 defect 1: bodies nested in a transaction that the manager silently drops keep running.

Configuration
-------------
    with Transaction(name="outer").body(m, ready=r_outer) as outer:
        with Transaction(name="inner").body(m, ready=r_inner):      # variant "nested_transaction"
            sink(m)
    outer.simultaneous(partner)          # `partner` is a defined method that nobody calls

(variant "nested_method": instead of the inner transaction a method `inner` is defined inside `outer`
and called from a separate top-level transaction `user`;
 variant "connect_without_reader": no explicit `simultaneous` at all - `outer` calls `Connect.write` of
 `transactron.lib.Connect` (which declares `write.simultaneous(read)`) and nobody calls `Connect.read`.)

`outer` may only run together with `partner`; `partner` is never called, so `outer` never runs - fine.
But C04 also demands that a body nested in `outer` never runs in a cycle where `outer` does not run, and that
a method (`sink`) runs only if one of its call sites is active.  On the unchanged code `inner.run` (and with it
`sink.run`, i.e. the side effects of `sink`) is 1 whenever `inner` is ready, although `outer.run` is constantly 0
and the call site of `sink` (a statement lexically inside `outer`) is not active.

Root cause
----------
transactron/core/manager.py, TransactionManager._simultaneous:
  * lines 399-402  `all_simultaneous` collects `outer` (it is the only transaction of the pair outer/partner);
  * lines 404-414  no group is generated because `transactions_for(partner)` is empty;
  * line 440       `self.transactions = filter(tr._body not in all_simultaneous)` removes `outer` from the manager
                   altogether (it is not in `joined_transactions`, so it is not re-added as a method either).
TransactionManager.elaborate line 489 / _ready_dependencies lines 300-311 then build the ready dependencies only
from the relations of bodies that are still in the MethodMap.  The relation `outer --ready_dependent--> inner`
(added by Body.context, transactron/core/body.py:94-96) lives on the dropped body, so it is lost and nothing ties
`inner` to `outer` any more.

Smallest fix
------------
Keep the ready dependencies whose source is a dropped transaction (its `run` is never driven, i.e. constantly 0,
which blocks every body nested in it):

    # _simultaneous, just before line 440
    self.dropped_transactions = [tr._body for tr in self.transactions
                                 if tr._body in all_simultaneous and tr._body not in joined_transactions]
    # elaborate, after line 489  (ready_dependencies = self._ready_dependencies(method_map))
    for body in self.dropped_transactions:
        for relation in body.relations:
            if relation.ready_dependent:
                ready_dependencies[relation.end].add(body)

(verified by monkeypatching: this script passes, test/ passes, and the random-design fuzzer no longer finds
mismatches of this kind.)
"""

import sys
import warnings
from itertools import product

from amaranth import *
from amaranth.sim import Simulator

from transactron.core import TModule, Method, Transaction, TransactronContextElaboratable, def_method
from transactron.lib import Connect

warnings.filterwarnings("ignore")


class Dut(Elaboratable):
    def __init__(self, variant: str):
        self.variant = variant
        self.r_outer = Signal()
        self.r_inner = Signal()
        self.r_user = Signal()
        # comb statements placed in the bodies / at the call site: 1 iff that piece of code is executing
        self.outer_stmt = Signal()
        self.inner_stmt = Signal()
        self.sink_stmt = Signal()
        self.sink_call_site = Signal()

    def elaborate(self, platform):
        m = TModule()
        tick = Signal(4)
        m.d.sync += tick.eq(tick + 1)

        self.sink = sink = Method()
        self.partner = partner = Method()  # defined, never called

        @def_method(m, sink)
        def _():
            m.d.comb += self.sink_stmt.eq(1)

        @def_method(m, partner)
        def _():
            pass

        if self.variant == "connect_without_reader":
            m.submodules.conn = conn = Connect([("data", 4)])
            partner = self.partner = conn.read  # never called
        if self.variant in ("nested_transaction", "connect_without_reader"):
            with Transaction(name="outer").body(m, ready=self.r_outer) as outer:
                m.d.comb += self.outer_stmt.eq(1)
                if self.variant == "connect_without_reader":
                    conn.write(m, data=1)
                with Transaction(name="inner").body(m, ready=self.r_inner) as inner:
                    m.d.comb += self.inner_stmt.eq(1)
                    m.d.comb += self.sink_call_site.eq(1)
                    sink(m)
        else:
            inner = Method()
            with Transaction(name="outer").body(m, ready=self.r_outer) as outer:
                m.d.comb += self.outer_stmt.eq(1)

                @def_method(m, inner, ready=self.r_inner)
                def _():
                    m.d.comb += self.inner_stmt.eq(1)
                    m.d.comb += self.sink_call_site.eq(1)
                    sink(m)

            with Transaction(name="user").body(m, ready=self.r_user):
                inner(m)

        if self.variant != "connect_without_reader":
            outer.simultaneous(partner)

        self.outer, self.inner = outer, inner
        return m


def check(variant: str):
    dut = Dut(variant)
    sim = Simulator(TransactronContextElaboratable(dut))
    sim.add_clock(1e-6)
    errors = []

    async def tb(sim):
        cycle = 0
        for _ in range(2):
            for ro, ri, ru in product((0, 1), repeat=3):
                sim.set(dut.r_outer, ro)
                sim.set(dut.r_inner, ri)
                sim.set(dut.r_user, ru)
                outer_run = sim.get(dut.outer.run)
                inner_run = sim.get(dut.inner.run)
                sink_run = sim.get(dut.sink.run)
                partner_run = sim.get(dut.partner.run)
                site = sim.get(dut.sink_call_site)
                inputs = f"r_outer={ro} r_inner={ri} r_user={ru}"
                if partner_run:
                    errors.append((cycle, inputs, "partner.run", partner_run, 0, "never called"))
                if inner_run and not outer_run:
                    errors.append(
                        (cycle, inputs, "inner.run", inner_run, 0, f"enclosing body outer.run={outer_run}")
                    )
                if sink_run != site:
                    errors.append(
                        (cycle, inputs, "sink.run", sink_run, site, "OR over the (single) call site of sink")
                    )
                if sim.get(dut.sink_stmt) != site:
                    errors.append((cycle, inputs, "sink body executes", sim.get(dut.sink_stmt), site, "call site"))
                if errors:
                    return
                cycle += 1
                await sim.tick()

    sim.add_testbench(tb)
    sim.run()
    return errors


def main():
    failed = False
    for variant in ("nested_transaction", "nested_method", "connect_without_reader"):
        errors = check(variant)
        if errors:
            failed = True
            cycle, inputs, what, got, expected, why = errors[0]
            print(
                f"MISMATCH configuration={variant} (outer simultaneous with a method that is never called) "
                f"cycle={cycle} inputs: {inputs}: {what} got={got} expected={expected} ({why})"
            )
            for e in errors[1:]:
                print("   also:", e)
        else:
            print(f"ok configuration={variant}")
    sys.exit(1 if failed else 0)


if __name__ == "__main__":
    main()
