"""
C34 defect 3: a triggered record whose level is not exactly DEBUG/INFO/WARNING/ERROR is not reported
by the simulation harness; instead Python's logging prints a "--- Logging error --- ... KeyError"
traceback for every cycle in which the trigger holds.

LogLevel is a plain `int` (transactron/utils/logging.py:28), HardwareLogger.log/top_log take any
level, get_log_records compares levels numerically, parse_logging_level accepts "CRITICAL" and any
integer - so e.g. logging.CRITICAL (50) or an intermediate level such as 25 are accepted
configurations.  For CRITICAL the simulation still ends (level >= ERROR), but the message that says
why is lost.

Component : transactron/testing/logging.py _LogFormatter (installed by
            TestCaseWithSimulatorBase._configure_logging, transactron/testing/test_case.py:112-118)
Root cause: transactron/testing/logging.py:69
                level_name = self.loglevel2colour[record.levelno].format(record.levelname)
            loglevel2colour (lines 61-66) only has the four standard keys; the KeyError is raised
            inside Handler.emit, swallowed by logging's handleError, and the line is never written.

Smallest fix (transactron/testing/logging.py:69):
    -   level_name = self.loglevel2colour[record.levelno].format(record.levelname)
    +   level_name = self.loglevel2colour.get(record.levelno, "{}").format(record.levelname)

Run: cd /tmp/wt/audit_C34 && PYTHONPATH=/tmp/wt/audit_C34 /venv/bin/python defect3.py
"""
import io
import os
import re
import sys
import logging as pylog

os.environ["__TRANSACTRON_LOG_LEVEL"] = "0"  # report everything
os.environ["__TRANSACTRON_LOG_FILTER"] = ".*"

from amaranth import *  # noqa: E402
from transactron import *  # noqa: E402
from transactron.utils import logging as tlog  # noqa: E402
from transactron.testing.test_case import TestCaseWithSimulatorBase  # noqa: E402

log = tlog.HardwareLogger("unit")


class Dut(Elaboratable):
    def __init__(self, level, top):
        self.level = level
        self.top = top
        self.x = Signal(4)

    def elaborate(self, platform):
        m = TModule()
        if self.top:
            log.top_log(self.level, self.x[0], "x is odd: {:#x}", self.x)
        else:
            log.log(m, self.level, self.x[0], "x is odd: {:#x}", self.x)
        return m


class T(TestCaseWithSimulatorBase):
    def go(self, level, top, hist):
        dut = Dut(level, top)

        async def tb(sim):
            for v in hist:
                sim.set(dut.x, v)
                await sim.tick()
            sim.set(dut.x, 0)
            await sim.tick()

        with self.run_simulation(dut) as sim:
            sim.add_testbench(tb)


def run(level, top, hist):
    """Returns the (cycle, message) pairs the harness wrote to its log stream, and whether it failed."""
    saved_stderr, sys.stderr = sys.stderr, io.StringIO()  # the harness' StreamHandler writes to stderr
    failed = False
    try:
        t = T()
        with t.ctx_testing_env("defect3"):
            t.go(level, top, hist)
    except AssertionError:
        failed = True
    finally:
        text, sys.stderr = sys.stderr.getvalue(), saved_stderr
    plain = re.sub(r"\x1b\[[0-9;]*m", "", text)
    got = [(int(c), msg) for c, msg in re.findall(r"^(\d+) \S.* unit \[defect3\.py:\d+\] (.*)$", plain, re.M)]
    return got, failed, "KeyError" in text


def reference(level, hist):
    exp = []
    for cyc, v in enumerate(hist):
        if v & 1:
            exp.append((cyc, f"x is odd: {v:#x}"))
            if level >= pylog.ERROR:
                return exp, True
    return exp, False


if __name__ == "__main__":
    pylog.getLogger().setLevel(0)
    hist = [2, 3, 4, 7, 6, 11]
    bad = None
    for level in [pylog.DEBUG, pylog.INFO, pylog.WARNING, pylog.ERROR, pylog.CRITICAL, 25, 5, 45]:
        for top in [False, True]:
            got, failed, keyerr = run(level, top, hist)
            exp, exp_failed = reference(level, hist)
            ok = got == exp and failed == exp_failed
            print(f"level={level:3} ({pylog.getLevelName(level):9}) top_log={top!s:5} reported={len(got)}/{len(exp)}"
                  f" failed={failed} KeyError in formatter={keyerr} {'ok' if ok else 'MISMATCH'}")
            if not ok and bad is None:
                bad = (level, top, got, exp, failed, exp_failed)
    if bad is not None:
        level, top, got, exp, failed, exp_failed = bad
        cyc = next(e[0] for e in exp if e not in got)
        print()
        print(f"MISMATCH: configuration: level={level} ({pylog.getLevelName(level)}), top_log={top}, trigger=x[0],"
              f" format 'x is odd: {{:#x}}', log level 0, filter '.*'")
        print(f"  history of x: {hist}; first differing cycle: {cyc}")
        print(f"  got      : {[g for g in got if g[0] == cyc]} (simulation failed: {failed})")
        print(f"  expected : {[e for e in exp if e[0] == cyc]} (simulation failed: {exp_failed})")
        sys.exit(1)
    print("no mismatch")
