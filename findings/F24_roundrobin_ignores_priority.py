#!/usr/bin/env python
"""C08 defect 2: trivial_roundrobin_cc_scheduler ignores conflict priorities.

With `TransactionManager(trivial_roundrobin_cc_scheduler)` and `a.add_conflict(b, Priority.LEFT)` (between
transactions, or lifted from methods), `b` is granted in cycles in which `a` is fully enabled as well and
nothing else runs: the round-robin pointer alone decides.  The scheduler receives the priority order
(`porder` argument, documented as "Linear ordering of transactions which is consistent with priority
constraints") and never reads it.

Root cause: transactron/core/schedulers.py:71-77 - `requests[k]` is `ready & runnable` for every member of
the connected component, `porder` is unused.  (The docstring says the scheduler "is mainly for testing
purposes", but it is exported, selectable through the public `TransactionManager(cc_scheduler=...)` argument,
and nothing documents that `Priority.LEFT/RIGHT` is not honoured by it.)

Smallest fix (schedulers.py, body of trivial_roundrobin_cc_scheduler), validated with a monkeypatch in
validate_fixes.py - a requester is masked while a conflicting requester that precedes it in `porder` requests:

        m = Module()
   -    rr = OneHotRoundRobin(len(cc))
   +    ccl = sorted(cc, key=lambda transaction: porder[transaction])
   +    rr = OneHotRoundRobin(len(ccl))
        m.submodules.rr = rr
   -    for k, transaction in enumerate(cc):
   -        m.d.comb += rr.requests[k].eq(transaction.ready & transaction.runnable)
   +    req = [transaction.ready & transaction.runnable for transaction in ccl]
   +    for k, transaction in enumerate(ccl):
   +        higher = [req[j] for j in range(k) if ccl[j] in gr[transaction]]
   +        m.d.comb += rr.requests[k].eq(req[k] & ~Cat(higher).any())
            m.d.comb += transaction.run.eq(rr.grant[k] & rr.valid)

(This also fixes the order for conflicts of undefined priority, i.e. round robin then only rotates between
members of a component that do not conflict directly.  To keep rotation for undefined-priority conflicts, mask
only with the pairs that carry a LEFT/RIGHT conflict; those can be recomputed in the scheduler from
`TransactionManager._relations(method_map)` + `method_map.transactions_for`, or handed over by
`_conflict_graph` next to `porder`.)

Exit status 1 and the first mismatch is printed on the unchanged code.
"""

import sys
import random
import warnings

from amaranth import *
from amaranth.sim import Simulator

from transactron import TModule, Method, Transaction, TransactionManager
from transactron.core import Priority
from transactron.core.context import TransactronContextElaboratable
from transactron.core.schedulers import eager_deterministic_cc_scheduler, trivial_roundrobin_cc_scheduler
from transactron.utils.dependencies import DependencyContext, DependencyManager

warnings.filterwarnings("ignore")


class Design(Elaboratable):
    """kind "trans": t0.add_conflict(t1, prio) between two transactions.
    kind "meth":  t0 calls m0, t1 calls m1, m0.add_conflict(m1, prio)  (the circuits of TestTransactionPriorities).
    kind "chain": t0 > t1 > t2 by two prioritised conflicts, t0 and t2 do not conflict.
    """

    def __init__(self, kind: str, prio: Priority):
        self.kind = kind
        self.prio = prio
        self.n = 3 if kind == "chain" else 2
        self.ready = [Signal(name=f"r{i}") for i in range(self.n)]
        self.run = [Signal(name=f"run{i}") for i in range(self.n)]

    def elaborate(self, platform):
        m = TModule()
        dummy = Signal()
        m.d.sync += dummy.eq(~dummy)  # the eager scheduler is combinational; keep a sync domain for the clock
        meths = []
        if self.kind == "meth":
            for i in range(self.n):
                meth = Method(name=f"m{i}")
                with meth.body(m):
                    pass
                meths.append(meth)
        ts = []
        for i in range(self.n):
            t = Transaction(name=f"t{i}")
            with t.body(m, ready=self.ready[i]):
                m.d.comb += self.run[i].eq(1)
                if meths:
                    meths[i](m)
            ts.append(t)
        sides = meths if meths else ts
        for i in range(self.n - 1):
            sides[i].add_conflict(sides[i + 1], self.prio)
        return m


def run(kind, prio, scheduler, cycles=40):
    rng = random.Random(7)
    mismatches = []
    with DependencyContext(DependencyManager()):
        dut = Design(kind, prio)
        top = TransactronContextElaboratable(dut, DependencyContext.get(), TransactionManager(scheduler))
        sim = Simulator(top)
        sim.add_clock(1e-6)
        n = dut.n
        # (hi, lo) pairs and the conflict graph, straight from the add_conflict calls
        pairs = [(i, i + 1) if prio == Priority.LEFT else (i + 1, i) for i in range(n - 1)]
        conf = {i: {j for j in range(n) if abs(i - j) == 1} for i in range(n)}

        async def tb(sim):
            for cyc in range(cycles):
                rdy = [1] * n if cyc < 6 else [rng.randint(0, 1) for _ in range(n)]
                for s, v in zip(dut.ready, rdy):
                    sim.set(s, v)
                got = [int(v) for v in (await sim.tick().sample(*dut.run))[2:]]
                for hi, lo in pairs:
                    if rdy[hi] and rdy[lo] and got[lo]:
                        # allowed only if hi is blocked by another conflicting transaction that runs
                        if got[hi] or not any(got[u] for u in conf[hi] if u != lo):
                            mismatches.append(
                                f"scheduler={scheduler.__name__} design={kind} priority={prio.name} cycle={cyc} "
                                f"ready={rdy}: got run={got}; expected t{lo}.run=0 because t{hi} (higher priority) "
                                f"is enabled and no other transaction conflicting with t{hi} runs"
                            )
                            return

        sim.add_testbench(tb)
        sim.run()
    return mismatches


def main():
    failures = []
    for scheduler in (eager_deterministic_cc_scheduler, trivial_roundrobin_cc_scheduler):
        for kind in ("trans", "meth", "chain"):
            for prio in (Priority.LEFT, Priority.RIGHT):
                res = run(kind, prio, scheduler)
                print(f"{scheduler.__name__:34s} {kind:6s} {prio.name:6s}: {'OK' if not res else 'MISMATCH'}")
                failures += res
    if failures:
        print()
        print("first mismatch:", failures[0])
        sys.exit(1)


if __name__ == "__main__":
    main()
