"""F3 (C02): a transaction that calls two methods related by add_conflict runs both of them.

`_conflict_graph` lifts a conflict relation to every (caller of start, caller of end) pair and inserts an edge
between the two transactions - also when both are the *same* transaction.  The edge t--t is then ignored by
every scheduler (they only look at other transactions), so m1 and m2 run in the same cycle although
m1.add_conflict(m2) was declared.  (The sibling loop for implicit conflicts skips `t1 is t2` explicitly.)
Run: /venv/bin/python F3_self_conflict.py   (exit 0 = the two methods never ran together)
"""
import sys
from amaranth import *
from amaranth.sim import Simulator
from transactron import TModule, Transaction, Method, def_method
from transactron.core.context import TransactronContextElaboratable


class Dut(Elaboratable):
    def __init__(self):
        self.m1 = Method()
        self.m2 = Method()

    def elaborate(self, platform):
        m = TModule()
        self.m1.add_conflict(self.m2)

        @def_method(m, self.m1)
        def _():
            pass

        @def_method(m, self.m2)
        def _():
            pass

        with Transaction().body(m):
            self.m1(m)
            self.m2(m)
        dummy = Signal()
        m.d.sync += dummy.eq(~dummy)  # keep a sync domain for the simulator clock
        return m


dut = Dut()
sim = Simulator(TransactronContextElaboratable(dut))
sim.add_clock(1e-6)
both = []


async def tb(ctx):
    for _ in range(4):
        both.append((ctx.get(dut.m1.run), ctx.get(dut.m2.run)))
        await ctx.tick()


sim.add_testbench(tb)
sim.run()
print("(m1.run, m2.run) per cycle:", both)
bad = any(a and b for a, b in both)
print("conflicting methods ran together" if bad else "never together")
sys.exit(1 if bad else 0)
