#!/usr/bin/env python
"""
C07 defect 1: spurious conflict between two transactions that share nothing but a NONEXCLUSIVE method.

Design (configuration "via_A"):

    X : exclusive leaf method
    A : exclusive method, body:  X(m)
    N : NONEXCLUSIVE method, body:
            with m.If(sel):   X(m)      # reaches X directly
            with m.Else():    A(m)      # reaches X through A
    T1: N(m)
    T2: N(m)

T1 and T2 call only the nonexclusive method N.  N executes once per cycle whoever calls it, and inside
that single execution X is reached on exactly one of two mutually exclusive alternatives, so X (and A) is
called at most once per cycle.  T1 and T2 share no exclusive method on non-exclusive call paths and have no
add_conflict relation: by C07 both must run whenever both are requested and N, A, X are ready.

The library nevertheless puts a conflict edge T1 -- T2 and the eager scheduler blocks T2 whenever T1 runs,
although no conflicting transaction exists (a cycle is wasted in every cycle in which both are enabled).

The control configuration "direct" (N calls X directly in both alternatives) is handled correctly, which
shows that the library itself regards "same nonexclusive ancestor" as conflict-free.

Root cause: transactron/core/manager.py:239-246 (calls_nonexclusive).  For a pair of calls it only looks at
the LAST element of the longest common *prefix* of the two ancestor tuples (callee first).  For the pair
    call1.ancestors = (X, N)        (T1 -> N -> X)
    call2.ancestors = (X, A, N)     (T2 -> N -> A -> X)
the common prefix is (X,), X is exclusive, the call paths start in two different transactions and are
therefore not exclusive -> conflict.  That the two chains merge in the nonexclusive N (not part of the common
prefix because the chains have different lengths below N) is never noticed.

Smallest fix (manager.py:241): a pair of calls is harmless as soon as both chains run through one common
nonexclusive method (everything below it belongs to ONE execution of that method, which
validate_root_call_tree already checked for double calls with that method as root):

    -    common_ancestors[-1].nonexclusive or call_paths_exclusive(call1.call_path, call2.call_path)
    +    any(a.nonexclusive for a in call1.ancestors if a in call2.ancestors)
    +    or call_paths_exclusive(call1.call_path, call2.call_path)

(with this change and the ones of defect2/defect3 a random-design fuzzer of ~3000 designs finds no C07 violation
and no accepted double call any more).
"""
import random
import sys

from amaranth import *
from amaranth.sim import Simulator
from transactron.core import TModule, Method, Transaction
from transactron.core.context import TransactronContextElaboratable
from transactron.utils.dependencies import DependencyContext, DependencyManager


class Dut(Elaboratable):
    def __init__(self, config):
        self.config = config
        self.req = [Signal(name=f"req{i}") for i in range(2)]
        self.sel = Signal()
        self.rdy_x = Signal()
        self.rdy_a = Signal()
        self.rdy_n = Signal()
        self.x = Method(name="X")
        self.a = Method(name="A")
        self.n = Method(name="N")
        self.x_runs = Signal()
        self.trans = []

    def elaborate(self, platform):
        m = TModule()
        dummy = Signal()
        m.d.sync += dummy.eq(~dummy)  # make the sync domain exist

        with self.x.body(m, ready=self.rdy_x):
            m.d.comb += self.x_runs.eq(1)

        with self.a.body(m, ready=self.rdy_a):
            self.x(m)

        with self.n.body(m, ready=self.rdy_n, nonexclusive=True):
            with m.If(self.sel):
                self.x(m)
            with m.Else():
                if self.config == "via_A":
                    self.a(m)
                else:  # control
                    self.x(m)

        for i in range(2):
            t = Transaction(name=f"T{i + 1}")
            self.trans.append(t)
            with t.body(m, ready=self.req[i]):
                self.n(m)

        return m


def run(config, cycles=64):
    """returns the first mismatch as a string, or None"""
    rng = random.Random(7)
    result = []
    with DependencyContext(DependencyManager()):
        dut = Dut(config)
        sim = Simulator(TransactronContextElaboratable(dut))
        sim.add_clock(1e-6)

        async def tb(ctx):
            for cyc in range(cycles):
                if cyc < 2:  # directed: everything enabled, both values of sel
                    vals = dict(req0=1, req1=1, sel=cyc, rx=1, ra=1, rn=1)
                else:
                    vals = dict(
                        req0=rng.getrandbits(1),
                        req1=rng.getrandbits(1),
                        sel=rng.getrandbits(1),
                        rx=int(rng.random() < 0.8),
                        ra=int(rng.random() < 0.8),
                        rn=int(rng.random() < 0.8),
                    )
                ctx.set(dut.req[0], vals["req0"])
                ctx.set(dut.req[1], vals["req1"])
                ctx.set(dut.sel, vals["sel"])
                ctx.set(dut.rdy_x, vals["rx"])
                ctx.set(dut.rdy_a, vals["ra"])
                ctx.set(dut.rdy_n, vals["rn"])
                got = [ctx.get(t.run) for t in dut.trans]
                # reference: no two transactions of this design conflict, so a transaction runs
                # iff it is requested and every method it (transitively) calls is ready.
                all_ready = vals["rx"] and vals["rn"] and (vals["ra"] or config != "via_A")
                exp = [int(bool(vals["req0"] and all_ready)), int(bool(vals["req1"] and all_ready))]
                if got != exp and not result:
                    result.append(
                        f"configuration={config!r} cycle={cyc} inputs={vals}: "
                        f"got run(T1,T2)={got} expected {exp} "
                        f"(the blocked transaction is fully enabled and no conflicting transaction exists)"
                    )
                await ctx.tick()

        sim.add_testbench(tb)
        sim.run()
    return result[0] if result else None


if __name__ == "__main__":
    ctrl = run("direct")
    print("control configuration 'direct' (N calls X in both alternatives):", "OK" if ctrl is None else ctrl)
    bad = run("via_A")
    if bad is not None:
        print("MISMATCH:", bad)
        sys.exit(1)
    print("no mismatch")
    sys.exit(0 if ctrl is None else 1)
