"""C02 - two DISTINCT transactions related by add_conflict run together when they are also `simultaneous`.

NOTE: this shares its root cause with the already known "self-pair" case (one transaction calling two
conflicting methods): the conflict relation is lifted to an edge (G, G) on ONE scheduled transaction, which the
scheduler can never honour and which nobody reports.  It is listed separately only because the user-visible
configuration is different: here the user wrote two transactions (or, second configuration, two transactions
calling two conflicting methods) and never one transaction calling both.

Configuration 1:   t1.simultaneous(t2);  t1.add_conflict(t2)
Configuration 2:   t1 calls A, t2 calls B;  A.add_conflict(B);  t1.simultaneous(t2)
Both are accepted without any diagnostic; the merged transaction "t1_t2" runs t1 and t2 (A and B) in the same cycle,
for every priority argument and both schedulers.

Root cause: transactron/core/manager.py, _simultaneous() step 4/5 turns t1 and t2 into methods called by one merged
transaction; _conflict_graph() (manager.py:288-293) then lifts the relation to add_edge(G, G, ...), a self-loop that
eager_deterministic_cc_scheduler (schedulers.py:41, only j < k is consulted) and the round-robin scheduler ignore.
With priority=LEFT/RIGHT the same self-loop goes into the priority graph and elaboration dies with
networkx.NetworkXUnfeasible instead ("Graph contains a cycle"), which at least prevents the violation.

Smallest fix (same as for the known self-pair), in _conflict_graph, manager.py just before line 290:

            for trans_start in method_map.transactions_for(start):
                for trans_end in method_map.transactions_for(end):
    +               if relation.conflict and trans_start is trans_end:
    +                   raise RuntimeError(
    +                       f"'{start.name}' {start.src_loc} conflicts with '{end.name}' {end.src_loc}, "
    +                       f"but both are run by transaction '{trans_start.name}'")

(or, alternatively, in _simultaneous treat a conflict relation between members of a group like independence and raise
"Unsatisfiable simultaneity constraints").
"""
import sys
import warnings
from amaranth import *
from amaranth.sim import Simulator
from transactron import *
from transactron.core import Priority
from transactron.core.body import Body
from transactron.core.manager import TransactionManager
from transactron.core.schedulers import eager_deterministic_cc_scheduler, trivial_roundrobin_cc_scheduler
from transactron.core.context import TransactronContextElaboratable

warnings.filterwarnings("ignore")


class Dut(Elaboratable):
    def __init__(self, config, prio):
        self.config = config
        self.prio = prio
        self.ins = Signal(4)

    def elaborate(self, platform):
        m = TModule()
        dummy = Signal(2)
        m.d.sync += dummy.eq(dummy + 1)  # only to have a clock domain
        self.A, self.B = Method(name="A"), Method(name="B")
        self.t1, self.t2 = Transaction(name="t1"), Transaction(name="t2")
        with self.A.body(m, ready=self.ins[0]):
            pass
        with self.B.body(m, ready=self.ins[1]):
            pass
        with self.t1.body(m, ready=self.ins[2]):
            self.A(m)
        with self.t2.body(m, ready=self.ins[3]):
            self.B(m)
        self.t1.simultaneous(self.t2)
        if self.config == 1:
            self.t1.add_conflict(self.t2, self.prio)
            self.pair = (self.t1, self.t2)
        else:
            self.A.add_conflict(self.B, self.prio)
            self.pair = (self.A, self.B)
        return m


def main():
    failures = 0
    for config in (1, 2):
        for sched in (eager_deterministic_cc_scheduler, trivial_roundrobin_cc_scheduler):
            prio = Priority.UNDEFINED
            dut = Dut(config, prio)
            Body.stack.clear()
            sim = Simulator(TransactronContextElaboratable(dut, transaction_manager=TransactionManager(sched)))
            sim.add_clock(1e-6)
            found = []

            async def tb(ctx):
                for cyc in range(32):
                    ctx.set(dut.ins, cyc % 16)
                    await ctx.tick()
                    x, y = dut.pair
                    got = (ctx.get(x._body.run), ctx.get(y._body.run))
                    if got == (1, 1):
                        found.append((cyc, got))
                        return

            sim.add_testbench(tb)
            sim.run()
            if found:
                cyc, got = found[0]
                x, y = dut.pair
                print(
                    f"MISMATCH config={config} ({x.name}.add_conflict({y.name}, {prio}) + t1.simultaneous(t2)) "
                    f"scheduler={sched.__name__} cycle={cyc} inputs={cyc % 16:04b}: "
                    f"got ({x.name}.run, {y.name}.run) = {got}, expected never (1, 1)"
                )
                failures += 1
    return 1 if failures else 0


if __name__ == "__main__":
    sys.exit(main())
