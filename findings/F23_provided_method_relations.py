#!/usr/bin/env python
"""C08 defect 1: add_conflict / schedule_before declared ON a provide()d method are silently dropped.

    real  = Method(); real defined with def_method / body
    proxy = Method(); proxy.provide(real)          # e.g. a component re-exporting a submodule's method
    proxy.add_conflict(other, Priority.LEFT)       # <- ignored: neither the conflict nor the priority exist

`other.add_conflict(proxy, Priority.RIGHT)` (the same relation written from the other side) and
`real.add_conflict(other, Priority.LEFT)` both work, so the result depends on which side of the
relation the provide()d method is written.

Root cause: transactron/core/manager.py:467-479 (TransactionManager.elaborate) moves `elem.relations` to
`elem._body.relations` only for `TransactionsKey` and `DefinedMethodsKey` objects.  A method that got its
implementation with `Method.provide` is registered under `ProvidedMethodsKey` only (method.py:170-171),
so its `relations` list (and `simultaneous_list` / `independent_list`) is never looked at.

Smallest fix (manager.py, TransactionManager.elaborate), validated with a monkeypatch in validate_fixes.py:

        self.transactions = DependencyContext.get().get_dependency(TransactionsKey())
        self.methods = DependencyContext.get().get_dependency(DefinedMethodsKey())
   +    # not get_dependency(): the key must stay unlocked, _simultaneous() still adds to it
   +    provided = list(DependencyContext.get().dependencies[ProvidedMethodsKey()])

   -    for elem in chain(self.transactions, self.methods):
   +    for elem in chain(self.transactions, self.methods, provided):

Exit status 1 and the first mismatch is printed on the unchanged code.
"""

import sys
import random
import warnings

from amaranth import *
from amaranth.sim import Simulator

from transactron import TModule, Method, Transaction, TransactionManager
from transactron.core import Priority
from transactron.core.context import TransactronContextElaboratable
from transactron.core.schedulers import eager_deterministic_cc_scheduler
from transactron.utils.dependencies import DependencyContext, DependencyManager

warnings.filterwarnings("ignore")


class Design(Elaboratable):
    """t_other: a transaction calling nothing.  t_caller: calls `real` through `proxy`.

    variant "proxy-left" : proxy.add_conflict(t_other, LEFT)      -> t_caller must win
    variant "real-left"  : real.add_conflict(t_other, LEFT)       -> t_caller must win   (control)
    variant "other-right": t_other.add_conflict(proxy, RIGHT)     -> t_caller must win   (control)
    `extra_undefined` additionally declares t_other.add_conflict(t_caller) with undefined priority, so that the two
    transactions are arbitrated even when the relation under test is lost.
    """

    def __init__(self, variant: str, extra_undefined: bool):
        self.variant = variant
        self.extra_undefined = extra_undefined
        self.r_other = Signal()
        self.r_caller = Signal()
        self.r_meth = Signal()
        self.run_other = Signal()
        self.run_caller = Signal()

    def elaborate(self, platform):
        m = TModule()
        dummy = Signal()
        m.d.sync += dummy.eq(~dummy)

        real = Method(name="real")
        proxy = Method(name="proxy")
        proxy.provide(real)

        with real.body(m, ready=self.r_meth):
            pass

        t_other = Transaction(name="t_other")
        with t_other.body(m, ready=self.r_other):
            m.d.comb += self.run_other.eq(1)

        t_caller = Transaction(name="t_caller")
        with t_caller.body(m, ready=self.r_caller):
            m.d.comb += self.run_caller.eq(1)
            proxy(m)

        if self.variant == "proxy-left":
            proxy.add_conflict(t_other, Priority.LEFT)
        elif self.variant == "real-left":
            real.add_conflict(t_other, Priority.LEFT)
        elif self.variant == "other-right":
            t_other.add_conflict(proxy, Priority.RIGHT)
        if self.extra_undefined:
            t_other.add_conflict(t_caller)
        return m


def run(variant: str, extra_undefined: bool, cycles=40):
    rng = random.Random(1)
    mismatches = []
    with DependencyContext(DependencyManager()):
        dut = Design(variant, extra_undefined)
        top = TransactronContextElaboratable(
            dut, DependencyContext.get(), TransactionManager(eager_deterministic_cc_scheduler)
        )
        sim = Simulator(top)
        sim.add_clock(1e-6)

        async def tb(sim):
            for cyc in range(cycles):
                ro, rc, rm = (1, 1, 1) if cyc < 4 else (rng.randint(0, 1), rng.randint(0, 1), rng.randint(0, 1))
                sim.set(dut.r_other, ro)
                sim.set(dut.r_caller, rc)
                sim.set(dut.r_meth, rm)
                _, _, got_other, got_caller = await sim.tick().sample(dut.run_other, dut.run_caller)
                # reference: t_caller (calls the LEFT side of the prioritised conflict) beats t_other
                en_caller = rc and rm
                exp_caller = int(en_caller)
                exp_other = int(ro and not en_caller)
                if (int(got_other), int(got_caller)) != (exp_other, exp_caller):
                    mismatches.append(
                        f"variant={variant} extra_undefined_conflict={extra_undefined} cycle={cyc} "
                        f"inputs(t_other.ready={ro}, t_caller.ready={rc}, real.ready={rm}): "
                        f"got (t_other.run, t_caller.run)=({int(got_other)}, {int(got_caller)}) "
                        f"expected ({exp_other}, {exp_caller})"
                    )
                    return

        sim.add_testbench(tb)
        sim.run()
    return mismatches


def main():
    failures = []
    for variant in ("real-left", "other-right", "proxy-left"):
        for extra in (False, True):
            res = run(variant, extra)
            print(f"{variant:12s} extra_undefined_conflict={extra!s:5s}: {'OK' if not res else 'MISMATCH'}")
            failures += res
    if failures:
        print()
        print("first mismatch:", failures[0])
        for f in failures[1:]:
            print("also:          ", f)
        sys.exit(1)


if __name__ == "__main__":
    main()
