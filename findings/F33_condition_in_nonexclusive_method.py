"""F33 (C12, "at most one branch runs per cycle"): a condition() inside a NONEXCLUSIVE method called by two transactions.

The merged transactions T1+branch0 and T2+branch1 shared no exclusive body (the method is nonexclusive), so both ran:
two branches of one condition in one cycle (with priority=True: the later branch while the earlier one is admissible).
Also shows the regression of the first repair of F27 (callers of the nonexclusive method glued together: T1 could
only run together with T2), which the second repair removes."""
import sys, warnings
from amaranth import *
from amaranth.sim import Simulator
from transactron import *
from transactron.core.body import Body
from transactron.core.context import TransactronContextElaboratable
from transactron.lib.simultaneous import condition
warnings.filterwarnings("ignore")


class A(Elaboratable):
    def __init__(self, priority):
        self.priority = priority
        self.c0 = Signal(); self.c1 = Signal(); self.r1 = Signal(); self.r2 = Signal()

    def elaborate(self, platform):
        m = TModule()
        dummy = Signal(); m.d.sync += dummy.eq(~dummy)
        M = Method(name="M"); X = Method(name="X"); Y = Method(name="Y")
        with X.body(m): pass
        with Y.body(m): pass
        with M.body(m, nonexclusive=True):
            with condition(m, priority=self.priority) as branch:
                with branch(self.c0):
                    self.b0 = Body.get(); X(m)
                with branch(self.c1):
                    self.b1 = Body.get(); Y(m)
        with Transaction(name="T1").body(m, ready=self.r1) as self.t1: M(m)
        with Transaction(name="T2").body(m, ready=self.r2) as self.t2: M(m)
        self.M = M
        return m


bad = []
for prio in (False, True):
    d = A(prio)
    sim = Simulator(TransactronContextElaboratable(d)); sim.add_clock(1e-6)

    async def tb(ctx, d=d, prio=prio):
        for r1 in (0, 1):
            for r2 in (0, 1):
                for c0 in (0, 1):
                    for c1 in (0, 1):
                        ctx.set(d.r1, r1); ctx.set(d.r2, r2); ctx.set(d.c0, c0); ctx.set(d.c1, c1)
                        await ctx.delay(1e-7)
                        t1, t2, b0, b1 = (ctx.get(x.run) for x in (d.t1, d.t2, d.b0, d.b1))
                        inp = f"priority={prio} r1={r1} r2={r2} c0={c0} c1={c1}"
                        if b0 + b1 > 1:
                            bad.append(f"{inp}: two branches run (b0={b0}, b1={b1})")
                        if (r1 or r2) and (c0 or c1) and not (t1 or t2):
                            bad.append(f"{inp}: a caller is ready and a branch is admissible, but nothing runs (T1.run={t1}, T2.run={t2})")
    sim.add_testbench(tb); sim.run()
for b in bad[:6]:
    print("MISMATCH", b)
print("no mismatch" if not bad else f"{len(bad)} mismatches")
sys.exit(1 if bad else 0)
