"""Check driver: runs the rule pack of one property, applies the outcome policy.

exit 0  all obligations discharged (known findings are printed as KNOWN-FINDING lines)
exit 1  VIOLATION property=<id> replay=<file>   (an obligation is violated and not a listed known finding)
exit 2  ANALYSIS-ERROR ...                        (anchor vanished / idiom not modelled / internal error)
"""

from __future__ import annotations

import importlib
import json
import os
import sys
import time
import traceback
from concurrent.futures import ProcessPoolExecutor
from typing import Optional

from . import REPO
from .front import AnalysisError, Repo
from .report import Ctx, is_known, load_known_findings, write_evidence, write_violation_file


def load_rules(prop: str):
    return importlib.import_module(f"tsa.rules.{prop}")


def note_missing(ctx: Optional[Ctx], e: AnalysisError):
    """A resolved function without the statement an obligation is about: recorded as a violation."""
    if ctx is not None and getattr(e, "missing", ""):
        ctx.bad(f"{e.rule}.present", e.site, e.missing, found="not found", required="the construct that realises the obligation is present")
        e.missing = ""


def loop_exit_census(ctx: Ctx):
    """Generic obligation over every function a pack extracted: a `for` loop whose body ends, on a path without any
    python-level test inside the loop, in `break` or `return` handles the first element only.  Rules state their
    obligations per loop element ("for every transaction ..."); a loop cut short after one element would satisfy them
    all, so it is reported here, once, whatever the pack."""
    from . import stage

    seen = set()
    for func, exs in stage.EXTRACTED:
        for ex in exs:
            for f in ex.facts:
                kind = f.kind if isinstance(f, stage.Jump) else ("return" if isinstance(f, stage.Return) and f.callid is None else None)
                if kind not in ("break", "return"):
                    continue
                idx = [k for k, fr in enumerate(f.frames) if fr[0] == "for"]
                if not idx:
                    continue
                inner = f.frames[idx[-1] + 1:]
                # (the frame that stands for "not skipped by an earlier `if ..: continue`" does not make the exit conditional)
                if any(fr[0] in ("py", "match", "except", "while") and not (len(fr) > 3 and fr[3] == "skip") for fr in inner):
                    continue
                key = (func.qualname, f.site, kind)
                if key in seen:
                    continue
                seen.add(key)
                ctx.bad(f"{ctx.prop}.loop-cut-after-first-element", f.site, f"{func.qualname}.for", found=f"unconditional `{kind}` in the body of a for loop",
                        required="a loop the obligations quantify over visits every element (an unconditional break / return in its body leaves after the first)")


# Element-dependent loop skips (`for x in xs: if test(x): continue`) confirmed by reading, per function: how many
# distinct ones there are.  Rules over python-level functions compare guards and see such a skip; rules over hardware
# `elaborate` functions enumerate static configurations and would take "this element is skipped" for one more
# configuration.  A skip beyond the confirmed ones is therefore an idiom the pack has not been validated against:
# the analysis stops (exit 2), it neither passes nor reports a violation.
CONFIRMED_ELEMENT_SKIPS = {
    "TransactionManager._ready_dependencies": 1,  # relations that are not ready dependencies
    "TransactionManager._conditionally_called": 1,  # the body enclosing the one being visited (F31)
    "TransactionManager._simultaneous": 1,  # groups without a caller of a member's enclosing body (F29)
    "MethodMock.output_process": 1,  # frozen mock / disabled method
    "TaggedCounter.__init__": 1,  # negative tags are rejected before (raise), the skip is the non-negative test
    "make_logging_process": 1,  # records whose trigger is low
}


def _no_obj_ids(t):
    if isinstance(t, tuple):
        if len(t) == 2 and t[0] == "obj":
            return ("obj", 0)
        return tuple(_no_obj_ids(x) for x in t)
    return t


def element_skip_census(ctx: Ctx):
    from . import stage
    from .term import canon_binders, subterms, tstr

    found: dict = {}
    for func, exs in stage.EXTRACTED:
        for ex in exs:
            for f in ex.facts:
                fors = [k for k, fr in enumerate(f.frames) if fr[0] == "for"]
                if not fors:
                    continue
                for k, fr in enumerate(f.frames):
                    if fr[0] == "py" and len(fr) > 3 and fr[3] == "skip" and k > fors[0]:
                        binders = {b for j in fors if j < k for b in f.frames[j][1]}
                        if any(s in binders for s in subterms(fr[1])):
                            found.setdefault(func.qualname, {})[fr[4] if len(fr) > 4 else canon_binders(_no_obj_ids(fr[1]))] = (func.site, fr[1])
    for q, tests in found.items():
        if len(tests) > CONFIRMED_ELEMENT_SKIPS.get(q, 0):
            site, t = next(iter(tests.values()))
            raise AnalysisError(f"{ctx.prop}.element-skip", site, f"{q}: {len(tests)} element-dependent loop skip(s) (if {tstr(t)[:80]}: continue), "
                                f"{CONFIRMED_ELEMENT_SKIPS.get(q, 0)} confirmed - the rules of this pack have not been validated against a loop that skips elements")


def run_rules(prop: str, tier: str, overrides: Optional[dict] = None) -> Ctx:
    mod = load_rules(prop)
    extra = tuple(getattr(mod, "EXTRA_DIRS_THOROUGH", ())) if tier == "thorough" else ()
    repo = Repo(REPO, overrides=overrides, extra_dirs=extra)
    ctx = Ctx(prop, tier, repo)
    try:
        from . import stage

        stage.EXTRACTED.clear()
        mod.check(ctx)
        loop_exit_census(ctx)
        element_skip_census(ctx)
    except AnalysisError as e:
        note_missing(ctx, e)
        e.ctx = ctx  # type: ignore[attr-defined]
        raise
    return ctx


def outcome(prop: str, tier: str, overrides: Optional[dict] = None) -> tuple[str, list[str]]:
    """('pass'|'violation'|'error', detail lines) without side effects (used for mutants)."""
    try:
        ctx = run_rules(prop, tier, overrides)
    except AnalysisError as e:
        c = getattr(e, "ctx", None)
        kf = load_known_findings()
        fresh = [o for o in (c.violations if c is not None else []) if is_known(kf, prop, o) is None]
        if fresh:  # violations established before the analysis had to stop (same as the driver's ANALYSIS-INCOMPLETE)
            return "violation", [f"{o.rule} {o.site} {o.construct}" for o in fresh]
        return "error", [str(e)]
    except Exception as e:  # noqa: BLE001
        return "error", [f"{type(e).__name__}: {e}"]
    kf = load_known_findings()
    unknown = [o for o in ctx.violations if is_known(kf, prop, o) is None]
    if unknown:
        return "violation", [f"{o.rule} {o.site} {o.construct}" for o in unknown]
    return "pass", []


def _mutant_job(args):
    prop, name, rel, src = args
    os.environ.setdefault("TSA_QUIET", "1")
    kind, detail = outcome(prop, "quick", {rel: src})
    return name, kind, detail[:3]


def sensitivity_pass(prop: str, repo: Repo) -> dict:
    """Apply each registered mutation of the property to the *current* source in memory and re-run the
    rules; report how many are detected.  Mutations whose anchor text no longer occurs are skipped."""
    mod = load_rules(prop)
    muts = list(getattr(mod, "MUTANTS", []))
    jobs = []
    skipped = []
    for mu in muts:
        name, rel, old, new = mu[:4]
        mi = repo.modules.get(rel)
        if mi is None or mi.source.count(old) != 1:
            skipped.append(name)
            continue
        src = mi.source.replace(old, new)
        try:
            compile(src, rel, "exec")
        except SyntaxError:
            skipped.append(name + " (does not compile)")
            continue
        jobs.append((prop, name, rel, src))
    results = []
    if jobs:
        with ProcessPoolExecutor(max_workers=min(16, len(jobs))) as pool:
            results = list(pool.map(_mutant_job, jobs))
    detected = [n for n, k, _ in results if k == "violation"]
    errors = [n for n, k, _ in results if k == "error"]
    missed = [n for n, k, _ in results if k == "pass"]
    return {
        "mutants_registered": len(muts),
        "mutants_applied": len(jobs),
        "mutants_detected": len(detected),
        "mutants_analysis_error": errors,
        "mutants_missed": missed,
        "mutants_skipped_anchor_changed": skipped,
        "mutant_samples": [{"name": n, "outcome": k, "detail": d} for n, k, d in results[:8]],
    }


def main(argv: list[str]) -> int:
    import argparse

    ap = argparse.ArgumentParser(prog="check")
    ap.add_argument("prop")
    ap.add_argument("--tier", default=os.environ.get("VERIF_TIER", "quick"), choices=["quick", "thorough"])
    ap.add_argument("--explain", default=None)
    a = ap.parse_args(argv)
    if a.explain:
        with open(a.explain) as fh:
            data = json.load(fh)
        for v in data.get("violations", []):
            print(f"{v['site']}: rule {v['rule']} at {v['construct']}\n    found:    {v['found']}\n    required: {v['required']}")
        return 0
    prop = a.prop
    seed = int(os.environ.get("VERIF_SEED", "0") or 0)
    t0 = time.time()
    ctx: Optional[Ctx] = None
    try:
        mod = load_rules(prop)
        extra_dirs = tuple(getattr(mod, "EXTRA_DIRS_THOROUGH", ())) if a.tier == "thorough" else ()
        repo = Repo(REPO, extra_dirs=extra_dirs)
        ctx = Ctx(prop, a.tier, repo)
        from . import stage

        stage.EXTRACTED.clear()
        mod.check(ctx)
        loop_exit_census(ctx)
        element_skip_census(ctx)
        extra = {}
        if a.tier == "thorough":
            extra["sensitivity"] = sensitivity_pass(prop, repo)
            if hasattr(mod, "thorough"):
                mod.thorough(ctx)
    except AnalysisError as e:
        note_missing(ctx, e)
        kf0 = load_known_findings()
        fresh = [o for o in (ctx.violations if ctx is not None else []) if not is_known(kf0, prop, o)]
        if fresh:
            # violations established before the analysis had to stop are definite: report them (exit 1); the part of
            # the pack that could not be analysed is named, not counted as passed
            print(f"ANALYSIS-INCOMPLETE property={prop} {e}")
            wall = time.time() - t0
            write_evidence(ctx, wall, seed, fresh, [], extra={"analysis_incomplete": str(e)})
            for o in fresh:
                print(f"  {o.site}: rule {o.rule} at {o.construct}: found {o.found} ; required {o.required}")
            path = write_violation_file(ctx, fresh)
            print(f"VIOLATION property={prop} replay={path}")
            return 1
        print(f"ANALYSIS-ERROR property={prop} {e}")
        if ctx is None:
            ctx = Ctx(prop, a.tier, Repo.__new__(Repo))
            ctx.repo.modules = {}  # type: ignore[attr-defined]
        try:
            write_evidence(ctx, time.time() - t0, seed, [], [], error=str(e))
        except Exception:  # noqa: BLE001
            pass
        return 2
    except Exception as e:  # noqa: BLE001
        print(f"ANALYSIS-ERROR property={prop} rule=internal site=- reason={type(e).__name__}: {e}")
        traceback.print_exc(file=sys.stderr)
        return 2

    kf = load_known_findings()
    known, unknown = [], []
    for o in ctx.violations:
        f = is_known(kf, prop, o)
        (known if f else unknown).append((o, f) if f else o)
    for o, f in known:
        print(f"KNOWN-FINDING: property={prop} {f['id']} {o.rule} at {o.construct} ({o.site}): {f['what']}")
    wall = time.time() - t0
    write_evidence(ctx, wall, seed, unknown, known, extra=extra)
    n = len(ctx.obligations)
    print(
        f"property={prop} tier={a.tier} obligations={n} discharged={n - len(ctx.violations)} "
        f"known_findings={len(known)} violations={len(unknown)} files={len(ctx.files)} wall={wall:.2f}s"
    )
    if a.tier == "thorough" and "sensitivity" in extra:
        s = extra["sensitivity"]
        print(
            f"sensitivity: applied={s['mutants_applied']} detected={s['mutants_detected']} "
            f"missed={s['mutants_missed']} errors={s['mutants_analysis_error']} skipped={len(s['mutants_skipped_anchor_changed'])}"
        )
    if unknown:
        path = write_violation_file(ctx, unknown)
        for o in unknown:
            print(f"  {o.site}: rule {o.rule} at {o.construct}: found {o.found!s:.300} ; required {o.required!s:.300}")
        print(f"VIOLATION property={prop} replay={path}")
        return 1
    return 0
