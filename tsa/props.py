"""Per-property texts for MANIFEST.json (what is decided, what is not, by which method)."""

T_CORE = "custom static analysis over the ast: path facts of the manager/scheduler functions, propositional guard equivalence by truth table, loop-domain and index-agreement rules"
T_RTL = "custom static analysis over the ast: staged-DSL extraction of the generator, last-writer decision tables and propositional/linear normal forms compared with a reference model in roles"
T_PLUMB = "custom static analysis over the ast: staged-DSL extraction, wiring / index-agreement / effect-set rules on the extracted hardware facts"

NOT_APPLICABLE: dict[str, str] = {}

PROPS = {
    "C01": {
        "level": "Static conformance of every link of the mechanism chain that makes an exclusive method serve one call: control-path "
        "recording table (9 TModule managers), CtrlPathBuilder transfer functions, exclusive_with / call_paths_exclusive, implicit "
        "conflict edges for all caller pairs under a guard equivalent to (distinct and not exempt), the exemption predicate "
        "(all pairs, outermost common ancestor, same two call paths), symmetric insertion, suppression in both schedulers, one scheduler "
        "per component, double-call rejection. Each is a necessary condition: breaking it yields a design where two calls of one "
        "exclusive method are active together.",
        "undecided": "that the links compose for every call-graph shape (design-level induction); correctness of _graph_ccs as a graph algorithm.",
        "technique": T_CORE,
    },
    "C02": {
        "level": "add_conflict records a conflict relation; elaborate copies all relations to bodies; every relation is lifted to all "
        "(caller of start, caller of end) pairs with flag relation.conflict & ~transactions_exclusive; exclusivity only from exclusive "
        "control paths; symmetric edges; scheduler suppression. The self-pair contradiction rule reports the genuine defect F3 (known finding).",
        "undecided": "behaviour over all designs (composition of the links).",
        "technique": T_CORE,
    },
    "C03": {
        "level": "run implies ready & runnable in both schedulers (truth table); runnable is an .all() over ready of every body of the static "
        "call tree with its ready-dependency runs plus every validator; disabled/conditional calls are always recorded; nesting declares a "
        "ready-dependent relation that is filed under the nested body; validator shape ~en | pred with enable/argument of the same call.",
        "undecided": "composition over designs.",
        "technique": T_CORE,
    },
    "C04": {
        "level": "method.run == any over callers of (caller.run & any(enable of its calls)) with matching keys; enables accumulated by AND along "
        "the call chain; enable signal driven in av_comb; non-constant enable_call lowered to a call under If; nested body ready-dependency; "
        "sole writers of run; a transaction retired by the simultaneity step stays in the design as a method (its nested bodies stay blocked); a "
        "simultaneous group is built only with a caller of every member's enclosing simultaneous body.",
        "undecided": "composition over designs.",
        "technique": T_CORE,
    },
    "C05": {
        "level": "Argument and run lists are appended together and unconditionally for every call; data_in <- combiner(args[m], Cat(runs[m])) with "
        "the same key; default combiner and OneHotMux pair select[i] with inputs[i]; call returns data_out; four same-field mirrors "
        "(body->method, provided methods) and three for transactions; def_method assigns the returned value with AssignType.ALL; Methods.provide forwards every element; "
        "enable_call defaults to the constant 1 and Methods.__call__ hands it on.",
        "undecided": "user-supplied combiner bodies; value equality over cycles.",
        "technique": T_CORE,
    },
    "C06": {
        "level": "Complete structural check of the three-module split: domain map (av_comb/top_comb/other), mirroring table of the nine control "
        "managers (AvoidedIf guards main only; If/Elif/Else/Switch/Case/Default mirrored with the same argument; State -> If(ongoing)), "
        "submodule registration, bodies wrapped in AvoidedIf(run), ready driven in a condition-gated domain.",
        "undecided": "Amaranth's own module semantics (trusted).",
        "technique": T_CORE,
    },
    "C07": {
        "level": "Eager run is propositionally *equivalent* to ready & runnable & ~any(run of earlier graph neighbours): no other blocker; "
        "conflict edges only under the conflict flag (schedule_before records conflict=False); exemptions present (some nonexclusive method common to both ancestor chains - "
        "existential, not one element of the common prefix -, exclusive call paths, alternative-recording enter types); the argument records "
        "fed to validate_arguments are required to be independent of run (reports known finding F30).",
        "undecided": "that group merging in _simultaneous adds no spurious blocking.",
        "technique": T_CORE,
    },
    "C08": {
        "level": "Orientation parity of the chain LEFT/RIGHT edge -> graph reversals -> topological order -> ascending numbering -> ascending "
        "sort in the scheduler -> blocking on earlier positions is computed and required to put the prioritised side first; priorities "
        "reach the edges unchanged; schedule_before = LEFT without conflict; relations are copied to bodies from "
        "transactions, defined methods and provide()d methods; every scheduler function reads the order it is handed (reports known finding F24 for "
        "the round-robin scheduler).",
        "undecided": "behaviour over designs.",
        "technique": T_CORE,
    },
    "C09": {
        "level": "Request/grant wiring of the round-robin scheduler (same index, arbiter size), and the arbiter's structure: one-hot grant values, "
        "grant under If(requests[j]) with the same j, valid == any(requests), unconditional state update, scan order = cyclic successor "
        "order (index sequences evaluated for count < 8); ModuleConnector adds every scheduler as a submodule; reports known finding F41 (the "
        "scheduler never reads the order, which is what keeps the run network acyclic).",
        "undecided": "the temporal bound (a continuously requesting transaction is granted within count cycles) is argued on paper only.",
        "technique": T_CORE,
    },
    "C10": {
        "level": "Library rule: wherever a body's ready combinationally reads another body's run, the order is declared (instances: Forwarder, "
        "Pipe; thorough tier also docs/_code); core links: schedule_before -> LEFT priority -> order parity; eager run reads only earlier "
        "runs; runnable reads only ready-dependency runs; enable signals not run-gated; the value a library method returns does not read a signal "
        "driven under another body's run unless that body is scheduled before it (instance: transparent MemoryBank); reports known findings F46 "
        "(results that read their own run) and F47 (merged-transaction enables read a run).",
        "undecided": "absence of combinational cycles in arbitrary user designs (netlist property).",
        "technique": T_CORE,
    },
    "C11": {
        "level": "Each rejection is reached under a guard equivalent to its stated predicate (double call: not path-exclusive with an earlier sighting and no "
        "nonexclusive method common to both ancestor chains; recursion: method among ancestors; single_caller; deadlock: ready-dependency in conflict; cyclic priorities via "
        "topological sort) and validation runs on every method and transaction; acceptance: callers of a nonexclusive body are not made "
        "independent alternatives.",
        "undecided": "composition over designs; networkx raising on cycles is trusted.",
        "technique": T_CORE,
    },
    "C12": {
        "level": "Structure of condition(): branches are nested transactions with ready = condition / ~any(conds); every branch records its "
        "condition; priority chains the immediately preceding branch; nonblocking adds a default; alternatives declared; relation API "
        "(simultaneous both ways, alternatives = simultaneous + independence); merged transaction calls every group member. Steps of the "
        "group computation in _simultaneous: pairs over transactions_for(body) x transactions_for(partner), independent pairs rejected, "
        "independence table filled symmetrically (callers of a nonexclusive body exempt), a group built only with a caller of every member's "
        "enclosing simultaneous body, worklist closure that skips recorded groups and groups with two independent members, "
        "maximal groups only, members retired from the plain transaction list, only non-conflict orderings towards partners removed; "
        "conditional-call infection marks the called methods of infected transactions unless already marked.",
        "undecided": "that the steps of the group computation compose to the intended fixpoint; branch admissibility over inputs.",
        "technique": T_CORE,
    },
    "C13": {
        "level": "Connect declares write/read simultaneous, each returns the other's argument driven in av_comb; simultaneity recorded both ways and "
        "copied to bodies; merged transaction calls all members; the steps of the group computation in _simultaneous (pairs, independence, "
        "closure with the weak-independence table, maximal groups, retired members, removed relations), a group is built only if every "
        "simultaneous partner (a family of alternatives counts as one) of every body it runs has a caller in it, and MethodMap.transactions_for; "
        "bodies request only under their enclosing conditions (ready in av_comb).",
        "undecided": "joint readiness under other blocked methods.",
        "technique": T_CORE,
    },
    "C17": {
        "level": "Complete register-transfer comparison of Forwarder and Pipe with a one-slot reference model in roles: ready formulas by truth "
        "table, decision table of the valid flag over (write, read, clear) incl. clear-wins and read/write in one cycle, data register "
        "written only by write, bypass value table, peek effect-free, ordering relations.",
        "undecided": "exactly-once delivery over histories follows by a short induction from these tables (paper argument).",
        "technique": T_RTL,
    },
    "C39": {
        "level": "OneHotRoundRobin: every grant assignment is a one-hot constant under If(requests[j]) with the same j, the registered grant, or 0 "
        "in the default arm; valid == any(requests); unconditional state update; rotation order. RoundRobin: guard/target index "
        "agreement, rotation order, valid and grant in one domain.",
        "undecided": "the fairness bound (temporal).",
        "technique": T_RTL,
    },
}

from .props2 import PROPS2  # noqa: E402

PROPS.update(PROPS2)
