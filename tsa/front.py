"""Front end: load and index the repository sources (ast only).

`Repo` holds one `ModuleInfo` per file; sources may be overridden in memory
(used by the sensitivity pass and the self-test, which analyse mutated ASTs
without touching the disk).
"""

from __future__ import annotations

import ast
import hashlib
import os
from dataclasses import dataclass, field
from typing import Iterator, Optional

from . import REPO, PKG


class AnalysisError(Exception):
    """The analyser cannot decide (anchor vanished / unmodelled idiom)."""

    def __init__(self, rule: str, site: str, reason: str, missing: str = ""):
        super().__init__(f"rule={rule} site={site} reason={reason}")
        self.rule = rule
        self.site = site
        self.reason = reason
        # set when a *resolved* function lacks the statement that realises an obligation: the driver reports that as a
        # violation naming the function (and stops: the rest of the pack is not analysed)
        self.missing = missing


@dataclass
class FuncInfo:
    qualname: str  # e.g. "TransactionManager._conflict_graph" or "call_paths_exclusive"
    node: ast.FunctionDef
    module: "ModuleInfo"
    cls: Optional["ClassInfo"] = None

    @property
    def site(self) -> str:
        return f"{self.module.relpath}:{self.node.lineno}"


@dataclass
class ClassInfo:
    name: str
    node: ast.ClassDef
    module: "ModuleInfo"
    bases: list[str] = field(default_factory=list)
    methods: dict[str, FuncInfo] = field(default_factory=dict)
    inner: dict[str, "ClassInfo"] = field(default_factory=dict)

    @property
    def site(self) -> str:
        return f"{self.module.relpath}:{self.node.lineno}"


@dataclass
class ModuleInfo:
    relpath: str  # "transactron/core/manager.py"
    source: str
    tree: ast.Module
    classes: dict[str, ClassInfo] = field(default_factory=dict)
    functions: dict[str, FuncInfo] = field(default_factory=dict)
    all_names: Optional[list[str]] = None
    digest: str = ""

    @property
    def modname(self) -> str:
        p = self.relpath[:-3].replace("/", ".")
        return p[: -len(".__init__")] if p.endswith(".__init__") else p


def _base_name(b: ast.expr) -> str:
    if isinstance(b, ast.Name):
        return b.id
    if isinstance(b, ast.Attribute):
        return b.attr
    if isinstance(b, ast.Subscript):
        return _base_name(b.value)
    return ast.unparse(b)


class Repo:
    def __init__(self, root: str = REPO, overrides: Optional[dict[str, str]] = None, extra_dirs: tuple[str, ...] = ()):
        self.root = root
        self.modules: dict[str, ModuleInfo] = {}
        self.overrides = dict(overrides or {})
        self._class_index: dict[str, list[ClassInfo]] = {}
        dirs = (PKG,) + tuple(extra_dirs)
        for d in dirs:
            base = os.path.join(root, d)
            for dp, dn, fn in os.walk(base):
                dn[:] = sorted(x for x in dn if x != "__pycache__")
                for f in sorted(fn):
                    if f.endswith(".py"):
                        rel = os.path.relpath(os.path.join(dp, f), root)
                        self._load(rel)
        if not self.modules:
            raise AnalysisError("front", root, "no python sources found")

    # ------------------------------------------------------------------
    def _load(self, rel: str):
        if rel in self.overrides:
            src = self.overrides[rel]
        else:
            with open(os.path.join(self.root, rel), encoding="utf-8") as fh:
                src = fh.read()
        try:
            tree = ast.parse(src, filename=rel)
        except SyntaxError as e:
            raise AnalysisError("front", f"{rel}:{e.lineno}", f"syntax error: {e.msg}")
        mi = ModuleInfo(rel, src, tree, digest=hashlib.sha256(src.encode()).hexdigest()[:16])
        for node in tree.body:
            self._index_stmt(mi, node)
        self.modules[rel] = mi

    def _index_stmt(self, mi: ModuleInfo, node: ast.stmt):
        if isinstance(node, ast.ClassDef):
            ci = self._index_class(mi, node)
            mi.classes[node.name] = ci
        elif isinstance(node, (ast.FunctionDef, ast.AsyncFunctionDef)):
            mi.functions[node.name] = FuncInfo(node.name, node, mi)  # type: ignore[arg-type]
        elif isinstance(node, ast.Assign):
            for t in node.targets:
                if isinstance(t, ast.Name) and t.id == "__all__" and isinstance(node.value, (ast.List, ast.Tuple)):
                    mi.all_names = [e.value for e in node.value.elts if isinstance(e, ast.Constant)]
        elif isinstance(node, (ast.If, ast.Try)):
            for sub in ast.iter_child_nodes(node):
                if isinstance(sub, ast.stmt):
                    self._index_stmt(mi, sub)

    def _index_class(self, mi: ModuleInfo, node: ast.ClassDef, prefix: str = "") -> ClassInfo:
        ci = ClassInfo(prefix + node.name, node, mi, [_base_name(b) for b in node.bases])
        for sub in node.body:
            if isinstance(sub, (ast.FunctionDef, ast.AsyncFunctionDef)):
                # keep the last definition for plain names; setters get a suffix
                name = sub.name
                for d in sub.decorator_list:
                    if isinstance(d, ast.Attribute) and d.attr == "setter":
                        name = sub.name + ".setter"
                    if isinstance(d, ast.Name) and d.id == "overload":
                        name = sub.name + ".overload"
                ci.methods[name] = FuncInfo(f"{ci.name}.{sub.name}", sub, mi, ci)  # type: ignore[arg-type]
            elif isinstance(sub, ast.ClassDef):
                ci.inner[sub.name] = self._index_class(mi, sub, ci.name + ".")
        self._class_index.setdefault(node.name, []).append(ci)
        return ci

    # ------------------------------------------------------------------
    def module(self, rel: str) -> ModuleInfo:
        if rel not in self.modules:
            raise AnalysisError("front", rel, "module vanished")
        return self.modules[rel]

    def cls(self, rel: str, name: str) -> ClassInfo:
        mi = self.module(rel)
        cur: Optional[ClassInfo] = None
        for part in name.split("."):
            cur = (mi.classes if cur is None else cur.inner).get(part)
            if cur is None:
                raise AnalysisError("front", rel, f"class {name} vanished")
        assert cur is not None
        return cur

    def func(self, rel: str, qualname: str) -> FuncInfo:
        """`qualname` is "f", "Class.meth" or "Class.meth.inner" / "f.inner" (nested defs)."""
        mi = self.module(rel)
        parts = qualname.split(".")
        fi: Optional[FuncInfo] = None
        idx = 0
        if parts[0] in mi.classes:
            ci = mi.classes[parts[0]]
            idx = 1
            while idx < len(parts) and parts[idx] in ci.inner:
                ci = ci.inner[parts[idx]]
                idx += 1
            if idx < len(parts):
                fi = self.find_method(ci, parts[idx], inherited=False)
                idx += 1
        elif parts[0] in mi.functions:
            fi = mi.functions[parts[0]]
            idx = 1
        if fi is None:
            raise AnalysisError("front", rel, f"function {qualname} vanished")
        while idx < len(parts):
            inner = None
            for n in ast.walk(fi.node):
                if isinstance(n, ast.FunctionDef) and n.name == parts[idx] and n is not fi.node:
                    inner = n
                    break
            if inner is None:
                raise AnalysisError("front", fi.site, f"inner function {qualname} vanished")
            fi = FuncInfo(".".join(parts[: idx + 1]), inner, mi, fi.cls)
            idx += 1
        return fi

    def find_class(self, name: str, prefer: Optional[ModuleInfo] = None) -> Optional[ClassInfo]:
        cands = self._class_index.get(name, [])
        if not cands:
            return None
        if prefer is not None:
            for c in cands:
                if c.module is prefer:
                    return c
        # prefer library (non-test) definitions
        cands = sorted(cands, key=lambda c: (not c.module.relpath.startswith(PKG + "/"), c.module.relpath))
        return cands[0]

    def mro(self, ci: ClassInfo) -> Iterator[ClassInfo]:
        seen = set()
        todo = [ci]
        while todo:
            c = todo.pop(0)
            if id(c) in seen:
                continue
            seen.add(id(c))
            yield c
            for b in c.bases:
                bc = self.find_class(b, prefer=c.module)
                if bc is not None:
                    todo.append(bc)

    def find_method(self, ci: ClassInfo, name: str, inherited: bool = True) -> Optional[FuncInfo]:
        for c in self.mro(ci) if inherited else [ci]:
            if name in c.methods:
                return c.methods[name]
        return None

    def all_classes(self, under: str = PKG + "/") -> Iterator[ClassInfo]:
        for rel, mi in sorted(self.modules.items()):
            if rel.startswith(under):
                for ci in mi.classes.values():
                    yield ci

    def digests(self, rels) -> dict[str, str]:
        return {r: self.modules[r].digest for r in rels if r in self.modules}


def site_of(mi: ModuleInfo, node: ast.AST) -> str:
    return f"{mi.relpath}:{getattr(node, 'lineno', 0)}"
