"""Staged-DSL extractor: abstract interpretation of generator functions.

Walks a function body *once per static configuration* (every Python-level `if`
is a recorded decision; all decision vectors are enumerated by the driver
`extract_all`) and yields a fact base:

  HwAssign   m.d.<dom> += lhs.eq(rhs) / assign(lhs, rhs, fields=..)
  BodyDef    def_method / def_methods / X.body(m, ...) bodies
  MethodCall callee(m, args..) made inside the analysed function
  Relation   schedule_before / add_conflict / simultaneous / provide ...
  Submodule  m.submodules.x = ...
  Effect     any other statement-level call (python level effects)
  Store      attribute / subscript stores
  Raise / Return / Helper / Unmodelled

Each fact carries the stack of *frames* under which it was emitted: dynamic
guards (If/Elif/Else/Switch/Case/FSM/State/AvoidedIf/body/condition branch),
static guards (python `if` decisions), binders (python `for`).  Python loops
are never unrolled: their target is a bound variable.  Nothing of the analysed
program is executed.
"""

from __future__ import annotations

import ast
from dataclasses import dataclass, field
from typing import Any, Optional

from .front import AnalysisError, ClassInfo, FuncInfo, ModuleInfo, Repo
from .term import C, Term, attr, index, mk_op, subterms, tstr

MAX_INLINE_DEPTH = 4
MAX_CONFIGS = 1024

LOG_NAMES = {
    "debug",
    "info",
    "warning",
    "error",
    "assertion",
    "top_debug",
    "top_info",
    "top_warning",
    "top_error",
    "top_assertion",
    "log",
    "top_log",
    "emit",
    "top_emit",
}
RELATION_NAMES = {
    "schedule_before",
    "add_conflict",
    "simultaneous",
    "simultaneous_alternatives",
    "_independent",
    "provide",
}
CTOR_NAMES = {"Signal", "Array", "Method", "Methods", "Transaction", "TModule", "Module", "Memory", "View", "Const"}
CTOR_ATTRS = {"read_port", "write_port", "like"}
PURE_FUNCS = {
    "Cat",
    "Mux",
    "C",
    "Const",
    "len",
    "range",
    "zip",
    "enumerate",
    "reversed",
    "list",
    "tuple",
    "max",
    "min",
    "sum",
    "any",
    "all",
    "sorted",
    "isinstance",
    "int",
    "bool",
    "str",
    "repr",
    "dict",
    "set",
    "frozenset",
    "chain",
    "product",
    "exact_log2",
    "ceil_log2",
    "bits_for",
    "top_module",
}
LIST_MUTATORS = {"append", "extend", "add", "update", "insert"}


# ---------------------------------------------------------------------------
# facts


@dataclass
class Fact:
    seq: int
    frames: tuple
    site: str
    config: tuple = ()

    def guards(self) -> list:
        return [f for f in self.frames if f[0] not in ("for", "py")]


@dataclass
class HwAssign(Fact):
    domain: Term = ("c", None)
    lhs: Optional[Term] = None
    rhs: Optional[Term] = None
    via: str = "eq"
    fields: Optional[Term] = None
    module: str = "m"


@dataclass
class BodyDef(Fact):
    bodyid: int = 0
    kind: str = "method"  # method | transaction
    owner: Term = ("c", None)
    ready: Term = ("c", 1)
    out: Optional[Term] = None
    kwargs: dict = field(default_factory=dict)
    via: str = "def_method"
    binder: Optional[Term] = None  # def_methods index binder
    params: tuple = ()
    ret: Optional[Term] = None
    end_seq: int = 0
    kwargs_star: Optional[Term] = None


@dataclass
class MethodCall(Fact):
    callid: int = 0
    callee: Term = ("c", None)
    args: tuple = ()
    kwargs: tuple = ()
    enable: Optional[Term] = None


@dataclass
class Relation(Fact):
    kind: str = ""
    subject: Term = ("c", None)
    args: tuple = ()
    kwargs: tuple = ()


@dataclass
class Submodule(Fact):
    name: Term = ("c", None)
    value: Term = ("c", None)


@dataclass
class Effect(Fact):
    call: Term = ("c", None)


@dataclass
class Helper(Fact):
    call: Term = ("c", None)


@dataclass
class Store(Fact):
    target: Term = ("c", None)
    value: Term = ("c", None)
    aug: Optional[str] = None


@dataclass
class Raise(Fact):
    exc: Term = ("c", None)


@dataclass
class Return(Fact):
    value: Term = ("c", None)
    callid: Optional[int] = None  # None: return of the analysed function itself


@dataclass
class Jump(Fact):
    kind: str = ""  # break | continue


@dataclass
class Unmodelled(Fact):
    what: str = ""


@dataclass
class ObjInfo:
    oid: int
    ctor: Term
    site: str
    name: Optional[str]
    frames: tuple
    seq: int


@dataclass
class Closure:
    cid: int
    node: Any  # ast.Lambda | ast.FunctionDef
    scopes: list
    name: str


@dataclass
class Extraction:
    """Facts of one function under one static configuration."""

    func: FuncInfo
    config: tuple  # ((test term, bool), ...)
    facts: list
    objects: dict
    closures: dict
    returns: dict
    final_env: dict
    self_alias: dict
    vardefs: dict = field(default_factory=dict)
    loopdefs: dict = field(default_factory=dict)  # (name, loopid) -> (initial value, value at the end of the body)

    def vardef(self, t: Term) -> Optional[Term]:
        if t[0] == "v":
            return self.vardefs.get(t[2])
        return None

    def of(self, typ):
        return [f for f in self.facts if isinstance(f, typ)]

    @property
    def unmodelled(self):
        return self.of(Unmodelled)

    def obj(self, t: Term) -> Optional[ObjInfo]:
        if t[0] == "obj":
            return self.objects.get(t[1])
        return None


class _ReturnSignal(Exception):
    pass


# ---------------------------------------------------------------------------


class Chooser:
    """Replays / records the decisions taken at python-level `if`s."""

    def __init__(self, script: list[bool]):
        self.script = list(script)
        self.trace: list[tuple[Term, bool]] = []
        self.known: dict[Term, bool] = {}

    def decide(self, atom: Term) -> bool:
        if atom in self.known:
            return self.known[atom]
        k = len(self.trace)
        v = self.script[k] if k < len(self.script) else True
        self.trace.append((atom, v))
        self.known[atom] = v
        return v


class Extractor:
    def __init__(self, repo: Repo, func: FuncInfo, chooser: Chooser, *, inline_depth: int = MAX_INLINE_DEPTH):
        self.repo = repo
        self.func = func
        self.mi: ModuleInfo = func.module
        self.cls: Optional[ClassInfo] = func.cls
        self.chooser = chooser
        self.inline_depth = inline_depth
        self.facts: list[Fact] = []
        self.objects: dict[int, ObjInfo] = {}
        self.closures: dict[int, Closure] = {}
        self.returns: dict[int, list[Return]] = {}
        self.scopes: list[dict[str, Term]] = [{}]
        self.frames: list[tuple] = []
        self.seq = 0
        self.ids = 0
        self.module_vars: set[str] = set()
        self.self_alias: dict[str, Term] = {}
        self.inline_stack: list[Any] = []
        self.chains: dict[tuple[int, str], list[Term]] = {}
        self.switches: dict[int, dict] = {}
        self.call_ret_stack: list[Optional[int]] = [None]
        self.cur_site_node: Optional[ast.AST] = None
        self.bind_depth: dict = {}
        self.vardefs: dict[int, Term] = {}
        self.loopdefs: dict = {}
        self.enter_closures: set = set()

    # -- utilities -------------------------------------------------------
    def fresh(self) -> int:
        self.ids += 1
        return self.ids

    def site(self, node: Optional[ast.AST] = None) -> str:
        node = node or self.cur_site_node
        return f"{self.mi.relpath}:{getattr(node, 'lineno', 0)}"

    def emit(self, cls, node, **kw):
        self.seq += 1
        f = cls(seq=self.seq, frames=tuple(self.frames), site=self.site(node), **kw)
        self.facts.append(f)
        return f

    def lookup(self, name: str) -> Optional[Term]:
        for sc in reversed(self.scopes):
            if name in sc:
                return sc[name]
        return None

    def bind(self, name: str, value: Term):
        self.scopes[-1][name] = value
        self.bind_depth[(id(self.scopes[-1]), name)] = self._for_depth()

    def _for_depth(self) -> int:
        return sum(1 for f in self.frames if f[0] == "for")

    def _foldable(self, name: str) -> bool:
        """A local container may be folded into the environment only at the loop depth it was bound at."""
        for sc in reversed(self.scopes):
            if name in sc:
                return self.bind_depth.get((id(sc), name), 0) == self._for_depth() and not self.inline_stack_changed(sc)
        return False

    def inline_stack_changed(self, sc) -> bool:
        return False

    def _escape(self, name: str, cur: Term, node) -> Term:
        """Give a mutated local container an identity."""
        if cur[0] == "obj":
            return cur
        oid = self.fresh()
        self.objects[oid] = ObjInfo(oid, cur, self.site(node), name, tuple(self.frames), self.seq)
        val = ("obj", oid)
        for sc in reversed(self.scopes):
            if name in sc:
                sc[name] = val
                break
        return val

    def is_module(self, t: Term) -> bool:
        return t[0] == "n" and t[1] in self.module_vars or (t[0] == "obj" and self._obj_is_module(t[1]))

    def _obj_is_module(self, oid: int) -> bool:
        o = self.objects.get(oid)
        if o is None:
            return False
        c = o.ctor
        return c[0] == "call" and c[1][0] == "n" and c[1][1] in ("TModule", "Module")

    # -- running a function ------------------------------------------------
    def run(self, bindings: Optional[dict[str, Term]] = None) -> "Extraction":
        node = self.func.node
        self._bind_params(node, bindings or {}, self.func.qualname)
        try:
            self.walk_body(node.body)
        except _ReturnSignal:
            pass
        self._inline_single_use()
        return Extraction(
            self.func,
            tuple(self.chooser.trace),
            self.facts,
            self.objects,
            self.closures,
            self.returns,
            dict(self.scopes[0]),
            dict(self.self_alias),
            dict(self.vardefs),
            dict(self.loopdefs),
        )

    def _inline_single_use(self):
        """`x = f(..)` followed by exactly one use of `x` is the same program as the use with `f(..)` written in
        place: a named call result that occurs once in the facts is replaced by its definition, so that introducing
        (or inlining) a local for a sub-expression does not change the facts.  Kept opaque: state-changing calls
        (pop/next: every call is its own value) and definitions that occur more than once (two textually equal
        calls must stay two values)."""
        import dataclasses
        from collections import Counter
        from .term import subst

        if not self.vardefs:
            return
        defcount = Counter(self.vardefs.values())
        cand = {}
        for vid, d in self.vardefs.items():
            if defcount[d] != 1 or d[0] != "call":
                continue
            f = d[1]
            if (f[0] == "a" and f[2] in ("pop", "popleft", "popitem")) or f == ("n", "next"):
                continue
            cand[vid] = d
        if not cand:
            return
        uses: Counter = Counter()

        def scan(x):
            if isinstance(x, tuple):
                for s in subterms(x):
                    if s[0] == "v" and len(s) == 3 and s[2] in cand:
                        uses[s] += 1
            elif isinstance(x, dict):
                for v in x.values():
                    scan(v)
            elif isinstance(x, list):
                for v in x:
                    scan(v)

        seen = set()
        holders = []
        for f in list(self.facts) + [r for rs in self.returns.values() for r in rs]:
            if id(f) in seen:
                continue
            seen.add(id(f))
            holders.append(f)
            for fld in dataclasses.fields(f):
                scan(getattr(f, fld.name))
        for o in self.objects.values():
            scan(o.ctor)
            scan(o.frames)
        for d in self.vardefs.values():
            scan(d)
        for d in self.loopdefs.values():
            scan(d)
        for d in self.chooser.trace:  # a value a static decision was taken on stays named (the configuration refers to it)
            scan(d)
            scan(d)
        mapping = {v: cand[v[2]] for v, n in uses.items() if n == 1}
        if not mapping:
            return
        for _ in range(4):  # definitions nested in definitions
            mapping = {k: subst(d, mapping) for k, d in mapping.items()}

        def sub(x):
            if isinstance(x, tuple):
                return subst(x, mapping)
            if isinstance(x, dict):
                return {k: sub(v) for k, v in x.items()}
            if isinstance(x, list):
                return [sub(v) for v in x]
            return x

        for f in holders:
            for fld in dataclasses.fields(f):
                old = getattr(f, fld.name)
                new = sub(old)
                if new != old:
                    setattr(f, fld.name, new)
        for o in self.objects.values():
            o.ctor = sub(o.ctor)
            o.frames = sub(o.frames)
        for vid in list(self.vardefs):
            self.vardefs[vid] = sub(self.vardefs[vid])
        for k in list(self.loopdefs):
            self.loopdefs[k] = sub(self.loopdefs[k])
        for sc in self.scopes[:1]:
            for k in list(sc):
                sc[k] = sub(sc[k])

    def _bind_params(self, node, bindings: dict[str, Term], fname: str):
        args = node.args
        allargs = list(args.posonlyargs) + list(args.args)
        for idx, a in enumerate(allargs):
            if a.arg in bindings:
                self.bind(a.arg, bindings[a.arg])
            elif idx == 0 and a.arg == "self" and self.cls is not None:
                self.bind("self", ("self",))
            else:
                self.bind(a.arg, ("p", fname, idx, a.arg))
            ann = ast.unparse(a.annotation) if a.annotation is not None else ""
            if a.arg == "m" or ann in ("TModule", "Module", "ModuleLike"):
                if a.arg not in bindings:
                    self.module_vars.add(a.arg)
                    self.bind(a.arg, ("n", a.arg))
        for idx, a in enumerate(args.kwonlyargs):
            self.bind(a.arg, bindings.get(a.arg, ("p", fname, f"kw:{a.arg}", a.arg)))
        if args.vararg:
            self.bind(args.vararg.arg, bindings.get(args.vararg.arg, ("p", fname, "*", args.vararg.arg)))
        if args.kwarg:
            self.bind(args.kwarg.arg, bindings.get(args.kwarg.arg, ("p", fname, "**", args.kwarg.arg)))

    # -- statements ----------------------------------------------------------
    def walk_body(self, stmts):
        # `if c: ...; continue` (no else) makes the rest of the block run only when c is false: the rest is walked under the
        # frame the else-arm would have had, so that an effect after the skip does not look unconditional
        pushed = 0
        stmts = _fold_append_loops(stmts)
        try:
            for s in stmts:
                self.walk_stmt(s)
                last = getattr(self, "_last_if", None)
                if (isinstance(s, ast.If) and not s.orelse and s.body and isinstance(s.body[-1], (ast.Continue, ast.Break))
                        and last is not None and last[0] is s and not last[3]):
                    self.frames.append(("py", last[1], last[2], "skip", s.lineno))
                    pushed += 1
        finally:
            for _ in range(pushed):
                self.frames.pop()

    def walk_stmt(self, s: ast.stmt):
        self.cur_site_node = s
        meth = getattr(self, "st_" + type(s).__name__, None)
        if meth is None:
            self.emit(Unmodelled, s, what=type(s).__name__)
            return
        meth(s)

    def st_Pass(self, s):
        pass

    def st_Global(self, s):
        pass

    def st_Nonlocal(self, s):
        pass

    def st_Import(self, s):
        pass

    def st_ImportFrom(self, s):
        pass

    def st_Assert(self, s):
        pass

    def st_Delete(self, s):
        for t in s.targets:
            if isinstance(t, ast.Subscript):
                self.emit(Effect, s, call=("call", ("n", "del"), (index(self.ev(t.value), self.ev_slice(t.slice)),), ()))
            elif isinstance(t, ast.Attribute):
                self.emit(Effect, s, call=("call", ("n", "del"), (attr(self.ev(t.value), t.attr),), ()))
            else:
                self.emit(Unmodelled, s, what="Delete")

    def st_Expr(self, s):
        v = s.value
        if isinstance(v, ast.Constant):
            return
        if isinstance(v, (ast.Yield, ast.YieldFrom)):
            val = self.ev(v.value) if v.value is not None else C(None)
            self.emit(Effect, s, call=("call", ("n", "yield"), (val,), ()))
            return
        if isinstance(v, ast.Await):
            val = self.ev(v.value)
            self.emit(Effect, s, call=("call", ("n", "await"), (val,), ()))
            return
        if isinstance(v, ast.Call):
            self.ev_call(v, stmt_level=True)
            return
        self.ev(v)

    def st_Return(self, s):
        val = self.ev(s.value) if s.value is not None else C(None)
        callid = self.call_ret_stack[-1]
        r = self.emit(Return, s, value=val, callid=callid)
        if callid is not None:
            self.returns.setdefault(callid, []).append(r)
        raise _ReturnSignal()

    def st_Raise(self, s):
        exc = self.ev(s.exc) if s.exc is not None else C(None)
        self.emit(Raise, s, exc=exc)
        raise _ReturnSignal()

    def st_AnnAssign(self, s):
        if s.value is None:
            return
        val = self.ev(s.value, name_hint=self._name_hint(s.target))
        self.assign_target(s.target, val, s)

    def st_Assign(self, s):
        hint = None
        for t in s.targets:
            hint = hint or self._name_hint(t)
        before = self.ids
        val = self.ev(s.value, name_hint=hint)
        if isinstance(s.value, (ast.Await, ast.Yield, ast.YieldFrom)):
            # a suspension point whose result is kept: recorded as an effect (its position among the other effects matters)
            self.emit(Effect, s, call=val)
        val = self._wrap_collection(val, before, hint, s)
        # plain names first: if the value becomes a named variable, the other targets (m.submodules.x = x = ...) see it
        names = [t for t in s.targets if isinstance(t, ast.Name)]
        for t in names:
            self.assign_target(t, val, s)
            bound = self.lookup(t.id)
            if bound is not None and bound[0] in ("v", "obj"):
                val = bound
        for t in s.targets:
            if not isinstance(t, ast.Name):
                self.assign_target(t, val, s)

    def _wrap_collection(self, val: Term, before: int, hint, s) -> Term:
        """A list / comprehension whose elements are freshly created objects becomes one
        collection object, so that later terms stay small (`ports[i]` instead of the comprehension)."""
        if val[0] in ("lc", "list") or (val[0] == "call" and val[1] == ("n", "Array")):
            fresh_obj = any(x[0] == "obj" and x[1] > before for x in subterms(val))
            if fresh_obj:
                oid = self.fresh()
                self.objects[oid] = ObjInfo(oid, val, self.site(s), hint, tuple(self.frames), self.seq)
                return ("obj", oid)
        return val

    def _name_hint(self, t) -> Optional[str]:
        if isinstance(t, ast.Name):
            return t.id
        if isinstance(t, ast.Attribute) and isinstance(t.value, ast.Name) and t.value.id == "self":
            return "self." + t.attr
        return None

    def _opaque_call(self, val: Term) -> bool:
        """Call results that are not substituted into later terms (kept as a named variable)."""
        if val[0] != "call" or _container_ctor(val):
            return False
        f = val[1]
        if f[0] == "n" and (f[1] in PURE_FUNCS or f[1] in ("Signal", "View")):
            return False
        if f[0] == "a" and f[2] in ("any", "all", "bool", "eq", "as_value", "as_unsigned", "as_signed", "bit_select",
                                   "word_select", "replicate", "shape", "items", "keys", "values", "get"):
            return False
        if f[0] == "a" and f[1][0] == "n" and f[1][1] in ("OneHotMux",):
            return False
        return True

    def assign_target(self, t, val: Term, s):
        if isinstance(t, ast.Name):
            if _container_ctor(val):
                oid = self.fresh()
                self.objects[oid] = ObjInfo(oid, val, self.site(s), t.id, tuple(self.frames), self.seq)
                val = ("obj", oid)
            if self._opaque_call(val):
                vid = self.fresh()
                self.vardefs[vid] = val
                val = ("v", t.id, vid)
            self.bind(t.id, val)
            if self._is_module_value(val):
                self.module_vars.add(t.id)
                self.bind(t.id, ("n", t.id))
        elif isinstance(t, (ast.Tuple, ast.List)):
            if val[0] == "call" and ((val[1][0] == "a" and val[1][2] in ("pop", "popleft", "popitem")) or val[1] == ("n", "next")):
                # a state-changing call: two textually equal calls return different values -> one identity per call
                vid = self.fresh()
                self.vardefs[vid] = val
                val = ("v", "_".join(e.id for e in t.elts if isinstance(e, ast.Name)) or "unpacked", vid)
            star = [k for k, e in enumerate(t.elts) if isinstance(e, ast.Starred)]
            for k, e in enumerate(t.elts):
                if isinstance(e, ast.Starred):
                    after = len(t.elts) - 1 - k
                    self.assign_target(e.value, ("i", val, ("slice", C(k), C(-after) if after else C(None), C(None))), s)
                elif val[0] in ("tuple", "list") and len(val) - 1 == len(t.elts) and not star:
                    self.assign_target(e, val[1 + k], s)
                elif star and k > star[0]:
                    self.assign_target(e, index(val, C(k - len(t.elts))), s)  # counted from the end
                else:
                    self.assign_target(e, index(val, C(k)), s)
        elif isinstance(t, ast.Attribute):
            base = self.ev(t.value)
            # m.submodules.x = ...
            if base[0] == "a" and base[2] == "submodules" and self.is_module(base[1]):
                self.emit(Submodule, s, name=C(t.attr), value=val)
                return
            if base == ("self",) and val[0] == "obj":
                self.self_alias[t.attr] = val
            self.emit(Store, s, target=attr(base, t.attr), value=val)
        elif isinstance(t, ast.Subscript):
            base = self.ev(t.value)
            idx = self.ev_slice(t.slice)
            if base[0] == "a" and base[2] == "submodules" and self.is_module(base[1]):
                self.emit(Submodule, s, name=idx, value=val)
                return
            # local dict / list updates are folded into the environment
            if isinstance(t.value, ast.Name) and (base[0] in ("dict", "list") or _container_ctor(base)):
                if base[0] == "dict" and self._foldable(t.value.id):
                    items = tuple(kv for kv in base[1] if kv[0] != idx) + ((idx, val),)
                    self.rebind(t.value.id, ("dict", items))
                    return
                base = self._escape(t.value.id, base, s)
            elif isinstance(t.value, ast.Name) and base[0] in ("op", "lc", "call") and self.lookup(t.value.id) == base:
                # a local list built by an expression ([None] * n, a comprehension, x.copy()) and then mutated:
                # give it an identity so that two such lists with equal initial values stay distinct
                base = self._escape(t.value.id, base, s)
            self.emit(Store, s, target=index(base, idx), value=val)
        else:
            self.emit(Unmodelled, s, what="assign target " + type(t).__name__)

    def rebind(self, name: str, val: Term):
        for sc in reversed(self.scopes):
            if name in sc:
                sc[name] = val
                return
        self.bind(name, val)

    def _is_module_value(self, val: Term) -> bool:
        return val[0] == "obj" and self._obj_is_module(val[1])

    def st_AugAssign(self, s):
        t = s.target
        # m.d.<dom> += ...   /  m.d[dom] += ...
        dom = self._domain_of(t)
        if dom is not None:
            self.hw_statements(s.value, dom[0], dom[1], s)
            return
        if isinstance(t, ast.Attribute) and t.attr == "submodules":
            base = self.ev(t.value)
            if self.is_module(base):
                self.emit(Submodule, s, name=C(None), value=self.ev(s.value))
                return
        val = self.ev(s.value)
        opname = _BINOPS.get(type(s.op), "?")
        if isinstance(t, ast.Name):
            old = self.lookup(t.id) or ("n", t.id)
            if opname == "+" and old[0] == "list" and val[0] == "list":
                self.rebind(t.id, old + val[1:])
            elif opname == "+" and old[0] == "list":
                self.rebind(t.id, old + (("star", val),))
            else:
                self.rebind(t.id, mk_op(opname, old, val))
            if self._in_loop():
                self._loop_mutated(t.id)
        else:
            tgt = self.ev(t)
            self.emit(Store, s, target=tgt, value=val, aug=opname)

    def _in_loop(self) -> bool:
        return any(f[0] == "for" for f in self.frames)

    def _loop_mutated(self, name: str):
        pass

    def _domain_of(self, t) -> Optional[tuple[str, Term]]:
        """(module var, domain term) if `t` is m.d.X or m.d[X]."""
        if isinstance(t, ast.Attribute):
            b = t.value
            if isinstance(b, ast.Attribute) and b.attr == "d":
                base = self.ev(b.value)
                if self.is_module(base) or (base[0] == "a" and base[2] in ("main_module", "avoiding_module")):
                    return (tstr(base), C(t.attr))
                if base[0] == "call" and base[1] == ("n", "top_module"):
                    # the top module's comb domain is the ungated `top_comb`; any other domain of it keeps its name
                    return ("top", C("top_comb") if t.attr == "comb" else C(t.attr))
        if isinstance(t, ast.Subscript):
            b = t.value
            if isinstance(b, ast.Attribute) and b.attr == "d":
                base = self.ev(b.value)
                if self.is_module(base) or (base[0] == "a" and base[2] in ("main_module", "avoiding_module")):
                    return (tstr(base), self.ev_slice(t.slice))
        return None

    def hw_statements(self, v: ast.expr, module: str, dom: Term, s):
        if isinstance(v, (ast.List, ast.Tuple)):
            for e in v.elts:
                self.hw_statements(e, module, dom, s)
            return
        if isinstance(v, (ast.ListComp, ast.GeneratorExp)):
            pushed = self._push_generators(v.generators)
            try:
                self.hw_statements(v.elt, module, dom, s)
            finally:
                self._pop_generators(pushed)
            return
        if isinstance(v, ast.Starred):
            self.hw_statements(v.value, module, dom, s)
            return
        if isinstance(v, ast.Call):
            f = v.func
            if isinstance(f, ast.Attribute) and f.attr == "eq" and len(v.args) == 1:
                lhs = self.ev(f.value)
                rhs = self.ev(v.args[0])
                self.emit(HwAssign, v, domain=dom, lhs=lhs, rhs=rhs, via="eq", module=module)
                return
            if isinstance(f, ast.Name) and f.id == "assign" and len(v.args) >= 2:
                lhs = self.ev(v.args[0])
                rhs = self.ev(v.args[1])
                fields = None
                for kw in v.keywords:
                    if kw.arg == "fields":
                        fields = self.ev(kw.value)
                if len(v.args) > 2:
                    fields = self.ev(v.args[2])
                self.emit(HwAssign, v, domain=dom, lhs=lhs, rhs=rhs, via="assign", fields=fields, module=module)
                return
        if isinstance(v, ast.Name):
            val = self.lookup(v.id)
            if val is not None and val[0] == "list":
                for item in val[1:]:
                    self.emit(HwAssign, v, domain=dom, lhs=None, rhs=item, via="opaque", module=module)
                return
        val = self.ev(v)
        self.emit(HwAssign, v, domain=dom, lhs=None, rhs=val, via="opaque", module=module)

    # -- control ----------------------------------------------------------------
    def st_If(self, s):
        decision = self.static_test(s.test)
        test_term = self.ev(s.test)
        # `if not c` is recorded as the negative arm of `c` (frames carry the un-negated test)
        flip = False
        while test_term[0] == "op" and test_term[1] == "not":
            test_term, flip = test_term[2], not flip
        if decision:
            self.frames.append(("py", test_term, not flip))
            try:
                self.walk_body(s.body)
            finally:
                self.frames.pop()
        else:
            self.frames.append(("py", test_term, flip))
            try:
                self.walk_body(s.orelse)
            finally:
                self.frames.pop()
        self._last_if = (s, test_term, flip, decision)

    def static_test(self, e: ast.expr) -> bool:
        """Decide a python-level test in this configuration."""
        if isinstance(e, ast.BoolOp):
            if isinstance(e.op, ast.And):
                for v in e.values:
                    if not self.static_test(v):
                        return False
                return True
            for v in e.values:
                if self.static_test(v):
                    return True
            return False
        if isinstance(e, ast.UnaryOp) and isinstance(e.op, ast.Not):
            return not self.static_test(e.operand)
        t = self.ev(e)
        return self._decide_term(t)

    def _decide_term(self, t: Term) -> bool:
        known = self._concrete_truth(t)
        if known is not None:
            return known
        if t[0] == "op" and t[1] == "not":
            return not self._decide_term(t[2])
        if t[0] == "op" and t[1] == "and":
            for x in t[2:]:
                if not self._decide_term(x):
                    return False
            return True
        if t[0] == "op" and t[1] == "or":
            for x in t[2:]:
                if self._decide_term(x):
                    return True
            return False
        pol = True
        if t[0] == "op" and t[1] == "not":
            t, pol = t[2], False
        if t[0] == "op" and t[1] == "!=":
            t, pol = mk_op("==", *t[2:]), not pol
        v = self.chooser.decide(t)
        return v if pol else not v

    def _concrete_truth(self, t: Term) -> Optional[bool]:
        k = t[0]
        if k == "c":
            return bool(t[1])
        if k in ("list", "tuple", "set"):
            if any(x[0] == "star" for x in t[1:]):
                return None
            return len(t) > 1
        if k == "dict":
            return len(t[1]) > 0
        if k == "op":
            o = t[1]
            if o == "not":
                r = self._concrete_truth(t[2])
                return None if r is None else not r
            if o == "is" and len(t) == 4:
                a, b = t[2], t[3]
                if a[0] == "c" and b[0] == "c":
                    return a[1] is b[1] or (a[1] == b[1] and type(a[1]) is type(b[1]))
                for x, y in ((a, b), (b, a)):
                    if x == ("c", None) and y[0] in ("obj", "list", "tuple", "dict", "lam", "call", "lc", "op", "arg"):
                        return False
                return None
            if o in ("==", "!=", "<", "<=") and len(t) == 4 and t[2][0] == "c" and t[3][0] == "c":
                a, b = t[2][1], t[3][1]
                try:
                    return {"==": a == b, "!=": a != b, "<": a < b, "<=": a <= b}[o]
                except TypeError:
                    return None
            if o == "in" and t[3][0] == "dict":
                keys = [kv[0] for kv in t[3][1]]
                if t[2][0] == "c" and all(kk[0] == "c" for kk in keys):
                    return t[2] in keys
        if k == "lam":
            return True
        if k == "obj":
            o = self.objects.get(t[1])
            if o is not None and o.ctor[0] == "call" and not _container_ctor(o.ctor) and o.ctor[1] != ("n", "Array"):
                return True  # a hardware / component object (not a python container whose emptiness matters)
        return None

    def st_For(self, s):
        it = self.ev(s.iter)
        loopid = self.fresh()
        # loop-carried variables: a name that is bound before the loop and re-assigned inside it holds, at the top of
        # an iteration, either its initial value or the value of an earlier iteration -> opaque inside and after
        carried = [n for n in _assigned_names(s.body) if self.lookup(n) is not None and n not in self.module_vars]
        inits = {n: self.lookup(n) for n in carried}
        for n in carried:
            self.rebind(n, ("loopvar", n, loopid))
        binders = self._bind_loop_target(s.target, it, loopid)
        self.frames.append(("for", tuple(binders), it, loopid))
        try:
            try:
                self.walk_body(s.body)
            except _ReturnSignal:
                pass  # return/raise inside a loop: remaining iterations are not modelled as exits
        finally:
            self.frames.pop()
        for n in carried:
            # the recurrence of the carried name: x0 = initial value, x' = value at the end of one iteration (exact only
            # when the body assigns it unconditionally; rules that use it check that themselves)
            self.loopdefs[(n, loopid)] = (inits[n], self.lookup(n))
            self.rebind(n, ("loopvar", n, loopid))
        if s.orelse:
            self.walk_body(s.orelse)

    st_AsyncFor = st_For

    def _bind_loop_target(self, target, it: Term, loopid: int) -> list[Term]:
        """Binds the loop target; normalises enumerate/zip to a shared index binder."""
        binders: list[Term] = []

        def callee(t):
            return t[1][1] if t[0] == "call" and t[1][0] == "n" else None

        c = callee(it)
        if c == "enumerate" and isinstance(target, (ast.Tuple, ast.List)) and len(target.elts) == 2 and len(it[2]) == 1:
            seq = it[2][0]
            b = ("b", loopid, ("call", ("n", "range"), (("call", ("n", "len"), (seq,), ()),), ()))
            binders.append(b)
            self._assign_pattern(target.elts[0], b)
            self._bind_elem(target.elts[1], seq, b, loopid, binders)
            return binders
        if c == "zip" and isinstance(target, (ast.Tuple, ast.List)) and len(target.elts) == len(it[2]):
            b = ("b", loopid, ("call", ("n", "range"), (("call", ("n", "len"), (it[2][0],), ()),), ()))
            binders.append(b)
            for e, seq in zip(target.elts, it[2]):
                self._bind_elem(e, seq, b, loopid, binders)
            return binders
        b = ("b", loopid, it)
        binders.append(b)
        self._assign_pattern(target, b)
        return binders

    def _bind_elem(self, target, seq: Term, b: Term, loopid: int, binders: list):
        """target := seq[b] (seq may itself be enumerate/zip)."""
        if seq[0] == "call" and seq[1] == ("n", "zip") and isinstance(target, (ast.Tuple, ast.List)):
            for e, sq in zip(target.elts, seq[2]):
                self._bind_elem(e, sq, b, loopid, binders)
            return
        if seq[0] == "call" and seq[1] == ("n", "enumerate") and isinstance(target, (ast.Tuple, ast.List)):
            self._assign_pattern(target.elts[0], b)
            self._bind_elem(target.elts[1], seq[2][0], b, loopid, binders)
            return
        self._assign_pattern(target, self._index_term(seq, b))

    def _index_term(self, seq: Term, b: Term) -> Term:
        if seq[0] == "call" and seq[1] == ("n", "range") and len(seq[2]) == 1:
            return b
        if seq[0] == "lc" and len(seq[3]) == 1 and not seq[3][0][2]:
            # [f(x) for x in xs][b]  ->  f(xs[b])
            inner_b, inner_it, _ = seq[3][0]
            from .term import subst

            return subst(seq[2], {inner_b: self._index_term(inner_it, b)})
        return index(seq, b)

    def _assign_pattern(self, target, val: Term):
        if isinstance(target, ast.Name):
            self.bind(target.id, val)
        elif isinstance(target, (ast.Tuple, ast.List)):
            star = [k for k, e in enumerate(target.elts) if isinstance(e, ast.Starred)]
            for k, e in enumerate(target.elts):
                if isinstance(e, ast.Starred):
                    after = len(target.elts) - 1 - k
                    self._assign_pattern(e.value, ("i", val, ("slice", C(k), C(-after) if after else C(None), C(None))))
                elif star and k > star[0]:
                    self._assign_pattern(e, index(val, C(k - len(target.elts))))  # counted from the end
                else:
                    self._assign_pattern(e, index(val, C(k)))
        elif isinstance(target, ast.Starred):
            self._assign_pattern(target.value, val)

    def st_While(self, s):
        """`while` at generation level: the body is walked once under a ('while', test) frame; names assigned in
        the body are loop-carried (opaque inside and after).  Hardware generators that build structures with a
        while loop (StableSelectingNetwork) stay marked as not fully modelled."""
        loopid = self.fresh()
        carried = [n for n in _assigned_names(s.body) if self.lookup(n) is not None and n not in self.module_vars]
        inits = {n: self.lookup(n) for n in carried}
        for n in carried:
            self.rebind(n, ("loopvar", n, loopid))
        test = self.ev(s.test)
        self.loopdefs[("while", loopid)] = (test, None)
        if any(isinstance(n, ast.AugAssign) and _looks_like_domain(n.target) for st in s.body for n in ast.walk(st)):
            self.emit(Unmodelled, s, what="While")  # hardware emitted inside a while loop: iteration structure unknown
        self.frames.append(("while", test, loopid))
        try:
            try:
                self.walk_body(s.body)
            except _ReturnSignal:
                pass
        finally:
            self.frames.pop()
        for n in carried:
            self.loopdefs[(n, loopid)] = (inits[n], self.lookup(n))
            self.rebind(n, ("loopvar", n, loopid))
        if s.orelse:
            self.walk_body(s.orelse)

    def st_Continue(self, s):
        self.emit(Jump, s, kind="continue")
        raise _ReturnSignal()

    def st_Break(self, s):
        self.emit(Jump, s, kind="break")
        raise _ReturnSignal()

    def st_Try(self, s):
        # with handlers: two kinds of static configuration - the body completes (then `else`), or an exception is caught
        # by one of the handlers (then only that handler's body is walked, under an ('except', type) frame; the partial
        # effects of the interrupted body are not modelled)
        normal = True
        if s.handlers:
            normal = self.chooser.decide(("call", ("n", "__completes__"), (C(s.lineno),), ()))
        if normal:
            self.frames.append(("try",))
            try:
                self.walk_body(s.body)
            finally:
                self.frames.pop()
            if s.orelse:
                self.walk_body(s.orelse)
        else:
            for k, h in enumerate(s.handlers):
                last = k == len(s.handlers) - 1
                if last or self.chooser.decide(("call", ("n", "__caught_by__"), (C(s.lineno), C(k)), ())):
                    typ = self.ev(h.type) if h.type is not None else C(None)
                    if h.name:
                        self.bind(h.name, ("n", h.name))
                    self.frames.append(("except", typ))
                    try:
                        self.walk_body(h.body)
                    finally:
                        self.frames.pop()
                    break
        if s.finalbody:
            self.frames.append(("finally",))
            try:
                self.walk_body(s.finalbody)
            finally:
                self.frames.pop()

    def st_Match(self, s):
        subj = self.ev(s.subject)
        prev: list[Term] = []
        def literal(t):
            return t[0] == "c" or (t[0] == "a" and t[1][0] == "n" and t[1][1][:1].isupper())

        for case in s.cases:
            pat = self._pattern_term(case.pattern)
            if literal(subj) and literal(pat) and case.guard is None:
                if subj != pat:
                    continue  # this arm cannot match a literal subject
                self.walk_body_catching(case.body)
                return
            self.frames.append(("match", subj, pat, tuple(prev)))
            try:
                try:
                    self.walk_body(case.body)
                except _ReturnSignal:
                    pass
            finally:
                self.frames.pop()
            prev.append(pat)

    def walk_body_catching(self, body):
        try:
            self.walk_body(body)
        except _ReturnSignal:
            pass

    def _pattern_term(self, p) -> Term:
        if isinstance(p, ast.MatchValue):
            return self.ev(p.value)
        if isinstance(p, ast.MatchSingleton):
            return C(p.value)
        if isinstance(p, ast.MatchAs) and p.pattern is None:
            return ("n", "_")
        if isinstance(p, ast.MatchOr):
            return ("tuple", *[self._pattern_term(x) for x in p.patterns])
        return ("unk", ast.unparse(p))

    def st_FunctionDef(self, s):
        # def_method / def_methods decorated local function = body definition
        for d in s.decorator_list:
            if isinstance(d, ast.Call) and isinstance(d.func, ast.Name) and d.func.id in ("def_method", "def_methods"):
                self.define_method_body(s, d)
                return
        cid = self.fresh()
        self.closures[cid] = Closure(cid, s, list(self.scopes), s.name)
        self.bind(s.name, ("lam", cid))
        # variables the closure rebinds (`nonlocal x`) may change at any later call: make them symbolic
        for n in ast.walk(s):
            if isinstance(n, ast.Nonlocal):
                for name in n.names:
                    if self.lookup(name) is not None:
                        self.rebind(name, ("n", name))
        if s.name in self.enter_closures and not self.inline_stack:
            # analyse the local function in the context of its definition, with symbolic parameters
            a = s.args
            names = [x.arg for x in a.posonlyargs + a.args]
            args = [("p", s.name, k, n) for k, n in enumerate(names)]
            call = ("call", ("lam", cid), tuple(args), ())
            self.inline_closure(self.closures[cid], args, {}, s, call, True, force=True)

    st_AsyncFunctionDef = st_FunctionDef

    def st_ClassDef(self, s):
        self.bind(s.name, ("n", s.name))

    # -- method bodies ---------------------------------------------------------
    def define_method_body(self, fn: ast.FunctionDef, deco: ast.Call):
        multi = deco.func.id == "def_methods"  # type: ignore[union-attr]
        args = [self.ev(a) for a in deco.args]
        kwargs: dict[str, Term] = {}
        star = None
        for kw in deco.keywords:
            if kw.arg is None:
                star = self.ev(kw.value)
                if star[0] == "dict":
                    for k, v in star[1]:
                        if k[0] == "c":
                            kwargs[k[1]] = v
                    star = None
            else:
                kwargs[kw.arg] = self.ev(kw.value)
        owner = args[1] if len(args) > 1 else kwargs.pop("method", kwargs.pop("methods", C(None)))
        ready = args[2] if len(args) > 2 else kwargs.pop("ready", None)
        bodyid = self.fresh()
        binder = None
        if multi:
            binder = ("b", bodyid, ("call", ("n", "range"), (("call", ("n", "len"), (owner,), ()),), ()))
            owner_t = index(owner, binder)
            if ready is not None:
                ready = self.apply(ready, [binder], {}, deco)
            else:
                ready = C(1)
        else:
            owner_t = owner
            if ready is None:
                ready = C(1)
        bd = self.emit(
            BodyDef,
            fn,
            bodyid=bodyid,
            kind="method",
            owner=owner_t,
            ready=ready,
            kwargs=kwargs,
            via=deco.func.id,  # type: ignore[union-attr]
            binder=binder,
            kwargs_star=star,
        )
        # bind parameters
        self.scopes.append({})
        params = []
        a = fn.args
        names = [x.arg for x in a.posonlyargs + a.args]
        if multi and names:
            self.bind(names[0], binder)  # type: ignore[arg-type]
            params.append(names[0])
            names = names[1:]
        argrec = ("arg", bodyid)
        if names == ["arg"]:
            self.bind("arg", argrec)
        else:
            for n in names:
                self.bind(n, attr(argrec, n))
        params.extend(names)
        if a.kwarg:
            self.bind(a.kwarg.arg, argrec)
        bd.params = tuple(params)
        for key in ("validate_arguments", "combiner"):
            v = kwargs.get(key)
            if v is not None and v[0] == "lam" and key == "validate_arguments":
                clo = self.closures[v[1]]
                ca = clo.node.args
                pn = [x.arg for x in ca.posonlyargs + ca.args]
                if pn == ["arg"]:
                    bound = {"arg": argrec}
                else:
                    bound = {n: attr(argrec, n) for n in pn}
                bd.kwargs["validate_term"] = self.apply(v, [], bound, deco)
        frames = [("body", bodyid)]
        if multi:
            frames.insert(0, ("for", (binder,), binder[2], bodyid))  # type: ignore[index]
        self.frames.extend(frames)
        self.call_ret_stack.append(-bodyid)
        try:
            try:
                self.walk_body(fn.body)
            except _ReturnSignal:
                pass
        finally:
            self.call_ret_stack.pop()
            for _ in frames:
                self.frames.pop()
            self.scopes.pop()
        rets = self.returns.get(-bodyid, [])
        if len(rets) == 1:
            bd.ret = rets[0].value
        elif len(rets) > 1:
            bd.ret = ("unk", "multiple returns")
        bd.end_seq = self.seq

    def st_With(self, s):
        self._with_items(s.items, s.body, s)

    st_AsyncWith = st_With

    def _with_items(self, items, body, s):
        if not items:
            self.walk_body(body)
            return
        item = items[0]
        npush = self._enter_with(item, s)
        try:
            self._with_items(items[1:], body, s)
        finally:
            for _ in range(npush[0]):
                self.frames.pop()
            if npush[1] is not None:
                npush[1]()

    def _enter_with(self, item: ast.withitem, s) -> tuple[int, Any]:
        ce = item.context_expr
        as_name = item.optional_vars
        level = len(self.frames)
        if isinstance(ce, ast.Call) and isinstance(ce.func, ast.Attribute):
            fattr = ce.func.attr
            base_node = ce.func.value
            base = self.ev(base_node)
            modlike = self.is_module(base) or (
                base[0] == "a" and base[2] in ("main_module", "avoiding_module", "top_module")
            )
            if modlike and fattr in ("If", "Elif", "Else", "AvoidedIf", "Switch", "Case", "Default", "FSM", "State"):
                mname = tstr(base)
                key = (level, mname)
                if fattr in ("If", "AvoidedIf"):
                    cond = self.ev(ce.args[0])
                    if fattr == "If":
                        self.chains[key] = [cond]
                        self.frames.append(("if", cond, mname))
                    else:
                        self.frames.append(("avoid", cond, mname))
                elif fattr == "Elif":
                    cond = self.ev(ce.args[0])
                    prev = tuple(self.chains.get(key, []))
                    self.chains.setdefault(key, []).append(cond)
                    self.frames.append(("elif", cond, prev, mname))
                elif fattr == "Else":
                    prev = tuple(self.chains.get(key, []))
                    self.frames.append(("else", prev, mname))
                elif fattr == "Switch":
                    swid = self.fresh()
                    self.switches[swid] = {"prev": []}
                    self.frames.append(("switch", self.ev(ce.args[0]), swid, mname))
                elif fattr in ("Case", "Default"):
                    sw = next((f for f in reversed(self.frames) if f[0] == "switch" and f[3] == mname), None)
                    swid = sw[2] if sw else 0
                    pats = tuple(self.ev(a) for a in ce.args)
                    prev = tuple(self.switches.get(swid, {"prev": []})["prev"])
                    self.switches.setdefault(swid, {"prev": []})["prev"].append(pats)
                    self.frames.append(("case" if fattr == "Case" else "default", swid, pats, prev, mname))
                elif fattr == "FSM":
                    fid = self.fresh()
                    self.frames.append(("fsm", fid, mname, tuple(self.ev(a) for a in ce.args)))
                    if as_name is not None and isinstance(as_name, ast.Name):
                        self.bind(as_name.id, ("ret", fid))
                elif fattr == "State":
                    fs = next((f for f in reversed(self.frames) if f[0] == "fsm" and f[2] == mname), None)
                    self.frames.append(("state", fs[1] if fs else 0, self.ev(ce.args[0]), mname))
                return (1, None)
            if fattr in ("body", "always_body") and ce.args and self._is_modulish_arg(ce.args[0]):
                return self._enter_body(ce, base, as_name, s)
            if fattr == "context" and ce.args and self._is_modulish_arg(ce.args[0]):
                self.frames.append(("with", self.ev(ce)))
                if as_name is not None:
                    self._assign_pattern(as_name, base)
                return (1, None)
        if isinstance(ce, ast.Call):
            f = self.ev(ce.func)
            # condition(m, ...) as branch
            if f == ("n", "condition"):
                cid = self.fresh()
                kw = {k.arg: self.ev(k.value) for k in ce.keywords if k.arg}
                self.frames.append(("cond", cid, tuple(sorted(kw.items()))))
                self.switches[cid] = {"n": 0, "prev": []}
                if as_name is not None and isinstance(as_name, ast.Name):
                    self.bind(as_name.id, ("branchfn", cid))
                return (1, None)
            if f[0] == "branchfn":
                cid = f[1]
                st = self.switches[cid]
                cond = self.ev(ce.args[0]) if ce.args else None
                for k in ce.keywords:
                    if k.arg == "cond":
                        cond = self.ev(k.value)
                self.frames.append(("branch", cid, st["n"], cond, tuple(st["prev"])))
                st["n"] += 1
                st["prev"].append(cond)
                return (1, None)
            if f[0] == "lam":
                # local context manager (generator with yield): inline up to the yield is not modelled;
                # keep an opaque frame carrying the call
                val = ("call", f, tuple(self.ev(a) for a in ce.args), tuple((k.arg, self.ev(k.value)) for k in ce.keywords))
                val = ("call", ("n", self.closures[f[1]].name), val[2], val[3])
                self.emit(Effect, s, call=("call", ("n", "with"), (val,), ()))
                self.frames.append(("with", val))
                if as_name is not None:
                    self._assign_pattern(as_name, ("ret", self.fresh()))
                return (1, None)
        val = self.ev(ce)
        self.emit(Effect, s, call=("call", ("n", "with"), (val,), ()))
        self.frames.append(("with", val))
        if as_name is not None:
            self._assign_pattern(as_name, ("a", val, "__enter__"))
        return (1, None)

    def _is_modulish_arg(self, a: ast.expr) -> bool:
        t = self.ev(a)
        return self.is_module(t) or t[0] == "p" and t[3] == "m"

    def _enter_body(self, ce: ast.Call, base: Term, as_name, s) -> tuple[int, Any]:
        bodyid = self.fresh()
        kwargs = {k.arg: self.ev(k.value) for k in ce.keywords if k.arg}
        star = None
        for k in ce.keywords:
            if k.arg is None:
                star = self.ev(k.value)
        ready = kwargs.pop("ready", C(1))
        out = kwargs.pop("out", None)
        kind = "unknown"
        o = self.objects.get(base[1]) if base[0] == "obj" else None
        if o is not None and o.ctor[0] == "call" and o.ctor[1] == ("n", "Transaction"):
            kind = "transaction"
        elif o is not None and o.ctor[0] == "call" and o.ctor[1][0] == "n" and o.ctor[1][1] in ("Method",):
            kind = "method"
        bd = self.emit(
            BodyDef,
            ce,
            bodyid=bodyid,
            kind=kind,
            owner=base,
            ready=ready,
            out=out,
            kwargs=kwargs,
            via=ce.func.attr,  # type: ignore[union-attr]
            kwargs_star=star,
        )
        self.frames.append(("body", bodyid))
        if as_name is not None:
            if kind == "transaction":
                self._assign_pattern(as_name, base)
            else:
                self._assign_pattern(as_name, ("arg", bodyid))

        def close():
            bd.end_seq = self.seq

        return (1, close)

    # -- expressions -----------------------------------------------------------
    def ev(self, e: Optional[ast.expr], name_hint: Optional[str] = None) -> Term:
        if e is None:
            return C(None)
        m = getattr(self, "ex_" + type(e).__name__, None)
        if m is None:
            return ("unk", ast.unparse(e)[:60])
        if isinstance(e, ast.Call) or isinstance(e, (ast.ListComp, ast.GeneratorExp, ast.SetComp, ast.DictComp)):
            return m(e, name_hint=name_hint)
        return m(e)

    def ex_Constant(self, e):
        return C(e.value)

    def ex_Name(self, e):
        v = self.lookup(e.id)
        if v is not None:
            return v
        if e.id == "self" and self.cls is not None:
            return ("self",)  # free `self` of a nested function
        return ("n", e.id)

    def ex_Attribute(self, e):
        base = self.ev(e.value)
        if base == ("self",) and e.attr in self.self_alias:
            return self.self_alias[e.attr]
        if base[0] == "dict" and e.attr in ("keys", "values", "items"):
            return attr(base, e.attr)
        return attr(base, e.attr)

    def ev_slice(self, sl) -> Term:
        if isinstance(sl, ast.Slice):
            return ("slice", self.ev(sl.lower), self.ev(sl.upper), self.ev(sl.step))
        return self.ev(sl)

    def ex_Subscript(self, e):
        base = self.ev(e.value)
        idx = self.ev_slice(e.slice)
        if base[0] == "dict":
            for k, v in base[1]:
                if k == idx:
                    return v
        if base[0] in ("list", "tuple") and idx[0] == "c" and isinstance(idx[1], int):
            items = base[1:]
            if not any(x[0] == "star" for x in items) and -len(items) <= idx[1] < len(items):
                return items[idx[1]]
        return index(base, idx)

    def ex_Starred(self, e):
        return ("star", self.ev(e.value))

    def ex_Tuple(self, e):
        return ("tuple", *[self.ev(x) for x in e.elts])

    def ex_List(self, e):
        return ("list", *[self.ev(x) for x in e.elts])

    def ex_Set(self, e):
        return ("set", *[self.ev(x) for x in e.elts])

    def ex_Dict(self, e):
        items = []
        for k, v in zip(e.keys, e.values):
            if k is None:
                inner = self.ev(v)
                if inner[0] == "dict":
                    items.extend(inner[1])
                else:
                    items.append((("star", C("**")), inner))
            else:
                items.append((self.ev(k), self.ev(v)))
        return ("dict", tuple(items))

    def ex_JoinedStr(self, e):
        parts = []
        for v in e.values:
            if isinstance(v, ast.Constant):
                parts.append(C(v.value))
            elif isinstance(v, ast.FormattedValue):
                parts.append(self.ev(v.value))
        return ("fstr", *parts)

    def ex_FormattedValue(self, e):
        return self.ev(e.value)

    def ex_UnaryOp(self, e):
        o = {ast.Invert: "~", ast.Not: "not", ast.USub: "neg", ast.UAdd: "pos"}[type(e.op)]
        v = self.ev(e.operand)
        if o == "neg" and v[0] == "c" and isinstance(v[1], (int, float)):
            return C(-v[1])
        if o == "not" and v[0] == "c":
            return C(not v[1])
        return mk_op(o, v)

    def ex_BinOp(self, e):
        o = _BINOPS.get(type(e.op), "?")
        a, b = self.ev(e.left), self.ev(e.right)
        if a[0] == "c" and b[0] == "c" and isinstance(a[1], int) and isinstance(b[1], int) and o in _FOLD:
            try:
                return C(_FOLD[o](a[1], b[1]))
            except Exception:
                pass
        if o == "+" and a[0] == "list" and b[0] == "list":
            return a + b[1:]
        if o == "+" and a[0] == "tuple" and b[0] == "tuple":
            return a + b[1:]
        if o == "|" and a[0] == "dict" and b[0] == "dict":
            return ("dict", a[1] + b[1])
        return mk_op(o, a, b)

    def ex_BoolOp(self, e):
        o = "and" if isinstance(e.op, ast.And) else "or"
        return mk_op(o, *[self.ev(v) for v in e.values])

    def ex_Compare(self, e):
        parts = []
        left = self.ev(e.left)
        for op, right in zip(e.ops, e.comparators):
            r = self.ev(right)
            o = _CMPOPS[type(op)]
            parts.append(mk_op(o, left, r))
            left = r
        return parts[0] if len(parts) == 1 else mk_op("and", *parts)

    def ex_IfExp(self, e):
        t = self.ev(e.test)
        known = self._concrete_truth(t)
        if known is True:
            return self.ev(e.body)
        if known is False:
            return self.ev(e.orelse)
        if not any(s[0] == "b" for s in subterms(t)):
            # a python conditional expression is always generation-level: decide it like an `if`
            return self.ev(e.body) if self._decide_term(t) else self.ev(e.orelse)
        body, orelse = self.ev(e.body), self.ev(e.orelse)
        while t[0] == "op" and t[1] == "not":  # (a if not c else b) is (b if c else a)
            t, body, orelse = t[2], orelse, body
        return ("ife", t, body, orelse)

    def ex_NamedExpr(self, e):
        v = self.ev(e.value)
        self.bind(e.target.id, v)
        return v

    def ex_Lambda(self, e):
        cid = self.fresh()
        self.closures[cid] = Closure(cid, e, list(self.scopes), "<lambda>")
        return ("lam", cid)

    def ex_Await(self, e):
        return ("call", ("n", "await"), (self.ev(e.value),), ())

    def ex_Yield(self, e):
        return ("call", ("n", "yield"), (self.ev(e.value),), ())

    def ex_YieldFrom(self, e):
        return ("call", ("n", "yield_from"), (self.ev(e.value),), ())

    # comprehensions
    def _push_generators(self, gens) -> list:
        pushed = []
        self.scopes.append({})
        for g in gens:
            it = self.ev(g.iter)
            loopid = self.fresh()
            binders = self._bind_loop_target(g.target, it, loopid)
            conds = tuple(self.ev(c) for c in g.ifs)
            self.frames.append(("for", tuple(binders), it, loopid))
            pushed.append((binders[0], it, conds))
            for c in conds:
                self.frames.append(("py", c, True))
                pushed.append(None)
        return pushed

    def _pop_generators(self, pushed):
        for _ in pushed:
            self.frames.pop()
        self.scopes.pop()

    def _comp(self, e, kind, name_hint=None):
        pushed = self._push_generators(e.generators)
        try:
            if kind == "dict":
                elt = ("tuple", self.ev(e.key), self.ev(e.value))
            else:
                elt = self.ev(e.elt, name_hint=name_hint)
        finally:
            self._pop_generators(pushed)
        gens = tuple(p for p in pushed if p is not None)
        return ("lc", kind, elt, gens)

    def ex_ListComp(self, e, name_hint=None):
        return self._comp(e, "list", name_hint)

    def ex_GeneratorExp(self, e, name_hint=None):
        return self._comp(e, "gen", name_hint)

    def ex_SetComp(self, e, name_hint=None):
        return self._comp(e, "set", name_hint)

    def ex_DictComp(self, e, name_hint=None):
        return self._comp(e, "dict", name_hint)

    # calls
    def ex_Call(self, e, name_hint=None):
        return self.ev_call(e, stmt_level=False, name_hint=name_hint)

    def ev_call(self, e: ast.Call, stmt_level: bool, name_hint: Optional[str] = None) -> Term:
        fnode = e.func
        f = self.ev(fnode)
        args = [self.ev(a) for a in e.args]
        kwargs = [(k.arg, self.ev(k.value)) for k in e.keywords]
        return self.apply(f, args, dict((k, v) for k, v in kwargs if k), e, star_kw=[v for k, v in kwargs if k is None],
                          stmt_level=stmt_level, name_hint=name_hint)

    def apply(self, f: Term, args: list, kwargs: dict, node, star_kw=(), stmt_level=False, name_hint=None) -> Term:
        kwt = tuple(sorted(kwargs.items())) + tuple((None, v) for v in star_kw)
        callterm = ("call", f, tuple(args), kwt)

        # closures: inline
        if f[0] == "lam":
            return self.inline_closure(self.closures[f[1]], args, kwargs, node, callterm, stmt_level)

        # self.helper(...) python-level method of the class: inline
        if f[0] == "a" and f[1] == ("self",) and self.cls is not None:
            fi = self.repo.find_method(self.cls, f[2])
            if fi is not None and not _is_property(fi.node) and f[2] != self.func.node.name and any(self.is_module(a) for a in args):
                if len(self.inline_stack) < self.inline_depth and fi.node not in self.inline_stack:
                    recv = [] if _is_static(fi.node) else [("self",)]
                    return self.inline_function(fi, recv + args, kwargs, node, callterm, stmt_level)

        # relations
        if f[0] == "a" and f[2] in RELATION_NAMES:
            self.emit(Relation, node, kind=f[2], subject=f[1], args=tuple(args), kwargs=kwt)
            return C(None)

        # constructor-like calls create objects
        if self._is_ctor(f):
            oid = self.fresh()
            self.objects[oid] = ObjInfo(oid, callterm, self.site(node), name_hint, tuple(self.frames), self.seq)
            return ("obj", oid)

        # calls that take the module as first argument
        if args and self.is_module(args[0]):
            if f[0] == "n":
                self.emit(Helper, node, call=callterm)
                return callterm if not stmt_level else C(None)
            if f[0] == "a" and f[2] in ("combiner", "connect"):
                self.emit(Helper, node, call=callterm)
                return callterm
            if f[0] == "a" and (f[2] in LOG_NAMES):
                self.emit(Helper, node, call=callterm)
                return C(None)
            if f[0] == "a" and f[1][0] == "n" and f[1][1][:1].isupper():
                # static helper of a class, e.g. OneHotMux.create(m, ...)
                self.emit(Helper, node, call=callterm)
                return callterm
            callid = self.fresh()
            enable = kwargs.get("enable_call")
            kws = tuple((k, v) for k, v in kwt if k != "enable_call")
            margs = tuple(args[1:])
            if (len(margs) == 1 and not kws and margs[0][0] == "dict" and margs[0][1]
                    and all(k[0] == "c" and isinstance(k[1], str) and k[1].isidentifier() for k, _ in margs[0][1])):
                # method(m, {"a": x, "b": y}) and method(m, a=x, b=y) are the same call: one spelling in the facts
                kws = tuple(sorted((k[1], v) for k, v in margs[0][1]))
                args = [args[0]]
            self.emit(MethodCall, node, callid=callid, callee=f, args=tuple(args[1:]), kwargs=kws, enable=enable)
            return ("ret", callid)

        # list / dict / set mutation of local containers folded into env
        if f[0] == "a" and f[2] in LIST_MUTATORS and isinstance(node, ast.Call):
            fn = node.func
            if isinstance(fn, ast.Attribute) and isinstance(fn.value, ast.Name):
                cur = self.lookup(fn.value.id)
                if cur is not None and cur[0] in ("list", "lc") and f[2] in ("append", "extend") and len(args) == 1:
                    if self._foldable(fn.value.id):
                        if cur[0] == "lc":
                            cur = ("list", ("star", cur))
                        if f[2] == "append":
                            new = cur + (args[0],)
                        elif args[0][0] in ("list", "tuple"):
                            new = cur + args[0][1:]
                        else:
                            new = cur + (("star", args[0]),)
                        self.rebind(fn.value.id, new)
                        if stmt_level:
                            self.emit(Effect, node, call=callterm)
                        return C(None)
                if cur is not None and (cur[0] in ("list", "dict", "set") or _container_ctor(cur)):
                    base = self._escape(fn.value.id, cur, node)
                    f = ("a", base, f[2])
                    callterm = ("call", f, tuple(args), kwt)

        if stmt_level:
            self.emit(Effect, node, call=callterm)
        return callterm

    def _loop_ids(self) -> tuple:
        return tuple(f[3] for f in self.frames if f[0] == "for")

    def _in_loop_since_def(self, name: str) -> bool:
        return self._in_loop()

    def _is_ctor(self, f: Term) -> bool:
        if f[0] == "n" and f[1] in CTOR_NAMES:
            return f[1] not in ("View", "Const")
        if f[0] == "a" and f[2] in CTOR_ATTRS:
            return True
        if f[0] == "a" and f[2] in ("Memory",):
            return True
        if f[0] == "n" and f[1][:1].isupper() and f[1] not in PURE_FUNCS and self.repo.find_class(f[1]) is not None:
            # instantiation of a repo class that is an Elaboratable/Component-like thing
            ci = self.repo.find_class(f[1])
            if ci is not None and any(
                b in ("Elaboratable", "Component") or b.endswith("Component") for c in self.repo.mro(ci) for b in c.bases
            ):
                return True
        if f[0] == "a" and f[1] == ("self",) and f[2] in ("memory_type", "fifoType"):
            return True
        return False

    def inline_closure(self, clo: Closure, args, kwargs, node, callterm, stmt_level, force: bool = False) -> Term:
        if len(self.inline_stack) >= self.inline_depth or clo.node in self.inline_stack or (_is_recursive(clo.node) and not force):
            callterm = ("call", ("n", clo.name), callterm[2], callterm[3])
            if stmt_level:
                self.emit(Effect, node, call=callterm)
            return callterm
        fnode = clo.node
        saved_scopes = self.scopes
        self.scopes = list(clo.scopes) + [{}]
        self.inline_stack.append(fnode)
        try:
            ok = self._bind_call_args(fnode.args, args, kwargs)
            if not ok:
                self.scopes = saved_scopes
                if stmt_level:
                    self.emit(Effect, node, call=callterm)
                return callterm
            if isinstance(fnode, ast.Lambda):
                return self.ev(fnode.body)
            return self._run_inlined(fnode.body, node)
        finally:
            self.inline_stack.pop()
            self.scopes = saved_scopes

    def inline_function(self, fi: FuncInfo, args, kwargs, node, callterm, stmt_level) -> Term:
        saved_scopes, saved_mi, saved_cls = self.scopes, self.mi, self.cls
        self.scopes = [{}]
        self.inline_stack.append(fi.node)
        try:
            ok = self._bind_call_args(fi.node.args, args, kwargs)
            if not ok:
                if stmt_level:
                    self.emit(Effect, node, call=callterm)
                return callterm
            # module parameter stays a module
            for a, v in zip(fi.node.args.args, args):
                if self.is_module(v) and v[0] == "n":
                    self.module_vars.add(a.arg)
                    self.bind(a.arg, ("n", a.arg))
            self.mi = fi.module
            return self._run_inlined(fi.node.body, node)
        finally:
            self.inline_stack.pop()
            self.scopes, self.mi, self.cls = saved_scopes, saved_mi, saved_cls

    def _run_inlined(self, body, node) -> Term:
        callid = self.fresh()
        self.call_ret_stack.append(callid)
        saved_site = self.cur_site_node
        nframes = len(self.frames)
        try:
            try:
                self.walk_body(body)
            except _ReturnSignal:
                pass
        finally:
            self.call_ret_stack.pop()
            del self.frames[nframes:]
            self.cur_site_node = saved_site
        rets = self.returns.get(callid, [])
        if not rets:
            return C(None)
        if len(rets) == 1 and len(rets[0].frames) <= nframes + 0:
            return rets[0].value
        if len(rets) == 1:
            # single return under (static) frames of this configuration
            extra = rets[0].frames[nframes:]
            if all(fr[0] in ("py", "match") for fr in extra):
                return rets[0].value
        return ("ret", callid)

    def _bind_call_args(self, a: ast.arguments, args, kwargs) -> bool:
        params = [x.arg for x in a.posonlyargs + a.args]
        defaults = a.defaults
        dmap = {}
        for p, d in zip(params[len(params) - len(defaults):], defaults):
            dmap[p] = d
        if any(x[0] == "star" for x in args):
            return False
        pos = list(args)
        if len(pos) > len(params) and not a.vararg:
            return False
        for k, p in enumerate(params):
            if k < len(pos):
                self.bind(p, pos[k])
            elif p in kwargs:
                self.bind(p, kwargs[p])
            elif p in dmap:
                self.bind(p, self.ev(dmap[p]))
            else:
                self.bind(p, ("n", p))
        if a.vararg:
            self.bind(a.vararg.arg, ("tuple", *pos[len(params):]))
        for p, d in zip(a.kwonlyargs, a.kw_defaults):
            if p.arg in kwargs:
                self.bind(p.arg, kwargs[p.arg])
            elif d is not None:
                self.bind(p.arg, self.ev(d))
            else:
                self.bind(p.arg, ("n", p.arg))
        if a.kwarg:
            known = set(params) | {p.arg for p in a.kwonlyargs}
            self.bind(a.kwarg.arg, ("dict", tuple((C(k), v) for k, v in kwargs.items() if k not in known)))
        return True


def _container_ctor(t: Term) -> bool:
    if t[0] != "call":
        return False
    f = t[1]
    if f[0] == "i":
        f = f[1]
    if f[0] != "n":
        return False
    if f[1] in ("defaultdict", "deque"):
        return True
    return f[1] in ("set", "dict", "list") and not t[2] and not t[3]


def _is_recursive(fn) -> bool:
    name = getattr(fn, "name", None)
    if name is None:
        return False
    for n in ast.walk(fn):
        if isinstance(n, ast.Call) and isinstance(n.func, ast.Name) and n.func.id == name:
            return True
    return False


def _append_loop_as_comprehension(name: str, loop) -> Optional[ast.ListComp]:
    """`for T in IT: [if C:] [for ..:] name.append(E)`  ->  `[E for T in IT if C ...]` (None when the loop is anything else)."""
    gens = []
    cur = loop
    while True:
        if not isinstance(cur, ast.For) or cur.orelse or len(cur.body) != 1:
            return None
        gen = ast.comprehension(target=cur.target, iter=cur.iter, ifs=[], is_async=0)
        gens.append(gen)
        inner = cur.body[0]
        while isinstance(inner, ast.If) and not inner.orelse and len(inner.body) == 1:
            gen.ifs.append(inner.test)
            inner = inner.body[0]
        if isinstance(inner, ast.For):
            cur = inner
            continue
        if (isinstance(inner, ast.Expr) and isinstance(inner.value, ast.Call) and isinstance(inner.value.func, ast.Attribute)
                and inner.value.func.attr == "append" and isinstance(inner.value.func.value, ast.Name) and inner.value.func.value.id == name
                and len(inner.value.args) == 1 and not inner.value.keywords and not isinstance(inner.value.args[0], ast.Starred)):
            elt = inner.value.args[0]
            break
        return None
    for g in gens:
        for part in [g.iter, g.target, *g.ifs]:
            if any(isinstance(n, ast.Name) and n.id == name for n in ast.walk(part)):
                return None
    if any(isinstance(n, ast.Name) and n.id == name for n in ast.walk(elt)):
        return None
    return ast.ListComp(elt=elt, generators=gens)


def _fold_append_loops(stmts):
    """`x = []` directly followed by a loop that only appends to x is the list comprehension with the same generators:
    both spellings give the same facts."""
    out = []
    i = 0
    changed = False
    while i < len(stmts):
        s = stmts[i]
        tgt = None
        if isinstance(s, ast.Assign) and len(s.targets) == 1 and isinstance(s.targets[0], ast.Name):
            tgt, val = s.targets[0], s.value
        elif isinstance(s, ast.AnnAssign) and isinstance(s.target, ast.Name) and s.value is not None:
            tgt, val = s.target, s.value
        if tgt is not None and isinstance(val, ast.List) and not val.elts and i + 1 < len(stmts):
            lc = _append_loop_as_comprehension(tgt.id, stmts[i + 1])
            if lc is not None:
                new = ast.Assign(targets=[ast.Name(id=tgt.id, ctx=ast.Store())], value=lc)
                ast.copy_location(new, stmts[i + 1])
                ast.copy_location(lc, stmts[i + 1])
                ast.fix_missing_locations(new)
                out.append(new)
                i += 2
                changed = True
                continue
        out.append(s)
        i += 1
    return out if changed else stmts


def _assigned_names(body) -> list[str]:
    """Names (re)bound by plain assignment statements in `body` (not inside nested function definitions)."""
    out: list[str] = []

    def targets(t):
        if isinstance(t, ast.Name):
            if t.id not in out:
                out.append(t.id)
        elif isinstance(t, (ast.Tuple, ast.List)):
            for e in t.elts:
                targets(e)
        elif isinstance(t, ast.Starred):
            targets(t.value)

    def walk(stmts):
        for st in stmts:
            if isinstance(st, (ast.FunctionDef, ast.AsyncFunctionDef, ast.ClassDef, ast.Lambda)):
                continue
            if isinstance(st, ast.Assign):
                for t in st.targets:
                    targets(t)
            elif isinstance(st, (ast.AugAssign, ast.AnnAssign)):
                if not isinstance(st, ast.AugAssign) or not _looks_like_domain(st.target):
                    targets(st.target)
            for fld in ("body", "orelse", "finalbody"):
                sub = getattr(st, fld, None)
                if isinstance(sub, list):
                    walk(sub)
            if isinstance(st, ast.Try):
                for h in st.handlers:
                    walk(h.body)
            if isinstance(st, ast.Match):
                for c in st.cases:
                    walk(c.body)

    walk(body)
    return out


def _looks_like_domain(t) -> bool:
    return isinstance(t, ast.Attribute) or isinstance(t, ast.Subscript)


def _is_static(fn) -> bool:
    return any(isinstance(d, ast.Name) and d.id == "staticmethod" for d in fn.decorator_list)


def _is_property(fn) -> bool:
    for d in fn.decorator_list:
        if isinstance(d, ast.Name) and d.id in ("property", "cached_property", "staticmethod", "classmethod"):
            return d.id in ("property", "cached_property")
    return False


_BINOPS = {
    ast.Add: "+",
    ast.Sub: "-",
    ast.Mult: "*",
    ast.Div: "/",
    ast.FloorDiv: "//",
    ast.Mod: "%",
    ast.Pow: "**",
    ast.LShift: "<<",
    ast.RShift: ">>",
    ast.BitOr: "|",
    ast.BitAnd: "&",
    ast.BitXor: "^",
    ast.MatMult: "@",
}
_FOLD = {
    "+": lambda a, b: a + b,
    "-": lambda a, b: a - b,
    "*": lambda a, b: a * b,
    "//": lambda a, b: a // b,
    "%": lambda a, b: a % b,
    "<<": lambda a, b: a << b if 0 <= b < 64 else 1 / 0,
    ">>": lambda a, b: a >> b if b >= 0 else 1 / 0,
    "|": lambda a, b: a | b,
    "&": lambda a, b: a & b,
    "^": lambda a, b: a ^ b,
    "**": lambda a, b: a**b if 0 <= b < 64 else 1 / 0,
}
_CMPOPS = {
    ast.Eq: "==",
    ast.NotEq: "!=",
    ast.Lt: "<",
    ast.LtE: "<=",
    ast.Gt: ">",
    ast.GtE: ">=",
    ast.Is: "is",
    ast.IsNot: "isnot",
    ast.In: "in",
    ast.NotIn: "notin",
}


# ---------------------------------------------------------------------------
# driver: enumerate static configurations


# every function extracted during a run (the driver's census of loop exits reads it)
EXTRACTED: list = []


def extract_all(repo: Repo, func: FuncInfo, bindings: Optional[dict] = None, max_configs: int = MAX_CONFIGS,
                inline_depth: int = MAX_INLINE_DEPTH,
    enter: tuple = (),
) -> list[Extraction]:
    """All static configurations of `func` (DFS over python-if decisions)."""
    results: list[Extraction] = []
    script: list[bool] = []
    while True:
        ch = Chooser(script)
        xt = Extractor(repo, func, ch, inline_depth=inline_depth)
        xt.enter_closures = set(enter)
        ex = xt.run(bindings)
        for f in ex.facts:
            f.config = ex.config
        results.append(ex)
        if len(results) > max_configs:
            raise AnalysisError("stage", func.site, f"more than {max_configs} static configurations in {func.qualname}")
        trace = [v for _, v in ch.trace]
        # backtrack: flip the last True decision
        while trace and trace[-1] is False:
            trace.pop()
        if not trace:
            break
        trace[-1] = False
        script = trace
    EXTRACTED.append((func, results))
    return results


def extract_one(repo: Repo, func: FuncInfo, decisions: Optional[dict] = None, bindings: Optional[dict] = None) -> Extraction:
    """Single configuration; `decisions` maps test-term printouts to booleans (default True)."""
    exs = extract_all(repo, func, bindings)
    if not decisions:
        return exs[0]
    for ex in exs:
        if all(decisions.get(tstr(t), v) == v for t, v in ex.config):
            return ex
    raise AnalysisError("stage", func.site, f"no configuration matches {decisions}")
