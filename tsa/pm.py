"""Pattern matching on terms.

`pat("Q_x.nonexclusive or f(Q_a, Q_b)")` parses python expression syntax into a
term in which names starting with `Q_` are pattern variables; `pmatch`
unifies a pattern with a term (commutative operators are matched up to
permutation).  Patterns describe *normal forms* (operators are already
flattened/sorted by `mk_op`), never source text.
"""

from __future__ import annotations

import ast
import itertools
from typing import Iterator, Optional

from .term import COMMUTATIVE, Term, mk_op, subterms


class _PatEval:
    def __init__(self, ex):
        self.ex = ex

    def ev(self, node) -> Term:
        t = self._ev(node)
        return t

    def _ev(self, e) -> Term:
        if isinstance(e, ast.Name):
            if e.id.startswith("Q_"):
                return ("?", e.id[2:])
            if e.id == "self":
                return ("self",)
            return ("n", e.id)
        if isinstance(e, ast.Constant):
            return ("c", e.value)
        if isinstance(e, ast.Attribute):
            return ("a", self._ev(e.value), e.attr)
        if isinstance(e, ast.Subscript):
            sl = e.slice
            if isinstance(sl, ast.Slice):
                idx = ("slice", self._opt(sl.lower), self._opt(sl.upper), self._opt(sl.step))
            else:
                idx = self._ev(sl)
            return ("i", self._ev(e.value), idx)
        if isinstance(e, ast.Call):
            f = self._ev(e.func)
            args = tuple(self._ev(a) for a in e.args)
            kw = tuple(sorted((k.arg, self._ev(k.value)) for k in e.keywords if k.arg)) + tuple(
                (None, self._ev(k.value)) for k in e.keywords if k.arg is None
            )
            return ("call", f, args, kw)
        if isinstance(e, ast.UnaryOp):
            o = {ast.Invert: "~", ast.Not: "not", ast.USub: "neg", ast.UAdd: "pos"}[type(e.op)]
            v = self._ev(e.operand)
            if o == "neg" and v[0] == "c":
                return ("c", -v[1])
            return mk_op(o, v)
        if isinstance(e, ast.BinOp):
            from .stage import _BINOPS

            return mk_op(_BINOPS[type(e.op)], self._ev(e.left), self._ev(e.right))
        if isinstance(e, ast.BoolOp):
            return mk_op("and" if isinstance(e.op, ast.And) else "or", *[self._ev(v) for v in e.values])
        if isinstance(e, ast.Compare):
            from .stage import _CMPOPS

            parts = []
            left = self._ev(e.left)
            for op, right in zip(e.ops, e.comparators):
                r = self._ev(right)
                parts.append(mk_op(_CMPOPS[type(op)], left, r))
                left = r
            return parts[0] if len(parts) == 1 else mk_op("and", *parts)
        if isinstance(e, ast.Tuple):
            return ("tuple", *[self._ev(x) for x in e.elts])
        if isinstance(e, ast.List):
            return ("list", *[self._ev(x) for x in e.elts])
        if isinstance(e, ast.Set):
            return ("set", *[self._ev(x) for x in e.elts])
        if isinstance(e, ast.Starred):
            return ("star", self._ev(e.value))
        if isinstance(e, ast.IfExp):
            return ("ife", self._ev(e.test), self._ev(e.body), self._ev(e.orelse))
        raise ValueError("pattern syntax not supported: " + ast.dump(e)[:80])

    def _opt(self, e):
        return ("c", None) if e is None else self._ev(e)


_CACHE: dict[str, Term] = {}


def pat(src: str) -> Term:
    if src not in _CACHE:
        node = ast.parse(src, mode="eval").body
        _CACHE[src] = _PatEval(None).ev(node)
    return _CACHE[src]


class Match(dict):
    """Unifier; truthy even when the pattern has no variables."""

    def __bool__(self) -> bool:
        return True


def _is_var(p) -> bool:
    return isinstance(p, tuple) and len(p) == 2 and p[0] == "?"


def pmatch_all(p, t, env: Optional[dict] = None) -> Iterator[dict]:
    """All unifiers of pattern `p` with term `t` extending `env`."""
    env = Match() if env is None else env
    if _is_var(p):
        name = p[1]
        if name in env:
            if env[name] == t:
                yield env
            return
        e2 = Match(env)
        e2[name] = t
        yield e2
        return
    if not isinstance(p, tuple):
        if p == t:
            yield env
        return
    if not isinstance(t, tuple) or len(p) != len(t):
        return
    if p and p[0] == "op" and t[0] == "op" and p[1] == t[1] and p[1] in COMMUTATIVE and len(p) <= 7:
        pargs, targs = p[2:], t[2:]
        seen = set()
        for perm in itertools.permutations(range(len(targs))):
            key = tuple(targs[i] for i in perm)
            if key in seen:
                continue
            seen.add(key)
            yield from _match_seq(pargs, key, env)
        return
    yield from _match_seq(p, t, env)


def _match_seq(ps, ts, env) -> Iterator[dict]:
    if not ps:
        yield env
        return
    for e in pmatch_all(ps[0], ts[0], env):
        yield from _match_seq(ps[1:], ts[1:], e)


def pmatch(p, t, env: Optional[dict] = None) -> Optional[dict]:
    if isinstance(p, str):
        p = pat(p)
    for e in pmatch_all(p, t, env):
        return e
    return None


def find_all(p, t) -> list[dict]:
    """Unifiers of `p` against every sub-term of `t`."""
    if isinstance(p, str):
        p = pat(p)
    out = []
    for s in subterms(t):
        out.extend(pmatch_all(p, s))
    return out


def has(p, t) -> bool:
    return bool(find_all(p, t))
