"""Obligations, outcome policy, evidence files, known findings."""

from __future__ import annotations

import json
import os
import time
from dataclasses import dataclass, field
from typing import Optional

from . import VERIF
from .front import AnalysisError, Repo

EVIDENCE_DIR = os.environ.get("TSA_EVIDENCE_DIR") or os.path.join(VERIF, "evidence")  # override: dev tools only
KNOWN_FINDINGS = os.path.join(VERIF, "known_findings.json")

TRUSTED_BASE = [
    "Amaranth semantics as used by the rules: a later assignment to the same signal in the same domain wins; "
    "If/Elif/Else, Switch arms and FSM states are mutually exclusive; Memory port semantics incl. transparent_for; "
    "Signal(range(n)) holds 0..n-1",
    "networkx.lexicographical_topological_sort returns a topological order and raises on a cycle",
    "Python's ast module; the extractor tsa/stage.py (exercised both ways by tsa/selftest and the sensitivity pass)",
    "the reference tables in tsa/rules/* (each carries the sentence of the property it encodes)",
    "a passing check means every named mechanism is intact (necessary conditions); it does not mean that the "
    "generated circuit behaves as stated for every history",
]


@dataclass
class Obligation:
    rule: str
    site: str
    construct: str
    status: str  # discharged | violated
    found: str = ""
    required: str = ""
    nontrivial: bool = True

    def key(self) -> tuple:
        return (self.rule, self.construct)


@dataclass
class Ctx:
    prop: str
    tier: str
    repo: Repo
    obligations: list[Obligation] = field(default_factory=list)
    analysed: dict = field(default_factory=dict)
    notes: list[str] = field(default_factory=list)
    files: set = field(default_factory=set)

    # ------------------------------------------------------------------
    def _add(self, o: Obligation):
        k = (o.rule, o.site, o.construct, o.status)
        seen = self.__dict__.setdefault("_seen", set())
        if k in seen:
            return
        seen.add(k)
        self.obligations.append(o)

    def ok(self, rule: str, site: str, construct: str, found: str = "", required: str = "", nontrivial: bool = True):
        self._add(Obligation(rule, site, construct, "discharged", found, required, nontrivial))

    def bad(self, rule: str, site: str, construct: str, found: str = "", required: str = ""):
        self._add(Obligation(rule, site, construct, "violated", found, required))

    def check(self, cond: bool, rule: str, site: str, construct: str, found: str = "", required: str = "",
              nontrivial: bool = True) -> bool:
        if cond:
            self.ok(rule, site, construct, found, required, nontrivial)
        else:
            self.bad(rule, site, construct, found, required)
        return bool(cond)

    def floor(self, rule: str, what: str, count: int, minimum: int, site: str = ""):
        """Fewer instances than confirmed by reading on the pinned tree.  The function / component the instances are
        looked up in was resolved (an unresolved one raises on its own): the statements that realise the obligation are
        gone from it.  That is reported as a violation naming the function and what is missing, and the rest of the pack
        - which would pass vacuously or trip over the hole - is not analysed (ANALYSIS-INCOMPLETE, exit 1)."""
        self.analysed[f"{rule}:{what}"] = count
        if "configuration" in what:
            # the number of static configurations of a function is not an obligation: a python-level test more or less
            # changes it without changing the circuit.  Only "nothing was analysed" stops the pack (exit 2, no violation).
            if count < 1:
                raise AnalysisError(rule, site or self.prop, f"no {what} found (anchor vanished)")
            return
        if count < minimum and minimum >= 6:
            # an aggregate count (so many obligations / statements of a kind were analysed on the pinned tree): a guard
            # against a vacuous pass, not an obligation - exit 2, no violation
            raise AnalysisError(rule, site or self.prop, f"only {count} {what} analysed, {minimum} on the pinned tree (the analysis lost its footing)")
        if count < minimum:
            self.bad(f"{rule}.present", site or self.prop, what, found=f"{count} found", required=f"at least {minimum}: the construct that realises the obligation is present")
            raise AnalysisError(rule, site or self.prop, f"only {count} {what} found, floor is {minimum} (anchor vanished)")

    def use(self, *relpaths: str):
        self.files.update(relpaths)

    def count(self, key: str, n: int = 1):
        self.analysed[key] = self.analysed.get(key, 0) + n

    @property
    def violations(self) -> list[Obligation]:
        return [o for o in self.obligations if o.status == "violated"]


# ---------------------------------------------------------------------------


def load_known_findings() -> dict:
    try:
        with open(KNOWN_FINDINGS) as fh:
            return json.load(fh)
    except FileNotFoundError:
        return {"findings": [], "fixed": []}


def is_known(kf: dict, prop: str, o: Obligation) -> Optional[dict]:
    for f in kf.get("findings", []):
        if f["property"] == prop and f["rule"] == o.rule and f["construct"] == o.construct:
            return f
    return None


def write_evidence(ctx: Ctx, wall: float, seed: int, unknown: list[Obligation], known: list[tuple[Obligation, dict]],
                   extra: Optional[dict] = None, error: Optional[str] = None) -> str:
    os.makedirs(EVIDENCE_DIR, exist_ok=True)
    obs = ctx.obligations
    distinct = {o.key() for o in obs if o.nontrivial}
    samples = []
    seen_rules = set()
    for o in obs:
        if o.rule in seen_rules and len(samples) >= 6:
            continue
        seen_rules.add(o.rule)
        samples.append(
            {"rule": o.rule, "site": o.site, "construct": o.construct, "status": o.status, "found": o.found[:400],
             "required": o.required[:400]}
        )
        if len(samples) >= 14:
            break
    rules = sorted({o.rule for o in obs})
    cov = {
        "explanation": (
            "Static analysis of /repo sources (ast only, nothing imported or executed). The check extracts the "
            "hardware/graph-construction facts of the anchored functions, normalises expressions (propositional truth "
            "tables, linear forms, last-writer decision tables, bounded instantiation of comparison predicates) and "
            "discharges the obligations listed in DESIGN.md for this property. Each obligation is a necessary "
            "condition of the property at a named mechanism; behaviour over all histories is not decided."
            + (" ERROR: " + error if error else "")
        ),
        "obligations": len(obs),
        "discharged": sum(1 for o in obs if o.status == "discharged"),
        "evaluations": max(len(obs), 1),
        "distinct_nontrivial": len(distinct),
        "rule": "one evaluation = one obligation (rule instance at a source construct); distinct = distinct (rule id, "
        "construct) pairs whose normal form is not a constant",
        "samples": samples or [{"note": "no obligation evaluated"}],
        "rules_applied": rules,
        "analysed": ctx.analysed,
        "source_digests": ctx.repo.digests(sorted(ctx.files)),
        "known_findings_reported": [f"{o.rule} @ {o.construct}" for o, _ in known],
        "notes": ctx.notes,
        "trusted_base": TRUSTED_BASE,
        "exhaustive": False,
    }
    if extra:
        cov.update(extra)
    ev = {
        "property_id": ctx.prop,
        "tier": ctx.tier,
        "seed": seed,
        "level": "other",
        "coverage": cov,
        "assumptions": TRUSTED_BASE,
        "wall_s": round(wall, 3),
        "violations": len(unknown),
    }
    path = os.path.join(EVIDENCE_DIR, f"{ctx.prop}.json")
    tmp = path + ".tmp"
    with open(tmp, "w") as fh:
        json.dump(ev, fh, indent=1, sort_keys=False)
    os.replace(tmp, path)
    return path


def write_violation_file(ctx: Ctx, unknown: list[Obligation]) -> str:
    os.makedirs(EVIDENCE_DIR, exist_ok=True)
    path = os.path.join(EVIDENCE_DIR, f"{ctx.prop}.violation.json")
    with open(path, "w") as fh:
        json.dump(
            {
                "property": ctx.prop,
                "violations": [
                    {"rule": o.rule, "site": o.site, "construct": o.construct, "found": o.found, "required": o.required}
                    for o in unknown
                ],
            },
            fh,
            indent=1,
        )
    return path
