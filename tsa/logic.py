"""Small decision procedures over terms (no solver).

* propositional: terms -> formulas over atoms; equivalence / implication by
  truth table (bounded number of atoms).
* linear: terms -> {atom: coeff} + const.
* bounded evaluation: `evalt` evaluates a term of the comparison / arithmetic
  fragment under a valuation of its atoms; `agree_bounded` compares two terms
  on every valuation of a small box (used for predicates over counters whose
  range is declared, e.g. `level != depth` vs `level < depth` for
  0 <= level <= depth).  This evaluates *extracted normal forms* in the
  analyser, never code of the repository.
"""

from __future__ import annotations

import itertools
from typing import Callable, Iterable, Optional

from .term import Term, mk_op, subterms, tstr

MAX_ATOMS = 17


class Undecided(Exception):
    pass


# ---------------------------------------------------------------------------
# propositional layer
# formula: True | False | ('atom', term) | ('not', f) | ('and', f...) | ('or', f...) | ('xor', f, g)


def f_not(f):
    if f is True:
        return False
    if f is False:
        return True
    if f[0] == "not":
        return f[1]
    return ("not", f)


def f_and(*fs):
    out = []
    for f in fs:
        if f is True:
            continue
        if f is False:
            return False
        if f[0] == "and":
            out.extend(f[1:])
        else:
            out.append(f)
    if not out:
        return True
    if len(out) == 1:
        return out[0]
    return ("and", *out)


def f_or(*fs):
    out = []
    for f in fs:
        if f is False:
            continue
        if f is True:
            return True
        if f[0] == "or":
            out.extend(f[1:])
        else:
            out.append(f)
    if not out:
        return False
    if len(out) == 1:
        return out[0]
    return ("or", *out)


def norm_atom(t: Term) -> tuple[Term, bool]:
    """Canonical atom and polarity for comparisons:  a != b  ->  not (a == b);
    x.any()/x.bool()/(x != 0) -> not (x == 0)."""
    if t[0] == "op" and t[1] == "!=" and len(t) == 4:
        return norm_eq(t[2], t[3]), False
    if t[0] == "op" and t[1] == "==" and len(t) == 4:
        return norm_eq(t[2], t[3]), True
    if t[0] == "call" and t[1][0] == "a" and t[1][2] in ("any", "bool") and not t[2]:
        return norm_eq(t[1][1], ("c", 0)), False
    return t, True


def norm_eq(a: Term, b: Term) -> Term:
    # 1-bit style constants: x == 0
    return mk_op("==", a, b)


def to_formula(t: Term, atom_hook: Optional[Callable[[Term], Optional[object]]] = None):
    """Boolean reading of a (1-bit / python bool) term."""
    if atom_hook is not None:
        r = atom_hook(t)
        if r is not None:
            return r
    k = t[0]
    if k == "c":
        if t[1] in (0, False, None):
            return False
        if t[1] in (1, True):
            return True
        return ("atom", t)
    if k == "op":
        o = t[1]
        if o in ("&", "and"):
            return f_and(*[to_formula(x, atom_hook) for x in t[2:]])
        if o in ("|", "or"):
            return f_or(*[to_formula(x, atom_hook) for x in t[2:]])
        if o in ("~", "not"):
            return f_not(to_formula(t[2], atom_hook))
        if o == "^" and len(t) == 4:
            return ("xor", to_formula(t[2], atom_hook), to_formula(t[3], atom_hook))
        if o in ("==", "!="):
            a, pol = norm_atom(t)
            # comparison of a boolean-like thing with constant 0/1
            if a[0] == "op" and a[1] == "==" and len(a) == 4:
                x, y = a[2], a[3]
                for u, v in ((x, y), (y, x)):
                    if u[0] == "c" and u[1] in (0, 1, True, False) and _boolish(v):
                        f = to_formula(v, atom_hook)
                        f = f if u[1] in (1, True) else f_not(f)
                        return f if pol else f_not(f)
            f = ("atom", a)
            return f if pol else f_not(f)
    if k == "call":
        f = t[1]
        if f == ("n", "C") or f == ("n", "Const"):
            if t[2] and t[2][0][0] == "c":
                return bool(t[2][0][1])
        if f[0] == "a" and f[2] in ("any", "all", "bool") and not t[2]:
            inner = f[1]
            items = cat_items(inner)
            if items is not None and all(i[0] != "star" for i in items):
                fs = [to_formula(x, atom_hook) for x in items]
                return f_or(*fs) if f[2] in ("any", "bool") else f_and(*fs)
            if inner[0] == "call" and inner[1] == ("n", "Cat") and len(inner[2]) == 1 and inner[2][0][0] in ("lc", "star"):
                q = inner[2][0]
                q = q[1] if q[0] == "star" else q
                return ("atom", ("anyq" if f[2] in ("any", "bool") else "allq", q))
            if f[2] in ("any", "bool"):
                a, pol = norm_atom(t)
                return ("atom", a) if pol else f_not(("atom", a))
            return ("atom", t)
        if f == ("n", "Mux") and len(t[2]) == 3:
            c, a, b = (to_formula(x, atom_hook) for x in t[2])
            return f_or(f_and(c, a), f_and(f_not(c), b))
    if k == "ife":
        c, a, b = (to_formula(x, atom_hook) for x in t[1:4])
        return f_or(f_and(c, a), f_and(f_not(c), b))
    return ("atom", t)


def _boolish(t: Term) -> bool:
    return t[0] == "op" and t[1] in ("&", "|", "~", "and", "or", "not", "==", "!=", "<", "<=")


def cat_items(t: Term) -> Optional[list[Term]]:
    """Items of Cat(a, b, ...) / Cat([..]) / Cat(*xs); None if not a Cat of explicit items."""
    if t[0] == "call" and t[1] == ("n", "Cat"):
        items: list[Term] = []
        for a in t[2]:
            if a[0] in ("list", "tuple"):
                items.extend(a[1:])
            elif a[0] == "star" and a[1][0] in ("list", "tuple"):
                items.extend(a[1][1:])
            elif a[0] in ("lc", "star"):
                return None
            else:
                items.append(a)
        return items
    return None


def atoms_of(f, acc=None) -> list:
    if acc is None:
        acc = []
    if f is True or f is False:
        return acc
    if f[0] == "atom":
        if f[1] not in acc:
            acc.append(f[1])
        return acc
    for x in f[1:]:
        atoms_of(x, acc)
    return acc


def evalf(f, val: dict) -> bool:
    if f is True or f is False:
        return f
    k = f[0]
    if k == "atom":
        return val[f[1]]
    if k == "not":
        return not evalf(f[1], val)
    if k == "and":
        return all(evalf(x, val) for x in f[1:])
    if k == "or":
        return any(evalf(x, val) for x in f[1:])
    if k == "xor":
        return evalf(f[1], val) != evalf(f[2], val)
    raise ValueError(f)


def valuations(atoms: list, constraint=None) -> Iterable[dict]:
    if len(atoms) > MAX_ATOMS:
        raise Undecided(f"{len(atoms)} atoms > {MAX_ATOMS}")
    for bits in itertools.product((False, True), repeat=len(atoms)):
        v = dict(zip(atoms, bits))
        if constraint is None or constraint(v):
            yield v


def equivalent(f, g, constraint=None) -> Optional[dict]:
    """None if equivalent, else a distinguishing valuation."""
    atoms = atoms_of(g, atoms_of(f))
    for v in valuations(atoms, constraint):
        if evalf(f, v) != evalf(g, v):
            return v
    return None


def implies(f, g, constraint=None) -> Optional[dict]:
    atoms = atoms_of(g, atoms_of(f))
    for v in valuations(atoms, constraint):
        if evalf(f, v) and not evalf(g, v):
            return v
    return None


def fstr(f) -> str:
    if f is True:
        return "1"
    if f is False:
        return "0"
    k = f[0]
    if k == "atom":
        return tstr(f[1])
    if k == "not":
        return "~" + fstr(f[1])
    if k == "xor":
        return f"({fstr(f[1])} ^ {fstr(f[2])})"
    sym = " & " if k == "and" else " | "
    return "(" + sym.join(fstr(x) for x in f[1:]) + ")"


def vstr(v: dict) -> str:
    return ", ".join(f"{tstr(a)}={int(b)}" for a, b in v.items())


def conjuncts(f) -> list:
    if f is True:
        return []
    if f is not False and f[0] == "and":
        return list(f[1:])
    return [f]


# ---------------------------------------------------------------------------
# linear layer


def to_lin(t: Term) -> tuple[dict, int]:
    """(coeffs, const) with t == sum(coeffs[a] * a) + const."""
    k = t[0]
    if k == "c" and isinstance(t[1], (int, bool)):
        return {}, int(t[1])
    if k == "op":
        o = t[1]
        if o == "+":
            co: dict = {}
            c0 = 0
            for x in t[2:]:
                cx, kx = to_lin(x)
                for a, v in cx.items():
                    co[a] = co.get(a, 0) + v
                c0 += kx
            return {a: v for a, v in co.items() if v}, c0
        if o == "-" and len(t) == 4:
            ca, ka = to_lin(t[2])
            cb, kb = to_lin(t[3])
            co = dict(ca)
            for a, v in cb.items():
                co[a] = co.get(a, 0) - v
            return {a: v for a, v in co.items() if v}, ka - kb
        if o == "neg":
            ca, ka = to_lin(t[2])
            return {a: -v for a, v in ca.items()}, -ka
        if o == "*":
            consts = [x for x in t[2:] if x[0] == "c" and isinstance(x[1], int)]
            rest = [x for x in t[2:] if not (x[0] == "c" and isinstance(x[1], int))]
            if len(rest) == 1:
                m = 1
                for c in consts:
                    m *= c[1]
                ca, ka = to_lin(rest[0])
                return {a: v * m for a, v in ca.items() if v * m}, ka * m
    return {t: 1}, 0


def lin_equal(a: Term, b: Term) -> bool:
    return to_lin(a) == to_lin(b)


def lin_str(l: tuple[dict, int]) -> str:
    co, k = l
    parts = []
    for a, v in sorted(co.items(), key=lambda kv: repr(kv[0])):
        parts.append((f"{'+' if v > 0 else '-'} " + (f"{abs(v)}*" if abs(v) != 1 else "") + tstr(a)))
    if k or not parts:
        parts.append(f"{'+' if k >= 0 else '-'} {abs(k)}")
    return " ".join(parts).lstrip("+ ")


# ---------------------------------------------------------------------------
# bounded evaluation of the arithmetic / comparison fragment


class NotEvaluable(Exception):
    pass


def evalt(t: Term, val: dict):
    """Value of `t` (int or bool) under `val` (atom term -> int)."""
    if t in val:
        return val[t]
    k = t[0]
    if k == "c":
        if isinstance(t[1], (int, bool)):
            return t[1]
        raise NotEvaluable(tstr(t))
    if k == "op":
        o = t[1]
        if o in ("&", "|", "^", "+", "*", "and", "or"):
            xs = [evalt(x, val) for x in t[2:]]
            if o == "+":
                return sum(int(x) for x in xs)
            if o == "*":
                r = 1
                for x in xs:
                    r *= int(x)
                return r
            if o in ("&", "and"):
                if all(isinstance(x, bool) for x in xs):
                    return all(xs)
                r = -1
                for x in xs:
                    r &= int(x)
                return r
            if o in ("|", "or"):
                if all(isinstance(x, bool) for x in xs):
                    return any(xs)
                r = 0
                for x in xs:
                    r |= int(x)
                return r
            r = 0
            for x in xs:
                r ^= int(x)
            return r
        if o == "-":
            return int(evalt(t[2], val)) - int(evalt(t[3], val))
        if o == "neg":
            return -int(evalt(t[2], val))
        if o in ("~", "not"):
            x = evalt(t[2], val)
            if isinstance(x, bool):
                return not x
            if o == "not":
                return not x
            raise NotEvaluable("~ on integer")
        if o in ("==", "!=", "<", "<="):
            a, b = int(evalt(t[2], val)), int(evalt(t[3], val))
            return {"==": a == b, "!=": a != b, "<": a < b, "<=": a <= b}[o]
        if o == "**":
            a, b = int(evalt(t[2], val)), int(evalt(t[3], val))
            if not 0 <= b < 64:
                raise NotEvaluable("power")
            return a**b
        if o in ("//", "%", "<<", ">>"):
            a, b = int(evalt(t[2], val)), int(evalt(t[3], val))
            if o in ("//", "%") and b == 0:
                raise NotEvaluable("div by zero")
            if o in ("<<", ">>") and not 0 <= b < 64:
                raise NotEvaluable("shift")
            return {"//": lambda: a // b, "%": lambda: a % b, "<<": lambda: a << b, ">>": lambda: a >> b}[o]()
    if k == "call":
        f = t[1]
        if f[0] == "a" and f[2] in ("any", "bool") and not t[2]:
            return int(evalt(f[1], val)) != 0
        if f == ("n", "Mux") and len(t[2]) == 3:
            c = evalt(t[2][0], val)
            return evalt(t[2][1], val) if c else evalt(t[2][2], val)
        if f in (("n", "C"), ("n", "Const")) and t[2]:
            return evalt(t[2][0], val)
        if f in (("n", "min"), ("n", "max")) and t[2]:
            xs = [int(evalt(x, val)) for x in t[2]]
            return min(xs) if f[1] == "min" else max(xs)
        # amaranth.utils
        if f == ("n", "ceil_log2") and len(t[2]) == 1:
            n = int(evalt(t[2][0], val))
            if n < 0:
                raise NotEvaluable("ceil_log2 of a negative number")
            return 0 if n == 0 else (n - 1).bit_length()
        if f == ("n", "exact_log2") and len(t[2]) == 1:
            n = int(evalt(t[2][0], val))
            if n <= 0 or n & (n - 1):
                raise NotEvaluable("exact_log2 of a non-power of two")
            return n.bit_length() - 1
    if k == "ife":
        return evalt(t[2], val) if evalt(t[1], val) else evalt(t[3], val)
    raise NotEvaluable(tstr(t))


def free_atoms(t: Term, known: Iterable[Term] = ()) -> list[Term]:
    """Maximal sub-terms that `evalt` cannot interpret structurally."""
    known = set(known)
    out: list[Term] = []

    def go(x: Term):
        if x in known:
            if x not in out:
                out.append(x)
            return
        k = x[0]
        if k == "c":
            return
        if k == "op" and x[1] in ("&", "|", "^", "+", "*", "and", "or", "-", "neg", "~", "not", "==", "!=", "<", "<=", "//", "%", "<<", ">>"):
            for y in x[2:]:
                go(y)
            return
        if k == "call":
            f = x[1]
            if f[0] == "a" and f[2] in ("any", "bool") and not x[2]:
                go(f[1])
                return
            if f in (("n", "Mux"), ("n", "C"), ("n", "Const"), ("n", "min"), ("n", "max")):
                for y in x[2]:
                    go(y)
                return
        if k == "ife":
            for y in x[1:]:
                go(y)
            return
        if x not in out:
            out.append(x)

    go(t)
    return out


def agree_bounded(a: Term, b: Term, boxes: Callable[[list[Term]], Iterable[dict]], known: Iterable[Term] = ()) -> Optional[dict]:
    """None if `a` and `b` evaluate equally on every valuation produced by `boxes(atoms)`;
    otherwise the first distinguishing valuation.  Raises NotEvaluable."""
    atoms = free_atoms(a, known)
    for x in free_atoms(b, known):
        if x not in atoms:
            atoms.append(x)
    n = 0
    for val in boxes(atoms):
        n += 1
        va, vb = evalt(a, val), evalt(b, val)
        if isinstance(va, bool) or isinstance(vb, bool):
            if bool(va) != bool(vb):
                return val
        elif va != vb:
            return val
    if n == 0:
        raise NotEvaluable("empty box")
    return None


# ---------------------------------------------------------------------------
# seqx: integer index sequences written with range / reversed / chain (evaluated by the analyser for small sizes)


def eval_seq(t: Term, val: dict) -> list[int]:
    """Concrete list of integers denoted by `t` under `val`; raises NotEvaluable."""
    if t[0] == "call":
        f = t[1]
        name = f[1] if f[0] == "n" else (f[2] if f[0] == "a" else None)
        if name == "range":
            args = [int(evalt(a, val)) for a in t[2]]
            return list(range(*args))
        if name == "reversed" and len(t[2]) == 1:
            return list(reversed(eval_seq(t[2][0], val)))
        if name == "chain":
            out: list[int] = []
            for a in t[2]:
                out.extend(eval_seq(a, val))
            return out
        if name in ("list", "tuple", "sorted") and len(t[2]) == 1:
            r = eval_seq(t[2][0], val)
            return sorted(r) if name == "sorted" else r
    if t[0] in ("list", "tuple"):
        return [int(evalt(x, val)) for x in t[1:]]
    if t[0] == "lc" and len(t[3]) == 1:
        b, it, conds = t[3][0]
        out = []
        for k in eval_seq(it, val):
            v2 = dict(val)
            v2[b] = k
            if all(evalt(c, v2) for c in conds):
                out.append(int(evalt(t[2], v2)))
        return out
    raise NotEvaluable("sequence " + tstr(t))
