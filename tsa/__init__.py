"""tsa - Transactron static analyser.

Reads /repo sources with `ast` only (nothing under /repo is imported or run).
See /verif/DESIGN.md.
"""

import os

REPO = os.environ.get("TSA_REPO", "/repo")
VERIF = os.path.dirname(os.path.dirname(os.path.abspath(__file__)))
PKG = "transactron"
