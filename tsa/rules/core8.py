"""Declarations the core relies on without restating them (found by the mutation sweep of core/*.py):

  body-flag-defaults      a body is exclusive / may have several callers unless declared otherwise (C01, C11)
  relation-defaults       a relation is not a conflict and not a ready dependency unless the API that creates it says so;
                          schedule_before is not ready-dependent unless asked (C03, C07, C08)
  registration            every transaction and every defined method registers with the manager, which takes exactly those
                          lists (a body that is not registered is never scheduled: it never runs, silently) (C04, C07)
  conditional-depth       Body.conditional_calls counts a call as conditional iff it sits deeper than the level the body
                          context itself opens around the body (C12)
"""

from __future__ import annotations

import ast

from ..front import AnalysisError
from ..logic import atoms_of, equivalent, f_not, fstr, to_formula
from ..pm import pmatch
from ..pyfacts import loops, py_guard
from ..report import Ctx
from ..stage import Effect, Return, Store
from ..term import subterms, tstr
from .core import A, BODY, MANAGER, METHOD, TBASE, TRANSACTION, _fn


def body_flag_defaults(ctx: Ctx, pid: str, flags=("nonexclusive", "single_caller")):
    rule = f"{pid}.body-flag-defaults"
    fn = _fn(ctx, BODY, "Body.__init__", rule)
    for flag in flags:
        stores = fn.facts(Store, lambda s: s.target == ("a", ("self",), flag))
        ctx.floor(rule, f"stores to Body.{flag}", len(stores), 1, fn.site)
        ok = True
        seen = set()
        found = []
        for ex in fn.exs:
            dec = None
            for t, v in ex.config:
                m = pmatch("Q_k in Q_kw", t)
                if m is not None and m["k"] == ("c", flag):
                    dec = (t, v, m["kw"])
            sts = [s for s in ex.of(Store) if s.target == ("a", ("self",), flag)]
            if len(sts) != 1 or py_guard(sts[0]) is not True:
                ok = False
                continue
            val = sts[0].value
            if dec is None:
                # not a per-call option any more: then it has to be the constant
                want = ("c", False)
                key = "always"
            else:
                want = ("i", dec[2], ("c", flag)) if dec[1] else ("c", False)
                key = "given" if dec[1] else "absent"
            if key not in seen:
                seen.add(key)
                found.append(f"{key}: {tstr(val)}")
            if val != want:
                ok = False
        ctx.check(ok and {"absent", "given"} <= seen, rule, stores[0][1].site, f"Body.{flag}", found="; ".join(found),
                  required=f"{flag} = the value given by the definition, False when not given")


def _class_field_default(ctx: Ctx, rel: str, cls: str, field: str):
    ci = ctx.repo.cls(rel, cls)
    for st in ci.node.body:
        if isinstance(st, ast.AnnAssign) and isinstance(st.target, ast.Name) and st.target.id == field:
            return st.value, f"{rel}:{st.lineno}"
    return None, ci.site


def _const(node):
    if isinstance(node, ast.Constant):
        return node.value
    return "<" + (ast.unparse(node) if node is not None else "no default") + ">"


def relation_defaults(ctx: Ctx, pid: str):
    rule = f"{pid}.relation-defaults"
    ctx.use(TBASE)
    for field in ("conflict", "ready_dependent"):
        node, site = _class_field_default(ctx, TBASE, "RelationBase", field)
        ctx.check(isinstance(node, ast.Constant) and node.value is False, rule, site, f"RelationBase.{field}", found=f"default {_const(node)!r}",
                  required=f"a relation is not {'a conflict' if field == 'conflict' else 'a ready dependency'} unless the API creating it sets the flag")
    fn = _fn(ctx, TBASE, "TransactionBase.schedule_before", rule)
    a = fn.fi.node.args
    d = {k.arg: v for k, v in zip(a.kwonlyargs, a.kw_defaults)}
    names = [x.arg for x in a.posonlyargs + a.args]
    d.update(dict(zip(names[len(names) - len(a.defaults):], a.defaults)))
    node = d.get("ready_dependent")
    ctx.check(isinstance(node, ast.Constant) and node.value is False, rule, fn.site, "TransactionBase.schedule_before.ready_dependent", found=f"default {_const(node)!r}",
              required="schedule_before is a pure ordering unless ready_dependent=True is passed")
    # add_conflict never creates a ready dependency
    fc = _fn(ctx, TBASE, "TransactionBase.add_conflict", rule)
    ok = False
    detail = "no relation recorded"
    for ex, e in fc.facts(Effect):
        m = pmatch("self.relations.append(Q_r)", e.call)
        if m is None or m["r"][0] != "call":
            continue
        kw = dict(m["r"][3])
        detail = tstr(m["r"])[:200]
        ok = kw.get("ready_dependent", ("c", False)) == ("c", False)
    ctx.check(ok, rule, fc.site, "TransactionBase.add_conflict.ready_dependent", found=detail, required="a conflict is not a ready dependency")


def registration(ctx: Ctx, pid: str):
    rule = f"{pid}.registration"
    pairs = (
        (TRANSACTION, "Transaction.__init__", "TransactionsKey", "transactions"),
        (METHOD, "Method.body", "DefinedMethodsKey", "methods"),
    )
    mgr = _fn(ctx, MANAGER, "TransactionManager.elaborate", rule)
    for rel, qual, key, attr in pairs:
        fn = _fn(ctx, rel, qual, rule)
        regs = [(ex, e) for ex, e in fn.facts(Effect) if pmatch("DependencyContext.get().add_dependency(Q_k(), self)", e.call) is not None]
        ok = any(pmatch("DependencyContext.get().add_dependency(Q_k(), self)", e.call)["k"] == ("n", key) and py_guard(e) is True and not loops(e) for _, e in regs)
        ctx.check(ok, rule, regs[0][1].site if regs else fn.site, f"{qual}.register", found="; ".join(f"{tstr(e.call)} if {fstr(py_guard(e))}" for _, e in regs) or "no registration",
                  required=f"every {'transaction' if attr == 'transactions' else 'defined method'} registers itself under {key}, unconditionally")
        got = [(ex, s) for ex, s in mgr.facts(Store) if s.target == ("a", ("self",), attr) and s.aug is None and pmatch("DependencyContext.get().get_dependency(Q_k())", s.value) is not None]
        ok = any(pmatch("DependencyContext.get().get_dependency(Q_k())", s.value)["k"] == ("n", key) and py_guard(s) is True and not loops(s) for _, s in got)
        ctx.check(ok, rule + ".collected", got[0][1].site if got else mgr.site, f"TransactionManager.elaborate.{attr}", found="; ".join(f"{tstr(s.target)} = {tstr(s.value)}" for _, s in got) or "not collected",
                  required=f"the manager schedules exactly the bodies registered under {key}")


def graph_ccs(ctx: Ctx, pid: str):
    """The schedulers are generated per connected component of the conflict graph: `_graph_ccs` has to return a partition of
    all vertices into sets closed under adjacency (a vertex left out is a transaction that is never scheduled; two adjacent
    vertices in different sets are scheduled independently although they conflict)."""
    from ..stage import Jump

    HELPERS = "transactron/utils/transactron_helpers.py"
    rule = f"{pid}.connected-components"
    fn = _fn(ctx, HELPERS, "_graph_ccs", rule)
    gr = fn.param(0)
    ok = True
    why = []
    seen_visit = seen_skip = False
    for ex in fn.exs:
        skip = [(t, v) for t, v in ex.config if pmatch("Q_w in Q_v", t) is not None]
        if len(skip) != 1:
            ok = False
            why.append("no single visited-test")
            continue
        (t, v) = skip[0]
        m = pmatch("Q_w in Q_v", t)
        w, visited = m["w"], m["v"]
        wd = ex.vardef(w) or w
        mq = pmatch("Q_q.pop()", wd) or pmatch("Q_q.pop(0)", wd) or pmatch("Q_q.popleft()", wd)
        effs = list(ex.of(Effect))
        marks = [e for e in effs if e.call == ("call", ("a", visited, "add"), (w,), ())]
        ext = [e for e in effs if mq is not None and e.call == ("call", ("a", mq["q"], "extend"), (("i", gr, w),), ())]
        adds = [e for e in effs if pmatch("Q_c.add(Q_x)", e.call) is not None and pmatch("Q_c.add(Q_x)", e.call)["x"] == w and e not in marks]
        outs = [e for e in effs if pmatch("Q_r.append(Q_c)", e.call) is not None]
        if v:
            seen_skip = True
            if marks or ext or adds:
                ok = False
                why.append("a visited vertex is processed again")
            if not any(isinstance(f, Jump) and f.kind == "continue" for f in ex.facts):
                ok = False
                why.append("visited vertex not skipped")
        else:
            seen_visit = True
            if not (len(marks) == 1 and len(ext) == 1 and len(adds) == 1):
                ok = False
                why.append(f"an unvisited vertex is marked {len(marks)}x, joins a component {len(adds)}x, queues its neighbours {len(ext)}x")
            elif outs:
                comp = pmatch("Q_c.add(Q_x)", adds[0].call)["c"]
                if pmatch("Q_r.append(Q_c)", outs[0].call)["c"] != comp:
                    ok = False
                    why.append("the set that is returned is not the set the vertices were added to")
            # the work list starts from the vertex the outer loop is at, and the outer loop visits every key
            if mq is not None:
                q = mq["q"]
                lp = loops(marks[0]) if marks else []
                start = lp[0][0][0] if lp else None
                its_ok = bool(lp) and lp[0][1] in (gr, ("call", ("a", gr, "keys"), (), ()))
                if not (its_ok and q in (("list", start),)):
                    ok = False
                    why.append(f"work list {tstr(q)} over {tstr(lp[0][1]) if lp else '?'}")
            else:
                ok = False
                why.append("vertex not taken from a work list")
        # finished component: appended iff non-empty, then a fresh set is started
        if any(v2 and t2[0] == "loopvar" for t2, v2 in ex.config) and not outs:
            ok = False
            why.append("a finished non-empty component is not collected")
        for e in outs:
            c = pmatch("Q_r.append(Q_c)", e.call)["c"]
            g = py_guard(e)
            if not (equivalent(g, A(c)) is None or g is True):
                ok = False
                why.append(f"component appended if {fstr(g)}")
            steps = [s for k, s in ex.loopdefs.items() if k[0] != "while"]
            if not any(s[1] is not None and s[1][0] == "obj" and s[1] != s[0] and ex.obj(s[1]) is not None and tstr(ex.obj(s[1]).ctor) in ("set()", "set[T]()") for s in steps):
                ok = False
                why.append("no fresh set after a finished component")
        rets = [r for r in ex.of(Return) if r.callid is None]
        if outs and not (rets and rets[0].value == pmatch("Q_r.append(Q_c)", outs[0].call)["r"]):
            ok = False
            why.append("returns something else than the collected components")
    ctx.check(ok and seen_visit and seen_skip, rule, fn.site, "_graph_ccs", found="; ".join(dict.fromkeys(why)) or "work-list closure over gr[w] from every key; visited vertices skipped; components appended when non-empty, fresh set afterwards",
              required="every vertex is visited once, joins the current component and queues all its neighbours; a finished non-empty component is collected and a fresh one started")


def _levels_opened(ctx: Ctx, rel: str, qual: str, rule: str) -> int:
    """Control levels between entering the body context and the yield of Transaction.body / Method.body."""
    fn = _fn(ctx, rel, qual, rule)
    ys = [(ex, e) for ex, e in fn.facts(Effect) if e.call[0] == "call" and e.call[1] == ("n", "yield")]
    if not ys:
        raise AnalysisError(rule, fn.site, f"{qual}: yield not found", missing=f"yield in {qual}")
    e = ys[0][1]
    n = None
    for k, fr in enumerate(e.frames):
        if fr[0] == "with":
            n = sum(1 for g in e.frames[k + 1:] if g[0] in ("avoid", "if", "elif", "else", "switch", "case", "fsm", "state"))
    if n is None:
        raise AnalysisError(rule, fn.site, f"{qual}: the yield is not inside the body context")
    return n


def conditional_depth(ctx: Ctx, pid: str):
    rule = f"{pid}.conditional-depth"
    opened = {_levels_opened(ctx, TRANSACTION, "Transaction.body", rule), _levels_opened(ctx, METHOD, "Method.body", rule)}
    fn = _fn(ctx, BODY, "Body.conditional_calls", rule)
    rets = fn.only(Return, lambda r: r.callid is None, rule, "return")
    v = rets[0][1].value
    ok = False
    detail = tstr(v)[:260]
    if v[0] == "lc" and len(v[3]) == 1 and len(opened) == 1:
        item, it, conds = v[3][0]
        k = next(iter(opened))
        if pmatch("self.method_calls.items()", it) is not None and v[2] == ("i", item, ("c", 0)) and len(conds) == 1:
            m = pmatch("any(Q_g)", conds[0])
            if m is not None and m["g"][0] == "lc" and len(m["g"][3]) == 1 and not m["g"][3][0][2] and m["g"][3][0][1] == ("i", item, ("c", 1)):
                call = m["g"][3][0][0]
                # the test: len(own path) + k < len(call path)
                test = m["g"][2]
                own = ("call", ("n", "len"), (("a", ("a", ("self",), "ctrl_path"), "path"),), ())
                cp = ("call", ("n", "len"), (("a", ("i", call, ("c", 0)), "path"),), ())
                from ..logic import to_lin

                if test[0] == "op" and test[1] in ("<", "<=") and len(test) == 4:
                    lo, klo = to_lin(test[2])
                    hi, khi = to_lin(test[3])
                    diff = klo - khi + (1 if test[1] == "<=" else 0)  # lo + klo < hi + khi  <=>  own + diff' ...
                    # normalise to: own + K < cp
                    if lo == {own: 1} and hi == {cp: 1}:
                        K = klo - khi if test[1] == "<" else klo - khi - 1
                        ok = K == k
                        detail += f" (conditional iff call depth > own depth + {K}; the body context opens {k} level(s))"
    ctx.check(ok, rule, fn.site, "Body.conditional_calls", found=detail,
              required="a call is conditional iff its control path is longer than the body's own path plus the level(s) the body context itself opens around the body")
