"""C15 / C14: declared ranges of counters and count arguments (found by the mutation sweep: `range(n + 1)` written as
`range(n)` survives every table rule because the tables compare values, not the capacity of the signal that carries them)."""

from __future__ import annotations

from ..front import AnalysisError
from ..logic import NotEvaluable, evalt, lin_equal, to_lin
from ..pm import pat, pmatch
from ..pyfacts import Fn
from ..stage import HwAssign, Store
from ..term import mentions, subterms, tstr

FIFO = "transactron/lib/fifo.py"


def _range_bound(t):
    m = pmatch("range(Q_n)", t)
    return m["n"] if m else None


def _holds(ctx, rule, site, construct, bound_term, want_fn, env_names, required):
    """range(bound_term) must hold every value 0..want, i.e. bound >= want + 1, for small parameter values."""
    bad = None
    if bound_term is None:
        bad = "not declared with range(...)"
    else:
        try:
            import itertools

            for vals in itertools.product(range(1, 5), repeat=len(env_names)):
                env = dict(zip(env_names, vals))
                b = evalt(bound_term, env)
                w = want_fn(*vals)
                if b < w + 1:
                    bad = f"for {', '.join(tstr(k) + '=' + str(v) for k, v in env.items())}: range({b}) cannot hold {w}"
                    break
        except NotEvaluable as e:
            raise AnalysisError(rule, site, f"{construct}: range bound {tstr(bound_term)} outside the evaluable fragment ({e})")
    ctx.check(bad is None, rule, site, construct, found=(tstr(bound_term) if bound_term is not None else "?") + ("" if bad is None else "  " + bad), required=required)


def wide_fifo_layouts(ctx, pid="C15"):
    fn = Fn(ctx.repo, FIFO, "WideFifo.__init__", pid)
    names = [a.arg for a in fn.fi.node.args.args + fn.fi.node.args.kwonlyargs]
    P = lambda n: next((x for ex in fn.exs for f in ex.facts for v in (getattr(f, "value", None),) if v is not None for x in subterms(v) if x[0] == "p" and x[-1] == n), None)  # noqa: E731
    rw, ww = P("read_width"), P("write_width")
    if rw is None:
        raise AnalysisError(pid, fn.site, "WideFifo.__init__: read_width parameter not used", missing="WideFifo.__init__: read_width parameter not used")
    n = 0
    for ex in fn.exs:
        ww_none = None
        for t, v in ex.config:
            if pmatch("None is Q_w", t) is not None and "write_width" in tstr(t):
                ww_none = v
        stores = {tstr(s.target): s for s in ex.of(Store)}
        if "self.read_layout" not in stores:
            continue  # rejected configuration
        n += 1
        cn = f"write_width {'defaults to read_width' if ww_none else 'given'}"

        def fields(v):
            m = pmatch("data.StructLayout(Q_d)", v)
            return {k[1]: x for k, x in m["d"][1]} if m and m["d"][0] == "dict" else {}

        rl = fields(stores["self.read_layout"].value)
        wl = fields(stores["self.write_layout"].value)
        W = rw if ww_none else ww
        envn = [rw] if ww_none or ww is None else [rw, ww]
        pick_r = (lambda r, w=None: r)
        pick_w = (lambda r, w=None: r) if (ww_none or ww is None) else (lambda r, w: w)
        _holds(ctx, f"{pid}.count-argument-range", stores["self.read_layout"].site, f"WideFifo.read_layout.count[{cn}]", _range_bound(rl.get("count", ("c", None))), pick_r, envn, "the returned count can be read_width")
        _holds(ctx, f"{pid}.count-argument-range", stores["self.write_layout"].site, f"WideFifo.write_layout.count[{cn}]", _range_bound(wl.get("count", ("c", None))), pick_w, envn, "the write count argument can be write_width")
        if "max_count" in wl:
            _holds(ctx, f"{pid}.count-argument-range", stores["self.write_layout"].site, f"WideFifo.write_layout.max_count[{cn}]", _range_bound(wl["max_count"]), pick_w, envn, "max_count can be write_width")
        # element arrays have exactly the width of the operation
        for lay, nm, wt in ((rl, "read_layout", rw), (wl, "write_layout", W)):
            m = pmatch("data.ArrayLayout(Q_s, Q_n)", lay.get("data", ("c", None)))
            ctx.check(m is not None and m["n"] == wt, f"{pid}.data-array-length", stores["self." + nm].site, f"WideFifo.{nm}.data[{cn}]", found=tstr(lay.get("data", ("c", None))), required=f"an array of exactly {tstr(wt)} elements")
        rd = ex.obj(stores["self.read"].value) if "self.read" in stores and stores["self.read"].value[0] == "obj" else None
        if rd is not None:
            kw = dict(rd.ctor[3])
            arg = kw.get("i")
            cnt = None
            if arg is not None and arg[0] == "list":
                for f in arg[1:]:
                    if f[0] == "tuple" and f[1] == ("c", "count"):
                        cnt = f[2]
            _holds(ctx, f"{pid}.count-argument-range", rd.site, f"WideFifo.read.count-argument[{cn}]", _range_bound(cnt) if cnt else None, pick_r, envn, "the read count argument can be read_width")
    ctx.floor(pid, "WideFifo layouts analysed", n, 2, fn.site)


def wide_fifo_counters(ctx, ex, cn, level, wcount, rcount, CAP, pid="C15", only_read=False):
    RW, WW = pat("self.read_width"), pat("self.write_width")
    table = ((wcount, "write_count", None, [WW], lambda w: w), (rcount, "read_count", None, [RW], lambda r: r))
    if only_read:
        table = ((rcount, "read_available", None, [RW], lambda r: r),)
    for sig, nm, bound, env, want in table:
        o = ex.obj(sig)
        b = _range_bound(o.ctor[2][0]) if o is not None and o.ctor[0] == "call" and o.ctor[1] == ("n", "Signal") and o.ctor[2] else None
        _holds(ctx, f"{pid}.counter-range", o.site if o else "", f"WideFifo.{nm}.shape[{cn}]", b, want, env, f"{nm} can equal the width of the operation")
    if only_read:
        return
    # the free-space signal (capacity - level) and the clamped available counts
    for h in ex.of(HwAssign):
        if h.lhs is None or h.lhs[0] != "obj" or h.guards():
            continue
        o = ex.obj(h.lhs)
        if o is None or not (o.ctor[0] == "call" and o.ctor[1] == ("n", "Signal") and o.ctor[2]):
            continue
        b = _range_bound(o.ctor[2][0])
        try:
            co, k = to_lin(h.rhs)
        except Exception:
            co, k = None, None
        if co is not None and co.get(level) == -1 and mentions(h.rhs, pat("self.depth")) or (co is not None and co.get(level) == -1 and len(co) >= 2):
            # remaining = capacity - level: up to capacity
            ok = b is not None and lin_equal(b, ("op", "+", h.rhs, ("op", "+", level, ("c", 1))))
            ctx.check(ok, f"{pid}.counter-range", o.site, f"WideFifo.free-space.shape[{cn}]", found=tstr(o.ctor), required="Signal(range(capacity + 1)): the free space can equal the capacity")
