"""C04 - methods execute exactly when called by a running caller."""

from . import core, core2, core3

M = core.MANAGER


def check(ctx):
    from . import core8

    core8.registration(ctx, "C04")
    core2.mgr_method_run(ctx, "C04")
    core2.mm_call_recording(ctx, "C04")
    core2.method_call_lowering(ctx, "C04")
    core2.mgr_ready_dependencies(ctx, "C04")
    core2.mgr_runnable(ctx, "C04")
    core2.body_wrappers(ctx, "C04")
    core2.mgr_provided_mirrors(ctx, "C04")
    core2.sched_run_definitions(ctx, "C04", want_equiv=False)
    from . import core7

    core7.retired_stay(ctx, "C04")
    from . import core9

    core9.enable_call_defaults(ctx, "C04")
    # the enable of a call site is driven in av_comb: it follows the conditions around the call only if every control manager
    # mirrors its condition into the avoiding module
    core3.tmodule_control_table(ctx, "C04", want_enter=False, want_mirror=True)
    core7.group_has_enclosing(ctx, "C04")


MUTANTS = [
    ("group-without-partner-built", M, "                    for dep in body.simultaneous_list\n                ):\n                    continue\n", "                    for dep in body.simultaneous_list\n                ):\n                    pass\n"),
    ("partner-test-members-only", M, "                    for body in method_map.ready_for_transaction(transaction)\n                    for dep in body.simultaneous_list\n", "                    for body in [transaction]\n                    for dep in body.simultaneous_list\n"),
    ("partner-test-polarity", M, "not any(group & frozenset(method_map.transactions_for(alt)) for alt in partners(body, dep))", "any(group & frozenset(method_map.transactions_for(alt)) for alt in partners(body, dep))"),
    ("ungrouped-simultaneous-transactions-dropped", M, "        for transaction in all_simultaneous:\n            method = Method(", "        for transaction in set[TBody]().union(*final_simultaneous):\n            method = Method("),
    ("method-run-all-callers", M, "m.d.comb += method.run.eq(granted.any())", "m.d.comb += method.run.eq(granted.all())"),
    ("method-run-ignores-enable", M, "transaction.run & Cat(call.enable for call in method_map.info_by_call[(transaction, method)]).any()", "transaction.run"),
    ("method-run-wrong-key", M, "Cat(call.enable for call in method_map.info_by_call[(transaction, method)]).any()\n                for transaction in transactions", "Cat(call.enable for call in method_map.info_by_call[(transactions[0], method)]).any()\n                for transaction in transactions"),
    ("enable-not-accumulated", M, "new_call_enable = call_enable & enable_sig", "new_call_enable = enable_sig"),
    ("enable-or-accumulated", M, "new_call_enable = call_enable & enable_sig", "new_call_enable = call_enable | enable_sig"),
    ("enable-sig-comb", core.METHOD, "m.d.av_comb += enable_sig.eq(1)", "m.d.top_comb += enable_sig.eq(1)"),
    ("enable-call-not-lowered", core.METHOD, "            with m.If(enable_call):\n                return self(m, arg)", "            return self(m, arg)"),
    ("nesting-no-relation", core.BODY, "        if parent is not None:\n            parent.schedule_before(self, ready_dependent=True)\n", ""),
    ("body-not-avoided", core.METHOD, "            with m.AvoidedIf(body.run):\n                yield body.data_in", "            with m.AvoidedIf(body.ready):\n                yield body.data_in"),
    ("provided-run-mirror-swapped", M, "m.d.comb += method.run.eq(method._body.run)", "m.d.comb += method.run.eq(method._body.ready)"),
]
