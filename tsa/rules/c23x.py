"""Extra C23 rules: generalised skip-own-index maps, index families, granularity of internal write ports."""

from __future__ import annotations

import itertools

from ..front import AnalysisError
from ..logic import NotEvaluable, eval_seq, evalt
from ..pm import find_all, has, pat, pmatch
from ..stage import HwAssign
from ..term import rewrite, subst, subterms, tstr

NR = pat("len(self.read_ports)")
NW = pat("len(self.write_ports)")


def _resolve_len(ex, t, val):
    """Replace len(<object list>) by its numeric value under `val` (lists built by comprehensions over a range / a port list)."""

    def f(x):
        m = pmatch("len(Q_o)", x) if x[0] == "call" else None
        if m:
            o = m["o"]
            if o == pat("self.read_ports"):
                return ("c", val[NR])
            if o == pat("self.write_ports"):
                return ("c", val[NW])
            ob = ex.obj(o)
            if ob is not None and ob.ctor[0] == "lc" and len(ob.ctor[3]) == 1:
                it = ob.ctor[3][0][1]
                try:
                    return ("c", len(_domain(ex, it, val)))
                except NotEvaluable:
                    return None
        return None

    return rewrite(t, f)


def _domain(ex, it, val) -> list[int]:
    """Index domain of a loop over `it`: positions 0..len-1 for port lists, the integers for range/chain/reversed."""
    if it == pat("self.read_ports"):
        return list(range(val[NR]))
    if it == pat("self.write_ports"):
        return list(range(val[NW]))
    m = pmatch("enumerate(Q_x)", it)
    if m:
        return _domain(ex, m["x"], val)
    ob = ex.obj(it)
    if ob is not None and ob.ctor[0] == "lc" and len(ob.ctor[3]) == 1:
        return list(range(len(_domain(ex, ob.ctor[3][0][1], val))))
    m = pmatch("range(len(Q_x))", it)
    if m:
        return _domain(ex, m["x"], val)
    return eval_seq(_resolve_len(ex, it, val), {})


def _eval_index(ex, s, val, env) -> int:
    # protect the loop variables (their iterables mention len(...) too and must keep their identity)
    ph = {b: ("bv", k) for k, b in enumerate(env)}
    t = subst(s, ph)
    t = rewrite(t, lambda x: ("call", ("n", "Mux"), (x[1], x[2], x[3]), ()) if x[0] == "ife" else None)
    t = _resolve_len(ex, t, val)
    return int(evalt(t, {ph[b]: v for b, v in env.items()}))


def skip_own_index_maps(ctx, ex, cls) -> int:
    """Every integer-valued conditional index expression over two loop variables, one ranging over the write ports
    (`own`) and one over one fewer positions, is the bijection onto the *other* write ports."""
    n = 0
    seen = set()
    for f in ex.of(HwAssign):
        for t in (f.rhs, f.lhs):
            if t is None:
                continue
            for s in subterms(t):
                if s[0] != "ife" or s in seen:
                    continue
                bs = list(dict.fromkeys(x for x in subterms(s) if x[0] == "b"))
                if len(bs) != 2:
                    continue
                seen.add(s)
                verdicts = []
                evaluable = True
                for nw, nr in itertools.product(range(2, 6), (1, 2)):
                    val = {NW: nw, NR: nr}
                    try:
                        doms = [_domain(ex, b[2], val) for b in bs]
                    except (NotEvaluable, Exception):  # noqa: BLE001
                        evaluable = False
                        break
                    own = [k for k, d in enumerate(doms) if len(d) == nw]
                    pos = [k for k, d in enumerate(doms) if len(d) == nw - 1]
                    if len(own) != 1 or len(pos) != 1:
                        evaluable = False
                        break
                    ob, pb = bs[own[0]], bs[pos[0]]
                    for o in doms[own[0]]:
                        try:
                            img = sorted(_eval_index(ex, s, val, {ob: o, pb: p}) for p in doms[pos[0]])
                        except (NotEvaluable, Exception):  # noqa: BLE001
                            evaluable = False
                            break
                        want = [k for k in range(nw) if k != o]
                        if img != want:
                            verdicts.append(f"write ports={nw}, own={o}: image {img}, expected {want}")
                            break
                    if not evaluable or verdicts:
                        break
                if not evaluable:
                    continue  # not an integer index map over (own port, position)
                n += 1
                ctx.check(not verdicts, "C23.skip-own-index", f.site, f"{cls}.feedback-map", found=tstr(s)[:120] + ("  " + verdicts[0] if verdicts else "  maps the positions onto the other write ports (2..5 ports)"),
                          required="feedback position i of write port k addresses exactly the other write ports, each once")
    return n


def index_families(ctx, ex, cls) -> int:
    """`self.read_ports[j]` is indexed only by loop variables that range over the read ports (resp. write ports)."""
    n = 0

    def family(b):
        it = b[2]
        for _ in range(4):
            if has("self.read_ports", it) and not has("self.write_ports", it):
                return "R"
            if has("self.write_ports", it) and not has("self.read_ports", it):
                return "W"
            objs = [s for s in subterms(it) if s[0] == "obj"]
            if len(objs) == 1 and ex.obj(objs[0]) is not None and ex.obj(objs[0]).ctor[0] == "lc":
                it = ex.obj(objs[0]).ctor[3][0][1]
                continue
            return None
        return None

    for h in ex.of(HwAssign):
        for t in (h.rhs, h.lhs):
            if t is None:
                continue
            for fam, patt in (("R", "self.read_ports[Q_j]"), ("W", "self.write_ports[Q_j]")):
                for m in find_all(patt, t):
                    j = m["j"]
                    if j[0] != "b":
                        continue
                    fj = family(j)
                    if fj is None:
                        continue
                    n += 1
                    ctx.check(fj == fam, "C23.index-family", h.site, f"{cls}.{'read' if fam == 'R' else 'write'}_ports[{tstr(j[2])[:40]}]",
                              found=f"{patt.split('[')[0]} indexed by a variable ranging over {tstr(j[2])[:80]}", required="a port list is indexed by a loop over the same kind of ports")
    return n


def internal_write_port_granularity(ctx, ex, cls, rejects: bool) -> int:
    """If the class does not reject granularity, every internal write port whose enable is driven by a user port's
    enable must be created with that user port's granularity (otherwise the mask is truncated)."""
    if rejects:
        return 0
    n = 0
    for h in ex.of(HwAssign):
        if h.lhs is None or h.rhs is None or h.lhs[0] != "a" or h.lhs[2] != "en":
            continue
        src = None
        if h.rhs[0] == "a" and h.rhs[2] == "en" and (has("self.write_ports", h.rhs) or h.rhs[1][0] in ("i", "v")):
            src = h.rhs
        if src is None:
            continue
        port = h.lhs[1]
        ob = ex.obj(port)
        if ob is None and port[0] == "i":
            ob = ex.obj(port[1])
        if ob is None:
            continue
        ctor = ob.ctor
        if ctor[0] == "lc" and ex.obj(ctor[2]) is not None:
            ctor = ex.obj(ctor[2]).ctor
        if ctor[0] == "call" and ctor[1][0] == "a" and ctor[1][2] == "write_port":
            n += 1
            g = dict(ctor[3]).get("granularity")
            ok = g is not None and g[0] == "a" and g[2] == "granularity"
            ctx.check(ok, "C23.internal-port-granularity", ob.site, f"{cls}.{ob.name}.granularity", found=tstr(ctor),
                      required="an internal write port fed with a user port's enable has that port's granularity (the class does not reject granularity)")
    return n
