"""Obligations on OneHotMux / one_hot_mux (shared by C05 and C38)."""

from __future__ import annotations

from ..front import AnalysisError
from ..logic import atoms_of, equivalent, f_and, f_not, f_or, fstr, implies, to_formula
from ..pm import find_all, has, pat, pmatch
from ..pyfacts import Fn, is_call_to, loop_iters, loops, py_guard
from ..report import Ctx
from ..stage import Effect, HwAssign, Return, Store, Submodule
from ..term import Term, mentions, mk_op, subterms, tstr
from .core import A, _fn

ELAB = "transactron/utils/amaranth_ext/elaboratables.py"
FUNCS = "transactron/utils/amaranth_ext/functions.py"


def one_hot_mux_alignment(ctx: Ctx, pid: str):
    """select[i] and inputs[i] are wired from the same pair; the mux pairs select[i] with inputs[i]."""
    rule = f"{pid}.onehot-mux"
    fn = _fn(ctx, ELAB, "OneHotMux.create", rule)
    inputs_p = fn.param(1)
    default_p = fn.param(2)
    n = 0
    for ex in fn.exs:
        net = None
        for r in ex.of(Return):
            if r.callid is None and r.value[0] == "a" and r.value[2] == "output":
                net = r.value[1]
        if net is None:
            continue
        n += 1
        o = ex.obj(net)
        sel = [h for h in ex.of(HwAssign) if h.lhs is not None and pmatch("Q_n.select[Q_i]", h.lhs)]
        inp = [h for h in ex.of(HwAssign) if h.lhs is not None and (pmatch("Value.cast(Q_n.inputs[Q_i])", h.lhs) or pmatch("Q_n.inputs[Q_i]", h.lhs))]
        ok = len(sel) == 1 and len(inp) == 1
        detail = "; ".join(f"{tstr(h.lhs)} <- {tstr(h.rhs)}" for h in sel + inp)
        if ok:
            hs, hi = sel[0], inp[0]
            ms = pmatch("Q_n.select[Q_i]", hs.lhs)
            mi = pmatch("Value.cast(Q_n.inputs[Q_i])", hi.lhs) or pmatch("Q_n.inputs[Q_i]", hi.lhs)
            lp = loops(hs)
            ok = (ms["n"] == net == mi["n"] and len(lp) == 1 and lp == loops(hi) and ms["i"] == mi["i"] == lp[0][0][0])
            if ok:
                i = ms["i"]
                seq = ("call", ("n", "list"), (inputs_p,), ())
                pair = lambda k: (("i", ("i", seq, i), ("c", k)), ("i", ("i", inputs_p, i), ("c", k)))  # noqa: E731
                ms2 = pmatch("Value.cast(Q_s).any()", hs.rhs) or pmatch("Value.cast(Q_s).bool()", hs.rhs) or {"s": hs.rhs}
                ok = ms2["s"] in pair(0) and hi.rhs in pair(1) and hs.domain == hi.domain == ("c", "top_comb")
        ctx.check(ok, rule + ".create-alignment", sel[0].site if sel else fn.site, "OneHotMux.create.wiring", found=detail,
                  required="for every (sel, value) pair i: select[i] <- sel, inputs[i] <- value (same i), driven unconditionally")
        if o is not None:
            m = pmatch("OneHotMux(Q_shape, len(Q_l), has_default=Q_d, priority=Q_p)", o.ctor)
            ok = m is not None and m["l"] in (inputs_p, ("call", ("n", "list"), (inputs_p,), ())) and m["p"] == fn.param(3)
            okd = ok and to_formula(m["d"]) in (True, False) or (ok and equivalent(to_formula(m["d"]), f_not(A(mk_op("is", ("c", None), default_p)))) is None)
            ctx.check(bool(okd), rule + ".create-size", o.site, "OneHotMux.create.instance", found=tstr(o.ctor),
                      required="one input per pair, priority passed through, has_default iff a default is given")
        dflt = [h for h in ex.of(HwAssign) if h.lhs is not None and has("Q_n.default_input", h.lhs)]
        has_def = dict(ex.config).get(mk_op("is", ("c", None), default_p))
        if has_def is False:
            ctx.check(len(dflt) == 1 and dflt[0].rhs == default_p, rule + ".create-default", dflt[0].site if dflt else fn.site, "OneHotMux.create.default",
                      found="; ".join(tstr(h.rhs) for h in dflt) or "not wired", required="the default input is wired when given")
    ctx.floor(rule, "create configurations", n, 2, fn.site)
    el = _fn(ctx, ELAB, "OneHotMux.elaborate", rule)
    outs = el.facts(HwAssign, lambda h: h.lhs is not None and has("self.output", h.lhs))
    ctx.floor(rule, "output assignments", len(outs), 1, el.site)
    for ex, h in outs:
        m = pmatch("one_hot_mux(Q_pairs, assert_one_hot=Q_a, default=Q_d, priority=Q_p)", h.rhs)
        ok = False
        if m and m["pairs"][0] == "lc":
            lc = m["pairs"]
            (b, it, conds) = lc[3][0]
            ok = lc[2] == ("tuple", ("i", pat("self.select"), b), ("i", pat("self.inputs"), b)) and not conds and m["p"] == pat("self.priority")
            ok = ok and pmatch("range(len(Q_x))", it) is not None and pmatch("range(len(Q_x))", it)["x"] in (pat("self.select"), pat("self.inputs"))
            hd = dict(ex.config).get(pat("self.has_default"))
            ok = ok and ((hd is True and m["d"] == pat("self.default_input")) or (hd is False and m["d"] == ("c", None)))
        ctx.check(ok, rule + ".elaborate", h.site, "OneHotMux.elaborate.output", found=tstr(h.rhs)[:260],
                  required="output <- one_hot_mux([(select[i], inputs[i]) for every i], default iff has_default, priority=self.priority)")
