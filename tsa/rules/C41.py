"""C41 - data helpers.

transpose: nesting-order agreement between the produced layout (outer level = inner keys of the argument) and the
bit order of the produced value (generator order and index swap), the constant branch, key order, rejections.
Numeric helpers (align_*, signed_to_int / int_to_signed, neg, bits_from_int): the returned python-integer expression
is evaluated by the analyser for every argument in a bounded range and compared with the documented function.
make_hashable: per-kind conversion table (mapping -> frozenset of pairs, iterable -> tuple in order, hashable -> itself)."""

import ast

from .common import *
from ..pm import find_all, has, pat, pmatch
from ..pyfacts import Fn, loops, py_guard
from ..stage import Effect, Raise
from ..term import mentions, subterms

DATA = "transactron/utils/amaranth_ext/data.py"
REPR = "transactron/utils/data_repr.py"


# ---------------------------------------------------------------------------------------------------------------
# transpose


def transpose_rules(ctx):
    ctx.use(DATA)
    fn = Fn(ctx.repo, DATA, "transpose", "C41")
    view = fn.param(0)
    T = ("call", ("n", "transpose_layout_with_keys"), (("call", ("a", view, "shape"), (), ()),), ())
    LAYOUT, OK_, IK_ = ("i", T, ("c", 0)), ("i", T, ("c", 1)), ("i", T, ("c", 2))
    n = 0
    for ex in fn.exs:
        rets = [r for r in ex.of(Return) if r.callid is None]
        if len(rets) != 1:
            raise AnalysisError("C41.transpose", fn.site, f"transpose: {len(rets)} returns in one configuration")
        r = rets[0]
        is_const = dict(ex.config).get(("call", ("n", "isinstance"), (view, ("a", ("n", "data"), "Const")), ()))
        n += 1
        if is_const:
            m = pmatch("Q_l.const(Q_d)", r.value)
            ok = m is not None and m["l"] == LAYOUT and m["d"][0] == "lc" and m["d"][1] == "dict" and len(m["d"][3]) == 1
            if ok:
                bi, it_i, c_i = m["d"][3][0]
                key, inner = m["d"][2][1], m["d"][2][2]
                ok = it_i == IK_ and not c_i and key == bi and inner[0] == "lc" and inner[1] == "dict" and len(inner[3]) == 1
                if ok:
                    bo, it_o, c_o = inner[3][0]
                    ok = it_o == OK_ and not c_o and inner[2] == ("tuple", bo, ("i", ("i", view, bo), bi))
            ctx.check(ok, "C41.transpose-const", r.site, "transpose[Const]", found=tstr(r.value)[:220],
                      required="layout.const({i_key: {o_key: view[o_key][i_key] for o_key in o_keys} for i_key in i_keys}): outer level = inner keys, element [i][o] = view[o][i]")
        else:
            m = pmatch("data.View(Q_l, Cat(Q_g))", r.value)
            ok = m is not None and m["l"] == LAYOUT and m["g"][0] == "lc" and len(m["g"][3]) == 2
            if ok:
                (bi, it_i, c_i), (bo, it_o, c_o) = m["g"][3]
                elt = m["g"][2]
                me = pmatch("Value.cast(Q_x)", elt)
                ok = (it_i == IK_ and it_o == OK_ and not c_i and not c_o and me is not None and me["x"] == ("i", ("i", view, bo), bi))
            ctx.check(ok, "C41.transpose-view", r.site, "transpose[View]", found=tstr(r.value)[:220],
                      required="View(layout, Cat(view[o_key][i_key] for i_key in i_keys for o_key in o_keys)): the outer loop runs over the inner keys (layout order of the result), element = view[o][i]")
    ctx.floor("C41", "transpose configurations", n, 2, fn.site)
    # transpose_layout_with_keys: returns (layout, o_keys, i_keys) in that order; outer level of the result over i_keys
    fk = Fn(ctx.repo, DATA, "transpose_layout_with_keys", "C41")
    layout = fk.param(0)
    n = 0
    for ex in fk.exs:
        rets = [r for r in ex.of(Return) if r.callid is None]
        if not rets:
            continue
        n += 1
        v = rets[0].value
        ok = v[0] == "tuple" and len(v) == 4
        if ok:
            ok_d = ex.vardefs.get(v[2][2]) if v[2][0] == "v" else v[2]
            ik_d = ex.vardefs.get(v[3][2]) if v[3][0] == "v" else v[3]
            ok = ok_d == ("call", ("n", "layout_keys"), (layout,), ())
            mi = pmatch("layout_keys(Q_x)", ik_d) if ik_d else None
            ok = ok and mi is not None and mentions(mi["x"], v[2]) and has("Q_k[0]", mi["x"])
        ctx.check(ok, "C41.transpose-keys", rets[0].site, "transpose_layout_with_keys.returns", found=tstr(v)[:200],
                  required="(layout, o_keys, i_keys) with o_keys = layout_keys(layout) and i_keys = the keys of the first field's layout")
    ctx.floor("C41", "transpose_layout_with_keys results", n, 2, fk.site)
    # the nesting of the result, read off the syntax of the two nested lambdas
    node = fk.fi.node
    found = None
    for call in ast.walk(node):
        if isinstance(call, ast.Call) and isinstance(call.func, ast.Name) and call.func.id == "mk_layout" and len(call.args) == 2 and isinstance(call.args[1], ast.Lambda):
            outer = call.args[1]
            inner_call = outer.body
            if isinstance(inner_call, ast.Call) and isinstance(inner_call.func, ast.Name) and inner_call.func.id == "mk_layout" and len(inner_call.args) == 2 and isinstance(inner_call.args[1], ast.Lambda):
                inner = inner_call.args[1]
                found = (ast.unparse(call.args[0]), outer.args.args[0].arg, ast.unparse(inner_call.args[0]), inner.args.args[0].arg, inner.body)
    ok = False
    detail = "nested mk_layout(keys, lambda ...) not found"
    if found:
        k_outer, p_outer, k_inner, p_inner, body = found
        detail = f"mk_layout({k_outer}, lambda {p_outer}: mk_layout({k_inner}, lambda {p_inner}: {ast.unparse(body)}))"
        shape = body.value if isinstance(body, ast.Attribute) and body.attr == "shape" else None
        # roles of the local names: the function returns (layout, <outer keys of the argument>, <inner keys>); the table of
        # field layouts is the dict built over the outer keys
        o_name = i_name = None
        for st in ast.walk(node):
            if isinstance(st, ast.Return) and isinstance(st.value, ast.Tuple) and len(st.value.elts) == 3 and all(isinstance(e, ast.Name) for e in st.value.elts[1:]):
                o_name, i_name = st.value.elts[1].id, st.value.elts[2].id
        tables = set()
        for st in ast.walk(node):
            if isinstance(st, ast.Assign) and len(st.targets) == 1 and isinstance(st.targets[0], ast.Name):
                for dc in ast.walk(st.value):
                    if isinstance(dc, ast.DictComp) and len(dc.generators) == 1 and isinstance(dc.generators[0].iter, ast.Name) and dc.generators[0].iter.id == o_name:
                        tables.add(st.targets[0].id)
        ok = (o_name is not None and k_outer == i_name and k_inner == o_name and shape is not None and isinstance(shape, ast.Subscript) and isinstance(shape.value, ast.Subscript)
              and isinstance(shape.slice, ast.Name) and shape.slice.id == p_outer and isinstance(shape.value.slice, ast.Name) and shape.value.slice.id == p_inner
              and isinstance(shape.value.value, ast.Name) and shape.value.value.id in tables)
    ctx.check(ok, "C41.transpose-layout-nesting", fk.site, "transpose_layout_with_keys.ret_layout", found=detail,
              required="outer level over i_keys, inner level over o_keys, leaf shape = i_layouts[o_key][i_key].shape (the swapped position)")
    # mk_layout: struct for names (same keys, in order), array for indices (length = number of keys)
    mk = [(ex, r) for ex in fk.exs for r in ex.of(Return) if r.callid is not None]
    kinds = set()
    for ex, r in mk:
        v = r.value
        if pmatch("data.StructLayout(Q_d)", v):
            d = pmatch("data.StructLayout(Q_d)", v)["d"]
            ok = d[0] == "lc" and d[1] == "dict" and len(d[3]) == 1 and d[2][1] == d[3][0][0] and not d[3][0][2]
            kinds.add("struct")
            ctx.check(ok, "C41.mk-layout", r.site, "mk_layout[struct]", found=tstr(v)[:160], required="StructLayout({k: cont(k) for k in keys}): one member per key, same names")
        elif pmatch("data.ArrayLayout(Q_e, Q_n)", v):
            m = pmatch("data.ArrayLayout(Q_e, Q_n)", v)
            ok = pmatch("len(Q_k)", m["n"]) is not None
            kinds.add("array")
            ctx.check(ok, "C41.mk-layout", r.site, "mk_layout[array]", found=tstr(v)[:160], required="ArrayLayout(cont(0), len(keys))")
    ctx.check(kinds == {"struct", "array"}, "C41.mk-layout-kinds", fk.site, "mk_layout.kinds", found=str(sorted(kinds)), required="struct and array results", nontrivial=False)
    texts = {"not ArrayLayout nor StructLayout", "no fields", "different keys"}
    have = {t for t in texts for _, r in fk.facts(Raise) if t in tstr(r.exc)}
    ctx.check(have == texts, "C41.transpose-rejections", fk.site, "transpose_layout_with_keys.raises", found=str(sorted(have)), required="non-layout arguments, empty layouts and fields with different keys are rejected", nontrivial=False)
    lk = Fn(ctx.repo, DATA, "layout_keys", "C41")
    rets = [r for ex in lk.exs for r in ex.of(Return) if r.callid is None]
    ok = len(rets) == 1 and rets[0].value[0] == "lc" and rets[0].value[3][0][1] == lk.param(0) and rets[0].value[2] == ("i", rets[0].value[3][0][0], ("c", 0)) and not rets[0].value[3][0][2]
    ctx.check(ok, "C41.layout-keys", lk.site, "layout_keys", found="; ".join(tstr(r.value) for r in rets), required="[k for k, _ in layout]: all keys in declaration order")


# ---------------------------------------------------------------------------------------------------------------
# python-integer helpers


def pyint(t, env):
    """Value of a python-level integer expression (unbounded integers)."""
    if t in env:
        return env[t]
    k = t[0]
    if k == "c" and isinstance(t[1], int):
        return t[1]
    if k == "op":
        o = t[1]
        xs = [pyint(x, env) for x in t[2:]]
        if o in ("+", "*", "&", "|", "^"):
            r = xs[0]
            for x in xs[1:]:
                r = {"+": r + x, "*": r * x, "&": r & x, "|": r | x, "^": r ^ x}[o]
            return r
        if o == "neg":
            return -xs[0]
        if o == "~":
            return ~xs[0]
        if o == "not":
            return not xs[0]
        if len(xs) == 2:
            a, b = xs
            if o == "**":
                if not 0 <= b <= 64:
                    raise NotEvaluable("exponent")
                return a**b
            if o in ("<<", ">>") and not 0 <= b <= 64:
                raise NotEvaluable("shift")
            tbl = {"-": lambda: a - b, "//": lambda: a // b, "%": lambda: a % b, "<<": lambda: a << b, ">>": lambda: a >> b, "==": lambda: a == b, "!=": lambda: a != b, "<": lambda: a < b, "<=": lambda: a <= b}
            if o in tbl:
                return tbl[o]()
    raise NotEvaluable(tstr(t))


def _eval_fn(fn, args: dict):
    """Evaluate the function under the static configuration selected by the arguments."""
    for ex in fn.exs:
        if all(bool(pyint(t, args)) == v for t, v in ex.config):
            rets = [r for r in ex.of(Return) if r.callid is None]
            if len(rets) != 1:
                raise NotEvaluable(f"{len(rets)} returns")
            return pyint(rets[0].value, args)
    raise NotEvaluable("no configuration applies")


def numeric(ctx):
    ctx.use(REPR)
    specs = []

    def spec(name, ranges, ref, required):
        specs.append((name, ranges, ref, required))

    spec("align_to_power_of_two", lambda: ((n, p) for p in range(0, 5) for n in range(0, 70)), lambda n, p: -(-n // (1 << p)) * (1 << p), "the smallest multiple of 2**power that is >= num")
    spec("align_down_to_power_of_two", lambda: ((n, p) for p in range(0, 5) for n in range(0, 70)), lambda n, p: (n // (1 << p)) * (1 << p), "the largest multiple of 2**power that is <= num")
    spec("bits_from_int", lambda: ((n, lo, ln) for n in range(0, 64) for lo in range(0, 5) for ln in range(0, 5)), lambda n, lo, ln: (n >> lo) % (1 << ln), "bits lower .. lower+length-1 of num")
    spec("neg", lambda: ((x, w) for w in range(1, 6) for x in range(0, 1 << w)), lambda x, w: (-x) % (1 << w), "two's complement negation modulo 2**xlen")
    spec("int_to_signed", lambda: ((x, w) for w in range(1, 6) for x in range(-(1 << (w - 1)), 1 << (w - 1))), lambda x, w: x % (1 << w), "the xlen-bit two's complement encoding of x")
    spec("signed_to_int", lambda: ((x, w) for w in range(1, 6) for x in range(0, 1 << w)), lambda x, w: x - (1 << w) if x >= (1 << (w - 1)) else x, "the signed value of the xlen-bit encoding x")
    fns = {}
    for name, ranges, ref, required in specs:
        fn = Fn(ctx.repo, REPR, name, "C41")
        fns[name] = fn
        bad, n = None, 0
        # these helpers are defined on python integers of any size (addresses, 64-bit masks): true division or a float
        # function in them is exact only below 2**53
        inexact = sorted({tstr(t)[:60] for ex in fn.exs for f in ex.facts for v in f.__dict__.values() if isinstance(v, tuple) for t in subterms(v)
                          if isinstance(t, tuple) and ((len(t) >= 2 and t[0] == "op" and t[1] == "/") or (t[:1] == ("call",) and len(t) > 1 and t[1] in (("n", "ceil"), ("n", "floor"), ("n", "log2"), ("n", "float"), ("n", "round"), ("a", ("n", "math"), "ceil"), ("a", ("n", "math"), "floor"), ("a", ("n", "math"), "log2"))))})
        if inexact:
            ctx.bad("C41.numeric-exact", fn.site, name, found="floating-point arithmetic: " + "; ".join(inexact[:3]), required="exact integer arithmetic (the result for an integer above 2**53 must not be rounded)")
            continue
        try:
            for args in ranges():
                env = {fn.param(i): a for i, a in enumerate(args)}
                got = _eval_fn(fn, env)
                n += 1
                if got != ref(*args):
                    bad = f"{name}{args} = {got}, documented {ref(*args)}"
                    break
        except NotEvaluable as e:
            raise AnalysisError("C41.numeric", fn.site, f"{name}: outside the python-integer fragment: {e}")
        ctx.check(bad is None, "C41.numeric-helpers", fn.site, name, found=(bad or "agrees") + f"  [{n} argument tuples evaluated]", required=required)
    # the two conversions are inverse on width-bounded values (both directions)
    bad, n = None, 0
    s2i, i2s = fns["signed_to_int"], fns["int_to_signed"]
    try:
        for w in range(1, 7):
            for x in range(0, 1 << w):
                s = _eval_fn(s2i, {s2i.param(0): x, s2i.param(1): w})
                back = _eval_fn(i2s, {i2s.param(0): s, i2s.param(1): w})
                n += 1
                if back != x or not -(1 << (w - 1)) <= s < (1 << (w - 1)):
                    bad = f"xlen={w}: int_to_signed(signed_to_int({x})) = int_to_signed({s}) = {back}"
                    break
            if bad:
                break
    except NotEvaluable as e:
        raise AnalysisError("C41.numeric", s2i.site, f"round trip outside the python-integer fragment: {e}")
    ctx.check(bad is None, "C41.signed-roundtrip", s2i.site, "signed_to_int/int_to_signed", found=(bad or "inverse") + f"  [{n} values]", required="int_to_signed(signed_to_int(x, w), w) == x and the signed value lies in [-2**(w-1), 2**(w-1)) for widths 1..6")


def make_hashable(ctx):
    fn = Fn(ctx.repo, REPR, "make_hashable", "C41")
    val = fn.param(0)
    seen = set()
    for ex in fn.exs:
        rets = [r for r in ex.of(Return) if r.callid is None]
        if not rets:
            continue
        r = rets[0]
        cfg = {tstr(t): v for t, v in ex.config}
        v = r.value
        if cfg.get("isinstance(val, Mapping)") is True:
            kind = "mapping"
            m = pmatch("frozenset(Q_g)", v)
            ok = m is not None and m["g"][0] == "lc" and len(m["g"][3]) == 1 and m["g"][3][0][1] == ("call", ("a", val, "items"), (), ()) and not m["g"][3][0][2]
            if ok:
                b = m["g"][3][0][0]
                ok = m["g"][2] == ("tuple", ("i", b, ("c", 0)), ("call", ("n", "make_hashable"), (("i", b, ("c", 1)),), ()))
            req = "frozenset of (key, make_hashable(value)) pairs over all items: equal mappings give equal results, order-insensitive"
        elif any(v_ and pmatch("isinstance(Q_v, Q_t)", t_) is not None and tstr(pmatch("isinstance(Q_v, Q_t)", t_)["t"]) in ("AbstractSet", "Set", "collections.abc.Set", "(set, frozenset)", "set") for t_, v_ in ex.config):
            # a set's iteration order is not part of its value: equal sets must give equal results (F14)
            kind = "set"
            m = pmatch("frozenset(Q_g)", v)
            ok = m is not None and m["g"][0] == "lc" and len(m["g"][3]) == 1 and m["g"][3][0][1] == val and not m["g"][3][0][2] and m["g"][2] == ("call", ("n", "make_hashable"), (m["g"][3][0][0],), ())
            req = "frozenset of make_hashable(element): order-insensitive, like the set itself"
        elif cfg.get("isinstance(val, Iterable)") is True:
            kind = "iterable"
            m = pmatch("tuple(Q_g)", v)
            ok = m is not None and m["g"][0] == "lc" and len(m["g"][3]) == 1 and m["g"][3][0][1] == val and not m["g"][3][0][2] and m["g"][2] == ("call", ("n", "make_hashable"), (m["g"][3][0][0],), ())
            req = "tuple of make_hashable(element) for every element, in order"
        else:
            kind = "hashable"
            ok = v == val and any(e.call == ("call", ("n", "hash"), (val,), ()) for e in ex.of(Effect))
            req = "a hashable value is returned unchanged (after hash(val) succeeded)"
        seen.add(kind)
        ctx.check(ok, "C41.make-hashable", r.site, f"make_hashable[{kind}]", found=tstr(v)[:160], required=req)
    ctx.check(seen == {"mapping", "set", "iterable", "hashable"}, "C41.make-hashable-kinds", fn.site, "make_hashable.kinds", found=str(sorted(seen)),
              required="hashable, mapping, set and (ordered) iterable arguments are told apart: only for ordered iterables is the order part of the value")
    rr = fn.facts(Raise)
    ctx.check(bool(rr), "C41.make-hashable-reraise", fn.site, "make_hashable.other", found=f"{len(rr)} raise(s)", required="anything else re-raises the TypeError", nontrivial=False)


def check(ctx):
    transpose_rules(ctx)
    numeric(ctx)
    make_hashable(ctx)


MUTANTS = [
    ("transpose-loops-swapped", DATA, "ret_target = Cat(Value.cast(view[o_key][i_key]) for i_key in i_keys for o_key in o_keys)", "ret_target = Cat(Value.cast(view[o_key][i_key]) for o_key in o_keys for i_key in i_keys)"),
    ("transpose-no-index-swap", DATA, "ret_target = Cat(Value.cast(view[o_key][i_key]) for i_key in i_keys for o_key in o_keys)", "ret_target = Cat(Value.cast(view[i_key][o_key]) for i_key in i_keys for o_key in o_keys)"),
    ("transpose-const-outer-o", DATA, "{i_key: {o_key: view[o_key][i_key] for o_key in o_keys} for i_key in i_keys}", "{o_key: {i_key: view[o_key][i_key] for i_key in i_keys} for o_key in o_keys}"),
    ("layout-nesting-not-swapped", DATA, "ret_layout = mk_layout(i_keys, lambda i_key: mk_layout(o_keys, lambda o_key: i_layouts[o_key][i_key].shape))", "ret_layout = mk_layout(o_keys, lambda o_key: mk_layout(i_keys, lambda i_key: i_layouts[o_key][i_key].shape))"),
    ("keys-returned-swapped", DATA, "    return ret_layout, o_keys, i_keys", "    return ret_layout, i_keys, o_keys"),
    ("array-layout-length", DATA, "            return data.ArrayLayout(cont(0), len(keys))", "            return data.ArrayLayout(cont(0), len(keys) - 1)"),
    ("align-up-always-adds", REPR, "    if num & mask == 0:\n        return num\n", ""),
    ("align-up-mask-off-by-one", REPR, "    mask = 2**power - 1\n    if num & mask == 0:", "    mask = 2**power\n    if num & mask == 0:"),
    ("align-down-keeps-low-bits", REPR, "    return num & ~mask", "    return num & mask"),
    ("signed-to-int-wrong-bit", REPR, "    return x | -(x & (2 ** (xlen - 1)))", "    return x | -(x & (2 ** xlen))"),
    ("int-to-signed-mask", REPR, "    return x & (2**xlen - 1)", "    return x & (2 ** (xlen - 1) - 1)"),
    ("neg-no-mask", REPR, "    return (-x) & (2**xlen - 1)", "    return (-x) & (2**xlen)"),
    ("bits-from-int-length", REPR, "    return (num >> lower) & ((1 << (length)) - 1)", "    return (num >> lower) & ((1 << (length + 1)) - 1)"),
    ("make-hashable-keys-only", REPR, "            return frozenset(((k, make_hashable(v)) for k, v in val.items()))", "            return frozenset((k for k, v in val.items()))"),
    ("make-hashable-set", REPR, "            return tuple(make_hashable(v) for v in val)", "            return frozenset(make_hashable(v) for v in val)"),
]
