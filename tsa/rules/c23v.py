"""C23 - index typing: a per-write-port structure is subscripted by a write-port index, a per-read-port structure by a
read-port index.

Every list in these generators is built by iterating the user's write ports or read ports (directly, through
`enumerate`, through `range(len(..))`, or through another such list), which gives the list - and every loop variable
obtained the same way - a family, W or R.  Subscripting a family-W list (or `self.write_ports`) with a family-R loop variable,
or the other way round, wires the structure of one port to a port of the other kind that merely happens to have the same
number; with unequal port counts it also leaves structures unwired or fails.  Index expressions that are computed
(the skip-own-index maps, offsets into the feedback ports) have no family and are left to the index rules."""

from __future__ import annotations

from ..pm import pmatch
from ..stage import HwAssign, Store
from ..term import subterms, tstr

_W = ("a", ("self",), "write_ports")
_R = ("a", ("self",), "read_ports")


def _fam_of_iter(ex, it, depth=0):
    if it is None or depth > 4:
        return None
    if it == _W:
        return "W"
    if it == _R:
        return "R"
    m = pmatch("enumerate(Q_x)", it)
    if m is not None:
        return _fam_of_iter(ex, m["x"], depth + 1)
    m = pmatch("range(len(Q_x))", it)
    if m is not None:
        return _fam_of_iter(ex, m["x"], depth + 1)
    # range(len(ports) - c): still positions among those ports (the "other banks" of the coding)
    if it[0] == "call" and it[1] == ("n", "range") and len(it[2]) == 1 and it[2][0][0] == "op" and it[2][0][1] == "-":
        ml = pmatch("len(Q_x)", it[2][0][2])
        if ml is not None and it[2][0][3][0] == "c":
            return _fam_of_iter(ex, ml["x"], depth + 1)
    m = pmatch("zip(Q_x, Q_y)", it)
    if m is not None:
        a, b = _fam_of_iter(ex, m["x"], depth + 1), _fam_of_iter(ex, m["y"], depth + 1)
        return a if a == b else None
    if it[0] == "obj":
        f = _fam_of_list(ex, it, depth + 1)
        return f[0] if f else None
    return None


def _fam_of_list(ex, lst, depth=0):
    """(outer family, inner family or None) of a list object"""
    o = ex.obj(lst)
    if o is None or o.ctor[0] != "lc" or len(o.ctor[3]) != 1:
        return None
    outer = _fam_of_iter(ex, o.ctor[3][0][1], depth)
    inner = None
    elt = o.ctor[2]
    if elt[0] == "lc" and len(elt[3]) == 1:
        inner = _fam_of_iter(ex, elt[3][0][1], depth)
    if outer is None:
        return None
    return (outer, inner)


def _binder_fam(ex, b):
    if b[0] != "b" or len(b) < 3:
        return None
    return _fam_of_iter(ex, b[2])


def index_typing(ctx, comp, ex, cls, cn) -> int:
    n = 0
    seen = set()

    def visit(t, site):
        nonlocal n
        for s in subterms(t):
            if not (isinstance(s, tuple) and s and s[0] == "i"):
                continue
            base, idx = s[1], s[2]
            want = None
            what = None
            if base in (_W, _R):
                want, what = ("W" if base == _W else "R"), tstr(base)
            elif base[0] == "obj":
                f = _fam_of_list(ex, base)
                if f:
                    want, what = f[0], (ex.obj(base).name or tstr(base))
            elif base[0] == "i" and base[1][0] == "obj":
                f = _fam_of_list(ex, base[1])
                if f and f[1]:
                    want, what = f[1], (ex.obj(base[1]).name or tstr(base[1])) + "[..]"
            elif base[0] == "a" and base[2] == "read_ports" and base[1] != ("self",):
                # the read ports of an inner memory, taken by a plain loop variable: the port answering that user read port
                want, what = "R", "<inner memory>.read_ports"
            if want is None:
                continue
            got = _binder_fam(ex, idx)
            if got is None:
                continue
            key = (site, s)
            if key in seen:
                continue
            seen.add(key)
            n += 1
            ctx.check(got == want, "C23.index-typing", site, f"{cls}.{what}[{tstr(idx)}][{cn}]", found=f"a per-{'write' if want == 'W' else 'read'}-port structure subscripted by a {'write' if got == 'W' else 'read'}-port index",
                      required="per-write-port structures are subscripted by write-port indices, per-read-port structures by read-port indices")

    for h in ex.of(HwAssign):
        for t in (h.lhs, h.rhs):
            if t is not None:
                visit(t, h.site)
        # an element of a list without a family of its own (a memory's mixed port list) that is wired to user port b:
        # it is element b
        if h.lhs is not None and h.rhs is not None:
            t = h.lhs
            while t[0] == "a":
                t = t[1]
            if t[0] == "i" and t[1][0] == "obj" and t[2][0] == "b" and _fam_of_list(ex, t[1]) is None and ex.obj(t[1]) is not None and ex.obj(t[1]).ctor[0] == "lc":
                users = [s[2] for s in subterms(h.rhs) if isinstance(s, tuple) and s and s[0] == "i" and s[1] in (_W, _R) and s[2][0] == "b"]
                for b2 in users:
                    n += 1
                    ctx.check(b2 == t[2], "C23.index-typing.wired", h.site, f"{cls}.{ex.obj(t[1]).name or tstr(t[1])}[{tstr(t[2])}][{cn}]", found=f"{tstr(h.lhs)} <- {tstr(h.rhs)[:80]}",
                              required="element i of a port list is wired to user port i")
        for fr in h.frames:
            if fr[0] in ("if", "elif", "switch") and isinstance(fr[1], tuple):
                visit(fr[1], h.site)
    for s in ex.of(Store):
        visit(s.target, s.site)
        visit(s.value, s.site)
    for t, _v in ex.config:
        visit(t, comp.site)
    return n
