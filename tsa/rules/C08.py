"""C08 - conflict priorities are respected."""

from . import core, core2, core3

M = core.MANAGER


def check(ctx):
    from . import core8

    core8.relation_defaults(ctx, "C08")
    core.cg_priority_edges(ctx, "C08")
    core.cg_priority_passthrough(ctx, "C08")
    core.mgr_relation_copy(ctx, "C08")
    core.cg_relation_lifting(ctx, "C08")
    core2.sched_run_definitions(ctx, "C08", want_equiv=True)
    core2.mgr_scheduler_per_component(ctx, "C08")
    core3.mgr_rejections(ctx, "C08")
    from . import core9

    core9.scheduler_consults_order(ctx, "C08")


MUTANTS = [
    ("provided-relations-dropped", M, "for elem in chain(self.transactions, self.methods, provided_methods):", "for elem in chain(self.transactions, self.methods):"),
    ("left-right-swapped", M, "                case Priority.LEFT:\n                    pgr[end].add(begin)\n                case Priority.RIGHT:\n                    pgr[begin].add(end)", "                case Priority.LEFT:\n                    pgr[begin].add(end)\n                case Priority.RIGHT:\n                    pgr[end].add(begin)"),
    ("right-like-left", M, "                case Priority.RIGHT:\n                    pgr[begin].add(end)", "                case Priority.RIGHT:\n                    pgr[end].add(begin)"),
    ("no-reverse", M, "networkx.DiGraph(pgr).reverse(), key=lambda t: len(cgr[t])", "networkx.DiGraph(pgr), key=lambda t: len(cgr[t])"),
    ("porder-descending", M, "            porder[transaction] = k\n", "            porder[transaction] = -k\n"),
    ("scheduler-sorts-descending", core.SCHED, "ccl.sort(key=lambda transaction: porder[transaction])", "ccl.sort(key=lambda transaction: porder[transaction], reverse=True)"),
    ("scheduler-blocks-on-later", core.SCHED, "for j in range(k) if ccl[j] in gr[transaction]", "for j in range(k + 1, len(ccl)) if ccl[j] in gr[transaction]"),
    ("priority-dropped-in-lifting", M, "add_edge(trans_start, trans_end, relation.priority, conflict)", "add_edge(trans_start, trans_end, Priority.UNDEFINED, conflict)"),
    ("priority-edges-only-on-conflict", M, "            match priority:\n                case Priority.LEFT:\n                    pgr[end].add(begin)", "            match priority if conflict else Priority.UNDEFINED:\n                case Priority.LEFT:\n                    pgr[end].add(begin)"),
    ("add-conflict-ignores-priority", core.TBASE, "RelationBase(end=end, priority=priority, conflict=True,", "RelationBase(end=end, priority=Priority.UNDEFINED, conflict=True,"),
    ("schedule-before-right", core.TBASE, "                priority=Priority.LEFT,\n                conflict=False,", "                priority=Priority.RIGHT,\n                conflict=False,"),
    ("sort-by-conflict-count", core.SCHED, "ccl.sort(key=lambda transaction: porder[transaction])", "ccl.sort(key=lambda transaction: len(gr[transaction]))"),
]
