"""C38, second part: priority tree, ring encoder, selecting network, create() helpers (index-agreement and bounded
agreement obligations per level; the induction over levels is not decided)."""

from __future__ import annotations

from .common import *
from ..logic import NotEvaluable, evalt, lin_equal, to_lin
from ..pm import find_all, has, pat, pmatch
from ..pyfacts import Fn, loops, py_guard
from ..stage import Effect, MethodCall, Submodule, Unmodelled
from ..term import rewrite, subst

ELAB = "transactron/utils/amaranth_ext/elaboratables.py"
OC = pat("self.outputs_count")
IW = pat("self.input_width")


def _frames(h, kind):
    return [fr for fr in h.frames if fr[0] == kind]


def _is_fresh_signal_list(ex, t, count, shape_pred) -> bool:
    """t is an object built as [Signal(<shape>) for _ in range(count)]."""
    o = ex.obj(t)
    if o is None or o.ctor[0] != "lc" or len(o.ctor[3]) != 1:
        return False
    b, it, conds = o.ctor[3][0]
    elt = ex.obj(o.ctor[2])
    return it == ("call", ("n", "range"), (count,), ()) and not conds and elt is not None and elt.ctor[0] == "call" and elt.ctor[1] == ("n", "Signal") and shape_pred(elt.ctor[2])


def _all_comb(ctx, fn, name):
    hs = [h for ex in fn.exs for h in ex.of(HwAssign)]
    wrong = [h for h in hs if h.domain != ("c", "comb")]
    ctx.check(bool(hs) and not wrong, "C38.combinational", wrong[0].site if wrong else fn.site, f"{name}.domains", found=f"{len(hs)} assignment(s)" + (f"; {tstr(wrong[0].domain)} += {tstr(wrong[0].lhs)}" if wrong else ", all comb"),
              required="the network is purely combinational: every assignment is in m.d.comb (results in the same cycle)", nontrivial=False)


def priority_tree(ctx):
    fn = Fn(ctx.repo, ELAB, "MultiPriorityEncoder._build_tree", "C38")
    _all_comb(ctx, fn, "MultiPriorityEncoder._build_tree")
    _all_comb(ctx, Fn(ctx.repo, ELAB, "MultiPriorityEncoder.elaborate", "C38"), "MultiPriorityEncoder.elaborate")
    _all_comb(ctx, Fn(ctx.repo, ELAB, "RingMultiPriorityEncoder.elaborate", "C38"), "RingMultiPriorityEncoder.elaborate")
    _all_comb(ctx, Fn(ctx.repo, ELAB, "StableSelectingNetwork.elaborate", "C38"), "StableSelectingNetwork.elaborate")
    _all_comb(ctx, Fn(ctx.repo, ELAB, "OneHotMux.elaborate", "C38"), "OneHotMux.elaborate")
    in_sig, start = fn.param(2), fn.param(3)
    leaf_t = ("op", "==", ("c", 1), ("call", ("n", "len"), (in_sig,), ()))
    leaf = [ex for ex in fn.exs if dict(ex.config).get(leaf_t) is True]
    node = [ex for ex in fn.exs if dict(ex.config).get(leaf_t) is False]
    if len(leaf) != 1 or len(node) != 1:
        raise AnalysisError("C38.priority-tree", fn.site, f"expected one leaf and one inner configuration of _build_tree split on len(in_sig) == 1, found {[tstr(t) for ex in fn.exs for t, v in ex.config]}")
    for ex, nm in ((leaf[0], "leaf"), (node[0], "node")):
        rets = [r for r in ex.of(Return) if r.callid is None]
        ok = len(rets) == 1 and rets[0].value[0] == "tuple" and len(rets[0].value) == 3
        if ok:
            LO, LV = rets[0].value[1], rets[0].value[2]
            ok = _is_fresh_signal_list(ex, LO, OC, lambda a: a == (("call", ("n", "range"), (IW,), ()),)) and _is_fresh_signal_list(ex, LV, OC, lambda a: a == ())
        ctx.check(ok, "C38.priority-tree.level-signals", rets[0].site if rets else fn.site, f"_build_tree[{nm}].returns", found=tstr(rets[0].value) if rets else "none",
                  required="returns (outputs, valids): outputs_count fresh index signals of range(input_width) and outputs_count fresh 1-bit valid signals (default 0 = invalid)")
    # leaf: one set bit -> output 0 is this position
    ex = leaf[0]
    LO, LV = [r for r in ex.of(Return) if r.callid is None][0].value[1:3]
    hs = ex.of(HwAssign)
    want = {("i", LO, ("c", 0)): start, ("i", LV, ("c", 0)): ("c", 1)}
    ok = len(hs) == 2 and {h.lhs: h.rhs for h in hs} == want and all(len(_frames(h, "if")) == 1 and to_formula(_frames(h, "if")[0][1]) == A(in_sig) and not loops(h) for h in hs)
    ctx.check(ok, "C38.priority-tree.leaf", fn.site, "_build_tree[leaf]", found="; ".join(f"{tstr(h.lhs)} <- {tstr(h.rhs)} under {[fr[0] for fr in h.frames]}" for h in hs),
              required="for a 1-bit input: If(in_sig): outputs[0] = start_idx, valids[0] = 1; nothing else")
    # node: split, recurse, merge
    ex = node[0]
    LO, LV = [r for r in ex.of(Return) if r.callid is None][0].value[1:3]
    calls = [c for c in ex.of(MethodCall) if c.callee == pat("self._build_tree")]
    hs = ex.of(HwAssign)
    L = ("call", ("n", "len"), (in_sig,), ())
    ok = len(calls) == 2
    detail = "; ".join(f"_build_tree({', '.join(tstr(a) for a in c.args)})" for c in calls)
    if ok:
        (r_in, r_start), (l_in, l_start) = calls[0].args, calls[1].args
        feeds = {h.lhs: h for h in hs if h.lhs in (r_in, l_in)}
        ok = r_in in feeds and l_in in feeds and not feeds[r_in].frames[1:] and not feeds[l_in].frames[1:]
        if ok:
            mr = pmatch("Q_s[Q_a:Q_b]", feeds[r_in].rhs)
            ml = pmatch("Q_s[Q_a:]", feeds[l_in].rhs)
            ok = mr is not None and ml is not None and mr["s"] == in_sig == ml["s"] and mr["a"] == ("c", 0) and mr["b"] == ml["a"]
            if ok:
                mid = mr["b"]
                # both halves non-empty for every length >= 2, the halves are declared with exactly their slice widths,
                # the left (upper) half starts at start_idx + middle
                try:
                    okm = all(1 <= evalt(mid, {L: n}) < n for n in range(2, 17))
                except NotEvaluable:
                    okm = False
                orr, ol = ex.obj(r_in), ex.obj(l_in)
                okw = (orr is not None and ol is not None and orr.ctor[2][:1] == (mid,) and len(ol.ctor[2]) >= 1 and lin_equal(ol.ctor[2][0], ("op", "-", L, mid)))
                oks = r_start == start and lin_equal(l_start, ("op", "+", start, mid))
                ok = okm and okw and oks
                detail += f"; middle = {tstr(mid)}; halves {tstr(feeds[r_in].rhs)} / {tstr(feeds[l_in].rhs)}"
    ctx.check(ok, "C38.priority-tree.split", fn.site, "_build_tree[node].split", found=detail,
              required="the input is split into the lower part in_sig[0:middle] (start_idx) and the upper part in_sig[middle:] (start_idx + middle), 0 < middle < len, both recursed into")
    if len(calls) == 2:
        r_out, r_val = ("i", ("ret", calls[0].callid), ("c", 0)), ("i", ("ret", calls[0].callid), ("c", 1))
        l_out, l_val = ("i", ("ret", calls[1].callid), ("c", 0)), ("i", ("ret", calls[1].callid), ("c", 1))
        merges = [h for h in hs if _frames(h, "switch")]
        problems = []
        seen = set()
        for h in merges:
            sw, cs, lp = _frames(h, "switch"), _frames(h, "case"), loops(h)
            if not (len(sw) == 1 and sw[0][1] == ("call", ("n", "Cat"), (r_val,), ()) and len(cs) == 1 and len(lp) == 2):
                problems.append(f"{h.site}: not under Switch(Cat(lower valids)) / Case / two loops")
                continue
            (bi,), it_i = lp[0]
            (bj,), it_j = lp[1]
            if not (it_i[0] == "call" and it_i[1] == ("n", "range") and len(it_i[2]) == 1 and lin_equal(it_i[2][0], ("op", "+", OC, ("c", 1))) and cs[0][2] == (("op", "-", ("op", "<<", ("c", 1), bi), ("c", 1)),)):
                problems.append(f"{h.site}: case pattern {tstr(cs[0][2][0])} over {tstr(it_i)} (want (1 << i) - 1 for i in range(outputs_count + 1))")
                continue
            m = pmatch("Q_dst[Q_j]", h.lhs)
            if m is None or m["j"] != bj or m["dst"] not in (LO, LV):
                problems.append(f"{h.site}: target {tstr(h.lhs)}")
                continue
            kind = "out" if m["dst"] == LO else "val"
            if it_j == ("call", ("n", "range"), (bi,), ()):
                src = r_out if kind == "out" else r_val
                if h.rhs != ("i", src, bj):
                    problems.append(f"{h.site}: lower part: {tstr(h.lhs)} <- {tstr(h.rhs)} (want the lower half's {kind}[j])")
                seen.add(("lower", kind))
            elif it_j == ("call", ("n", "range"), (bi, OC), ()):
                src = l_out if kind == "out" else l_val
                mm = pmatch("Q_s[Q_k]", h.rhs)
                if mm is None or mm["s"] != src or not lin_equal(mm["k"], ("op", "-", bj, bi)):
                    problems.append(f"{h.site}: upper part: {tstr(h.lhs)} <- {tstr(h.rhs)} (want the upper half's {kind}[j - i])")
                seen.add(("upper", kind))
            else:
                problems.append(f"{h.site}: inner loop over {tstr(it_j)}")
        missing = {("lower", "out"), ("lower", "val"), ("upper", "out"), ("upper", "val")} - seen
        ctx.check(not problems and not missing, "C38.priority-tree.merge", fn.site, "_build_tree[node].merge", found="; ".join(problems) or (f"missing {sorted(missing)}" if missing else f"{len(merges)} merge assignments"),
                  required="Switch(lower valids): Case((1 << i) - 1) [i valid lower results]: outputs/valids[j] = lower[j] for j < i, = upper[j - i] for i <= j < outputs_count (same j for index and valid)")
    # elaborate: tree over the whole input from index 0, results copied out pairwise
    el = Fn(ctx.repo, ELAB, "MultiPriorityEncoder.elaborate", "C38")
    n_ok = 0
    for ex in el.exs:
        inl = [r for r in ex.of(Return) if r.callid is not None and r.value[0] == "tuple" and len(r.value) == 3]
        outs = [h for h in ex.of(HwAssign) if h.lhs is not None and pmatch("self.outputs[Q_k]", h.lhs)]
        vals = [h for h in ex.of(HwAssign) if h.lhs is not None and pmatch("self.valids[Q_k]", h.lhs)]
        ok = len(inl) == 1 and len(outs) == 1 and len(vals) == 1
        if ok:
            LO, LV = inl[0].value[1:3]
            ho, hv = outs[0], vals[0]
            lp = loops(ho)
            ok = (len(lp) == 1 and lp == loops(hv) and lp[0][1] == ("call", ("n", "range"), (OC,), ()) and len(ho.frames) == 1 == len(hv.frames)
                  and ho.lhs == ("i", pat("self.outputs"), lp[0][0][0]) and ho.rhs == ("i", LO, lp[0][0][0]) and hv.lhs == ("i", pat("self.valids"), lp[0][0][0]) and hv.rhs == ("i", LV, lp[0][0][0]))
            # the inlined top-level call is over self.input from index 0
            uses_input = any(mentions(h.rhs, pat("self.input")) or any(mentions(fr[1], pat("self.input")) for fr in h.frames if fr[0] == "if") for h in ex.of(HwAssign))
            starts0 = all(c.args[1] == ("c", 0) or lin_equal(c.args[1], ("op", "//", ("call", ("n", "len"), (pat("self.input"),), ()), ("c", 2))) for c in ex.of(MethodCall) if c.callee == pat("self._build_tree")) and \
                all(h.rhs == ("c", 0) for h in ex.of(HwAssign) if h.lhs == ("i", LO, ("c", 0)) and _frames(h, "if") and not _frames(h, "switch"))
            ok = ok and uses_input and starts0
        n_ok += 1
        ctx.check(ok, "C38.priority-tree.top", el.site, "MultiPriorityEncoder.elaborate", found="; ".join(f"{tstr(h.lhs)} <- {tstr(h.rhs)}" for h in outs + vals),
                  required="the tree is built over self.input from index 0; outputs[k] / valids[k] are the root level's k-th output / valid for every k < outputs_count")
    ctx.floor("C38", "MultiPriorityEncoder.elaborate configurations", n_ok, 2, el.site)


def ring_encoder(ctx):
    fn = Fn(ctx.repo, ELAB, "RingMultiPriorityEncoder.elaborate", "C38")
    if len(fn.exs) != 1:
        raise AnalysisError("C38.ring", fn.site, f"expected one configuration, found {len(fn.exs)}")
    ex = fn.exs[0]
    hs = ex.of(HwAssign)
    INP, FIRST, LAST = pat("self.input"), pat("self.first"), pat("self.last")
    encs = [s.value for s in ex.of(Submodule) if ex.obj(s.value) is not None and pmatch("MultiPriorityEncoder(Q_w, Q_c)", ex.obj(s.value).ctor)]
    ok = len(encs) == 1 and pmatch("MultiPriorityEncoder(Q_w, Q_c)", ex.obj(encs[0]).ctor) == {"w": IW, "c": OC}
    ctx.check(ok, "C38.ring.inner-encoder", fn.site, "RingMultiPriorityEncoder.multi_enc", found="; ".join(tstr(ex.obj(e).ctor) for e in encs) or "none",
              required="one MultiPriorityEncoder(input_width, outputs_count) registered as submodule")
    if not ok:
        return
    enc = encs[0]

    def definition(t):
        """Combinational definition of a local signal object as a term (If/Else -> conditional)."""
        ws = [h for h in hs if h.lhs == t]
        if len(ws) == 1 and not ws[0].frames:
            return ws[0].rhs
        if len(ws) == 2 and len(ws[0].frames) == 1 and len(ws[1].frames) == 1 and ws[0].frames[0][0] == "if" and ws[1].frames[0][0] == "else":
            return ("ife", ws[0].frames[0][1], ws[0].rhs, ws[1].rhs)
        return None

    feed = [h for h in hs if h.lhs == ("a", enc, "input")]
    ok = len(feed) == 1 and not feed[0].frames
    bad = None
    n = 0
    if ok:
        t = feed[0].rhs
        for _ in range(6):
            objs = [x for x in subterms(t) if x[0] == "obj" and definition(x) is not None]
            if not objs:
                break
            t = subst(t, {o: definition(o) for o in objs})
        # Cat(input, input) of an input_width-bit input is input + (input << input_width)
        dbl = ("call", ("n", "Cat"), (INP, INP), ())
        has_dbl = mentions(t, dbl)
        t2 = subst(t, {dbl: ("op", "+", INP, ("op", "<<", INP, IW))})
        try:
            for w in range(1, 6):
                for v in range(1 << w):
                    for f in range(w):
                        for l in range(w):
                            got = evalt(t2, {INP: v, FIRST: f, LAST: l, IW: w})
                            span = (l - f) % w
                            want = 0
                            for p in range(span):
                                if (v >> ((f + p) % w)) & 1:
                                    want |= 1 << p
                            n += 1
                            if int(got) & ((1 << w) - 1) != want:
                                bad = f"width {w}, input={v:0{w}b}, first={f}, last={l}: inner encoder sees {int(got) & ((1 << w) - 1):0{w}b}, the ring interval [first, last) rotated to 0 is {want:0{w}b}"
                                break
                        if bad:
                            break
                    if bad:
                        break
                if bad:
                    break
        except NotEvaluable as e:
            raise AnalysisError("C38.ring", feed[0].site, f"inner encoder input outside the evaluable fragment: {e} in {tstr(t2)[:200]}")
        if not has_dbl and bad is None:
            bad = "the doubled input Cat(input, input) is not used"
    ctx.check(ok and bad is None, "C38.ring.window", feed[0].site if feed else fn.site, "RingMultiPriorityEncoder.multi_enc.input", found=(bad or "agrees") + f"  [{n} (width, input, first, last) cases evaluated]",
              required="bit p of the inner encoder's input is input[(first + p) mod width] for p < (last - first) mod width and 0 beyond: the circular interval [first, last) rotated to position 0")
    outs = [h for h in hs if h.lhs is not None and pmatch("self.outputs[Q_k]", h.lhs)]
    vals = [h for h in hs if h.lhs is not None and pmatch("self.valids[Q_k]", h.lhs)]
    ok = len(outs) == 1 and len(vals) == 1 and len(loops(outs[0])) == 1 and loops(outs[0]) == loops(vals[0]) and loops(outs[0])[0][1] == ("call", ("n", "range"), (OC,), ())
    if ok:
        k = loops(outs[0])[0][0][0]
        ok = outs[0].lhs == ("i", pat("self.outputs"), k) and vals[0].lhs == ("i", pat("self.valids"), k) and vals[0].rhs == ("i", ("a", enc, "valids"), k) and len(outs[0].frames) == 1 == len(vals[0].frames)
        t = outs[0].rhs
        for _ in range(4):
            objs = [x for x in subterms(t) if x[0] == "obj" and x != enc and definition_in_loop(hs, x) is not None]
            if not objs:
                break
            t = subst(t, {o: definition_in_loop(hs, o) for o in objs})
        eo = ("i", ("a", enc, "outputs"), k)
        if ok:
            check_agree(ctx, "C38.ring.rotate-back", outs[0].site, "RingMultiPriorityEncoder.outputs[k]", t, ("op", "%", ("op", "+", FIRST, eo), IW), {IW: [1, 2, 3, 4, 5, 8]},
                        {FIRST: (0, ("op", "-", IW, ("c", 1))), eo: (0, ("op", "-", IW, ("c", 1)))}, "outputs[k] = (first + inner output k) mod input_width")
    ctx.check(ok, "C38.ring.outputs", fn.site, "RingMultiPriorityEncoder.outputs/valids", found="; ".join(f"{tstr(h.lhs)} <- {tstr(h.rhs)}" for h in outs + vals),
              required="for every k < outputs_count: outputs[k] from the inner encoder's output k (rotated back), valids[k] = its valid k")
    # declared ranges hold the intermediate values
    # (identified by role, not by name: the signal corrected under `first > last`, and the signal holding first + inner output)
    roles = {}
    for h in hs:
        if h.lhs is not None and h.lhs[0] == "obj":
            if mentions(h.rhs, IW) and mentions(h.rhs, LAST):
                roles["corrected last index"] = h.lhs
            if mentions(h.rhs, ("a", enc, "outputs")) and mentions(h.rhs, FIRST):
                roles["rotated-back output"] = h.lhs
    for role in ("corrected last index", "rotated-back output"):
        if role not in roles:
            continue  # no intermediate signal: the value is used as an expression and cannot be truncated
        o = ex.obj(roles[role])
        ok = o is not None and pmatch("Signal(range(Q_n))", o.ctor) is not None and lin_equal(pmatch("Signal(range(Q_n))", o.ctor)["n"], ("op", "*", ("c", 2), IW))
        ctx.check(ok, "C38.ring.ranges", o.site if o else fn.site, f"RingMultiPriorityEncoder.{role}", found=tstr(o.ctor) if o else "no intermediate signal (value used directly)", required="Signal(range(2 * input_width)): holds input_width + (input_width - 1)", nontrivial=False)


def definition_in_loop(hs, t):
    ws = [h for h in hs if h.lhs == t]
    if len(ws) == 1 and all(fr[0] == "for" for fr in ws[0].frames):
        return ws[0].rhs
    return None


def selecting_network(ctx):
    fn = Fn(ctx.repo, ELAB, "StableSelectingNetwork.elaborate", "C38")
    n_cfg = 0
    for ex in fn.exs:
        n_cfg += 1
        hs = ex.of(HwAssign)
        pops = {vid: d for vid, d in ex.vardefs.items() if pmatch("Q_l.pop(0)", d)}
        merged = [h for h in hs if h.lhs is not None and h.lhs[0] == "i" and h.lhs[1][0] == "obj" and h.rhs[0] == "call" and h.rhs[1] == ("n", "Mux")]
        tot = [h for h in hs if h.lhs is not None and h.lhs[0] == "obj" and h.rhs[0] == "op" and h.rhs[1] == "+" and _frames(h, "while")]
        ok = len(merged) == 2 and len(tot) == 1
        if not ok:
            ctx.bad("C38.network.merge", fn.site, "StableSelectingNetwork.merge", found=f"{len(merged)} merge assignments, {len(tot)} count assignments", required="two merge assignments (lower and upper positions) and one count sum per merged pair")
            continue
        # roles: a = earlier popped pair, b = later popped pair (both popped from the front of the same level list)
        vs = sorted({x for h in merged + tot for x in subterms(h.rhs) if x[0] == "v" and x[2] in pops}, key=lambda x: x[2])
        ok = len(vs) == 2 and pops[vs[0][2]] == pops[vs[1][2]]
        if not ok:
            ctx.bad("C38.network.merge", fn.site, "StableSelectingNetwork.merge.operands", found=", ".join(tstr(v) for v in vs), required="the two merged groups are consecutive elements popped from the front of the current level")
            continue
        a, b = vs
        A_, CA, B_, CB = ("i", a, ("c", 0)), ("i", a, ("c", 1)), ("i", b, ("c", 0)), ("i", b, ("c", 1))
        LA, LB = ("call", ("n", "len"), (A_,), ()), ("call", ("n", "len"), (B_,), ())
        ctx.check(lin_equal(tot[0].rhs, ("op", "+", CA, CB)), "C38.network.count", tot[0].site, "StableSelectingNetwork.total_cnt", found=tstr(tot[0].rhs), required="count of the merged group = count(a) + count(b)")
        o = ex.obj(tot[0].lhs)
        m = pmatch("Signal(Q_w)", o.ctor) if o else None
        okw = False
        if m:
            try:
                okw = all(evalt(m["w"], {("call", ("n", "len"), (CA,), ()): x, ("call", ("n", "len"), (CB,), ()): y}) >= max(x, y) + 1 for x in range(1, 5) for y in range(1, 5))
            except NotEvaluable:
                okw = False
        ctx.check(okw, "C38.network.count-width", o.site if o else fn.site, "StableSelectingNetwork.total_cnt.shape", found=tstr(o.ctor) if o else "none", required="one bit wider than the wider operand: the sum cannot overflow", nontrivial=False)
        # positions and sources by evaluation of the index expressions
        bad = None
        cases = 0
        covered_ok = True
        try:
            for la in range(1, 5):
                for lb in range(1, 5):
                    for ca, cb in [(x, y) for x in range(0, la + 1) for y in (0, lb)]:
                        positions = {}
                        for h in merged:
                            (bi,), it = loops(h)[-1]
                            cnt = evalt(it[2][0], {LA: la, LB: lb}) if it[0] == "call" and it[1] == ("n", "range") and len(it[2]) == 1 else None
                            if cnt is None:
                                raise NotEvaluable(f"loop over {tstr(it)}")
                            for i in range(cnt):
                                val = {LA: la, LB: lb, CA: ca, CB: cb, bi: i}
                                p = evalt(h.lhs[2], val)
                                c, x, y = h.rhs[2]
                                pick = x if evalt(c, val) else y
                                if pick[0] == "i" and pick[1] in (A_, B_):
                                    src = ("a" if pick[1] == A_ else "b", evalt(pick[2], val))
                                elif pick == ("c", 0):
                                    src = 0
                                else:
                                    raise NotEvaluable(f"merge source {tstr(pick)}")
                                if p in positions:
                                    covered_ok = False
                                positions[p] = src
                        cases += 1
                        if set(positions) != set(range(la + lb)):
                            bad = f"len(a)={la}, len(b)={lb}: positions written {sorted(positions)}"
                            break
                        for p in range(la + lb):
                            want = ("a", p) if p < ca else (("b", p - ca) if p - ca < lb else None)
                            got = positions[p]
                            if want is None:
                                continue  # beyond every possibly valid element: value irrelevant
                            if got != want or (got != 0 and not 0 <= got[1] < (la if got[0] == "a" else lb)):
                                bad = f"len(a)={la}, len(b)={lb}, count(a)={ca}: position {p} takes {got}, stable merge needs {want}"
                                break
                        if bad:
                            break
                    if bad:
                        break
                if bad:
                    break
        except NotEvaluable as e:
            raise AnalysisError("C38.network", merged[0].site, f"merge expressions outside the evaluable fragment: {e}")
        ctx.check(bad is None and covered_ok, "C38.network.merge", merged[0].site, "StableSelectingNetwork.merge", found=(bad or "agrees") + f"  [{cases} (len a, len b, count a) cases evaluated]",
                  required="merged[p] = a[p] for p < count(a), b[p - count(a)] afterwards: the valid prefix of a followed by b, every position written once")
        # the merged array has len(a) + len(b) elements
        mo = ex.obj(merged[0].lhs[1])
        okl = mo is not None and mo.ctor[0] == "call" and mo.ctor[1] == ("n", "Array") and mo.ctor[2] and mo.ctor[2][0][0] == "lc" and lin_equal(mo.ctor[2][0][3][0][1][2][0], ("op", "+", LA, LB))
        ctx.check(bool(okl), "C38.network.merged-size", mo.site if mo else fn.site, "StableSelectingNetwork.merged", found=tstr(mo.ctor)[:160] if mo else "none", required="len(a) + len(b) element signals")
        # level plumbing: first level = (Array([inputs[i]]), valids[i]) in input order; merged pairs appended in order
        init = [e for e in ex.of(Effect) if pmatch("Q_l.append((Q_x, self.valids[Q_i]))", e.call)]
        ok = len(init) == 1 and len(loops(init[0])) == 1 and loops(init[0])[0][1] == pat("range(self.n)")
        if ok:
            m = pmatch("Q_l.append((Q_x, self.valids[Q_i]))", init[0].call)
            xo = ex.obj(m["x"])
            ok = m["i"] == loops(init[0])[0][0][0] and xo is not None and xo.ctor == ("call", ("n", "Array"), (("list", ("i", pat("self.inputs"), m["i"])),), ())
        if not init:
            # the same level written as a comprehension (the extractor folds `x = []; for ..: x.append(e)` into one)
            for o in ex.objects.values():
                c = o.ctor
                if c[0] == "lc" and c[1] == "list" and len(c[3]) == 1 and not c[3][0][2] and c[3][0][1] == pat("range(self.n)") and c[2][0] == "tuple" and len(c[2]) == 3:
                    bnd = c[3][0][0]
                    xo = ex.obj(c[2][1])
                    xc = xo.ctor if xo is not None else c[2][1]
                    if c[2][2] == ("i", pat("self.valids"), bnd) and xc == ("call", ("n", "Array"), (("list", ("i", pat("self.inputs"), bnd)),), ()):
                        ok = True
        ctx.check(ok, "C38.network.first-level", init[0].site if init else fn.site, "StableSelectingNetwork.level0", found="; ".join(tstr(e.call) for e in init) or "none", required="level 0 is [(Array([inputs[i]]), valids[i]) for i in range(n)], in input order")
        app = [e for e in ex.of(Effect) if pmatch("Q_l.append((Q_m, Q_c))", e.call) and pmatch("Q_l.append((Q_m, Q_c))", e.call)["m"] == merged[0].lhs[1]]
        ok = len(app) == 1 and pmatch("Q_l.append((Q_m, Q_c))", app[0].call)["c"] == tot[0].lhs
        ctx.check(ok, "C38.network.next-level", app[0].site if app else fn.site, "StableSelectingNetwork.next_level", found="; ".join(tstr(e.call) for e in app) or "none", required="each merged group is appended to the next level with its own count")
        outs = [h for h in hs if h.lhs is not None and pmatch("self.outputs[Q_k]", h.lhs)]
        cnts = [h for h in hs if h.lhs == pat("self.output_cnt")]
        ok = len(outs) == 1 and len(cnts) == 1 and len(loops(outs[0])) == 1 and loops(outs[0])[0][1] == pat("range(self.n)")
        if ok:
            k = loops(outs[0])[0][0][0]
            mm = pmatch("Q_v[0][Q_k]", outs[0].rhs)
            ok = mm is not None and mm["k"] == k == pmatch("self.outputs[Q_k]", outs[0].lhs)["k"] and cnts[0].rhs == ("i", mm["v"], ("c", 1)) and mm["v"][0] == "v" and mm["v"][2] in pops and not _frames(outs[0], "while") and not cnts[0].frames
        ctx.check(ok, "C38.network.outputs", outs[0].site if outs else fn.site, "StableSelectingNetwork.outputs", found="; ".join(f"{tstr(h.lhs)} <- {tstr(h.rhs)}" for h in outs + cnts),
                  required="outputs[k] = the root group's element k for every k < n; output_cnt = the root group's count")
    ctx.floor("C38", "StableSelectingNetwork configurations", n_cfg, 1, fn.site)
    # level loop: groups are merged pairwise while at least two remain (outer and inner loop), a single leftover group moves on
    ex = fn.exs[0]
    tests = [v[0] for k, v in ex.loopdefs.items() if k[0] == "while"]
    okw = len(tests) == 2
    detail = "; ".join(tstr(t) for t in tests)
    if okw:
        for t in tests:
            lens = [x for x in subterms(t) if x[0] == "call" and x[1] == ("n", "len") and len(x[2]) == 1]
            try:
                okw = okw and len(set(lens)) == 1 and all(bool(evalt(t, {lens[0]: n})) == (n >= 2) for n in range(0, 7))
            except NotEvaluable:
                okw = False
    ctx.check(okw, "C38.network.level-loop", fn.site, "StableSelectingNetwork.loops", found=detail or "no while loop", required="both loops run while at least two groups remain (len(level) >= 2)")
    left = [t for e in fn.exs for t, v in e.config if pmatch("1 == len(Q_l)", t) is not None]
    ctx.check(bool(left), "C38.network.leftover", fn.site, "StableSelectingNetwork.leftover", found="; ".join(sorted({tstr(t) for t in left})) or "no leftover test", required="an odd group left over on a level (len == 1) is moved to the next level")
    # declared result shapes
    from ..comp import Component

    comp = Component(ctx.repo, ELAB, "StableSelectingNetwork", rule="C38")
    d = comp.init_attr("output_cnt")
    m = pmatch("Signal(range(Q_n))", d) if d else None
    ctx.check(m is not None and lin_equal(m["n"], pat("self.n + 1")), "C38.network.count-range", fn.site, "StableSelectingNetwork.output_cnt.shape", found=tstr(d) if d else "not declared", required="Signal(range(n + 1)): the count of valid inputs can be n")


def create_helpers(ctx):
    for cls, extra in (("MultiPriorityEncoder", ()), ("RingMultiPriorityEncoder", ("first", "last"))):
        fn = Fn(ctx.repo, ELAB, f"{cls}.create", "C38")
        names = [a.arg for a in fn.fi.node.args.args]
        P = {n: ("p", fn.fi.qualname, i, n) for i, n in enumerate(names)}
        n_ok = 0
        for ex in fn.exs:
            rets = [r for r in ex.of(Return) if r.callid is None]
            if not rets:
                continue  # the name-already-in-use rejection
            n_ok += 1
            r = rets[0]
            v = r.value
            ok = v[0] == "lc" and len(v[3]) == 1 and v[2][0] == "tuple" and len(v[2]) == 3
            enc = None
            if ok:
                b, it, conds = v[3][0]
                mo, mv = pmatch("Q_e.outputs[Q_i]", v[2][1]), pmatch("Q_e.valids[Q_i]", v[2][2])
                ok = mo is not None and mv is not None and mo["e"] == mv["e"] and mo["i"] == mv["i"] == b and it == ("call", ("n", "range"), (P["outputs_count"],), ()) and not conds
                enc = mo["e"] if ok else None
            o = ex.obj(enc) if enc else None
            ok = ok and o is not None and o.ctor == ("call", ("n", cls), (P["input_width"], P["outputs_count"]), ())
            regs = [s for s in ex.of(Submodule) if s.value == enc] + [e for e in ex.of(Effect) if pmatch("setattr(Q_m.submodules, Q_n, Q_e)", e.call) and pmatch("setattr(Q_m.submodules, Q_n, Q_e)", e.call)["e"] == enc]
            ok = ok and len(regs) >= 1
            for port in ("input",) + extra:
                ws = [h for h in ex.of(HwAssign) if h.lhs == ("a", enc, port)]
                ok = ok and len(ws) == 1 and ws[0].rhs == P[port] and not [fr for fr in ws[0].frames if fr[0] not in ("py", "try")] and ws[0].domain == ("c", "top_comb")
            ctx.check(ok, "C38.create-wiring", r.site, f"{cls}.create", found=tstr(v)[:200], required=f"a {cls}(input_width, outputs_count) is registered as submodule, its {', '.join(('input',) + extra)} driven from the arguments, and [(outputs[i], valids[i]) for i < outputs_count] returned")
        ctx.floor("C38", f"{cls}.create configurations with a result", n_ok, 1, fn.site)
        fs = Fn(ctx.repo, ELAB, f"{cls}.create_simple", "C38")
        rets = [(ex, r) for ex in fs.exs for r in ex.of(Return) if r.callid is None]
        ok = bool(rets)
        for ex, r in rets:
            m = pmatch(f"{cls}.create(*Q_a, name=Q_n, outputs_count=1)[0]", r.value)
            v = r.value
            ok = ok and v[0] == "i" and v[2] == ("c", 0) and v[1][0] in ("call", "v")
            call = ex.vardefs.get(v[1][2]) if v[1][0] == "v" else v[1]
            ok = ok and call is not None and call[0] == "call" and call[1] == ("a", ("n", cls), "create") and dict(call[3]).get("outputs_count") == ("c", 1)
        ctx.check(ok, "C38.create-simple", fs.site, f"{cls}.create_simple", found="; ".join(tstr(r.value) for _, r in rets), required="create(..., outputs_count=1)[0]")
