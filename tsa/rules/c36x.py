"""C36, recursive helpers: count_trailing_zeros / count_leading_zeros (recursive halving through the nested `iter`),
cyclic_mask and popcount's width, evaluated by the analyser (concrete bit vectors through prov.Evaluator, which resolves
the nested recursive function and the python-level branch tests) for every value of widths 1..8."""

from __future__ import annotations

from ..front import AnalysisError
from ..logic import NotEvaluable
from ..prov import Bits, Evaluator, WiringError, const_bits
from ..pyfacts import Fn
from .. import bitalg

FUNCS = "transactron/utils/amaranth_ext/functions.py"


def _val(b):
    v = bitalg.concrete(b)
    if v is None:
        raise NotEvaluable("symbolic result")
    return v


def counting(ctx, pid="C36"):
    ev = Evaluator(ctx.repo, FUNCS, pid, max_depth=16)
    for name, ref in (("count_trailing_zeros", lambda v, w: (v & -v).bit_length() - 1 if v else w), ("count_leading_zeros", lambda v, w: w - v.bit_length())):
        fn = Fn(ctx.repo, FUNCS, name, pid)
        bad, n = None, 0
        try:
            for w in range(1, 9):
                for v in range(1 << w):
                    got = ev.call(name, [const_bits(v, w)], {})
                    n += 1
                    gv = _val(Bits(got))  # unsigned reading
                    if gv != ref(v, w):
                        bad = f"width {w}, value {v:0{w}b}: {gv}, documented {ref(v, w)}"
                        break
                    if len(got) < max(1, w.bit_length()):
                        bad = f"width {w}: result has {len(got)} bit(s), cannot hold {w}"
                        break
                if bad:
                    break
        except WiringError as e:
            bad = f"the generator fails: {e}"
        except NotEvaluable as e:
            raise AnalysisError(pid, fn.site, f"{name}: outside the evaluable fragment: {e}")
        ctx.check(bad is None, f"{pid}.zero-count", fn.site, name, found=(bad or "agrees") + f"  [{n} (width, value) pairs evaluated]",
                  required="number of zero bits below the lowest (above the highest) set bit, the width for the value 0; for every value of widths 1..8")


def masks(ctx, pid="C36"):
    ev = Evaluator(ctx.repo, FUNCS, pid, max_depth=8)
    fn = Fn(ctx.repo, FUNCS, "cyclic_mask", pid)
    bad, n = None, 0
    try:
        for bits in range(1, 9):
            iw = max(1, (bits - 1).bit_length())
            for s in range(bits):
                for e in range(bits):
                    got = ev.call("cyclic_mask", [bits, const_bits(s, iw), const_bits(e, iw)], {})
                    n += 1
                    want = 0
                    k = s
                    while True:
                        want |= 1 << k
                        if k == e:
                            break
                        k = (k + 1) % bits
                    gv = _val(Bits(got))
                    if gv != want:
                        bad = f"bits={bits}, start={s}, end={e}: mask {gv:0{bits}b}, documented {want:0{bits}b}"
                        break
                if bad:
                    break
            if bad:
                break
    except WiringError as e:
        bad = f"the generator fails: {e}"
    except NotEvaluable as e:
        raise AnalysisError(pid, fn.site, f"cyclic_mask: outside the evaluable fragment: {e}")
    ctx.check(bad is None, f"{pid}.cyclic-mask", fn.site, "cyclic_mask", found=(bad or "agrees") + f"  [{n} (bits, start, end) triples evaluated]",
              required="ones from start to end inclusive, wrapping around when end < start; for bits 1..8 and every start/end")
