"""More obligations on the transaction core: schedulers, runnable/run wiring, call recording, bodies."""

from __future__ import annotations

import ast

from ..front import AnalysisError
from ..logic import atoms_of, conjuncts, equivalent, f_and, f_not, f_or, fstr, implies, lin_equal, to_formula, vstr
from ..pm import find_all, has, pat, pmatch
from ..pyfacts import Fn, cname, is_call_to, loop_iters, loops, py_guard
from ..report import Ctx
from ..stage import BodyDef, Effect, Helper, HwAssign, Jump, MethodCall, Raise, Relation, Return, Store, Submodule
from ..term import Term, mentions, subterms, tstr
from .core import A, BODY, MANAGER, METHOD, SCHED, SUGAR, TBASE, TMODULE, TRANSACTION, _cg, _fn

# ---------------------------------------------------------------------------
# schedulers


def scheduler_functions(ctx: Ctx, rule: str) -> list[str]:
    """Scheduler functions: names exported by schedulers.__all__ having the 4-parameter scheduler signature."""
    ctx.use(SCHED)
    mi = ctx.repo.module(SCHED)
    names = []
    for n in mi.all_names or list(mi.functions):
        fi = mi.functions.get(n)
        if fi is not None and len(fi.node.args.args) == 4:
            names.append(n)
    ctx.floor(rule, "scheduler functions", len(names), 2, SCHED)
    return names


def _classify_scheduler(fn: Fn) -> str:
    for ex in fn.exs:
        for s in ex.of(Submodule):
            return "arbiter"
    return "eager"


def sched_run_definitions(ctx: Ctx, pid: str, want_equiv: bool):
    """C01.h / C03.a / C07.a: how each scheduler defines `transaction.run`."""
    for name in scheduler_functions(ctx, f"{pid}.schedulers"):
        fn = _fn(ctx, SCHED, name, f"{pid}.sched")
        # scheduling is combinational: run (and the arbiter's requests) are decided in the cycle they apply to
        for ex_, h_ in fn.facts(HwAssign, lambda h: h.lhs is not None and (h.lhs[0] == "a" and h.lhs[2] == "run" or "requests" in tstr(h.lhs))):
            ctx.check(h_.domain == ("c", "comb"), f"{pid}.scheduler-combinational", h_.site, f"{name}.{tstr(h_.lhs).split('.')[-1].split('[')[0]}.domain", found=f"{tstr(h_.domain)} += {tstr(h_.lhs)}.eq(...)",
                      required="driven in m.d.comb: a registered run would execute a transaction one cycle after its readiness was evaluated")
        if _classify_scheduler(fn) == "eager":
            _sched_eager(ctx, pid, fn, want_equiv)
        else:
            _sched_arbiter(ctx, pid, fn)


def _run_assigns(fn: Fn):
    return fn.facts(HwAssign, lambda h: h.lhs is not None and h.lhs[0] == "a" and h.lhs[2] == "run")


def _sched_eager(ctx: Ctx, pid: str, fn: Fn, want_equiv: bool):
    rule = f"{pid}.eager-run"
    runs = _run_assigns(fn)
    ctx.floor(rule, "run assignments", len(runs), 1, fn.site)
    gr = fn.param(1)
    for ex, h in runs:
        t = h.lhs[1]
        cons = f"{fn.qualname}.run"
        f = to_formula(h.rhs)
        ready, runnable = A(("a", t, "ready")), A(("a", t, "runnable"))
        q = [a for a in atoms_of(f) if a[0] in ("anyq", "allq")]
        ok_q = len(q) == 1 and q[0][0] == "anyq"
        # run => ready & runnable  (C03.a)
        cex = implies(f, f_and(ready, runnable))
        ctx.check(cex is None, f"{pid}.run-implies-enabled", h.site, cons, found=fstr(f) + ("" if cex is None else f" (fails at {vstr(cex)})"),
                  required="run implies ready & runnable of the same transaction")
        if not ok_q:
            ctx.bad(rule + ".suppression", h.site, cons, found=fstr(f), required="run is blocked by ~any(run of conflicting earlier transactions)")
            continue
        noconf = f_not(A(q[0]))
        cex = implies(f, noconf)
        ctx.check(cex is None, rule + ".suppression", h.site, cons, found=fstr(f), required="~any(conflicts) is a conjunct of run")
        if want_equiv:
            cex = equivalent(f, f_and(ready, runnable, noconf))
            ctx.check(cex is None, f"{pid}.eager-no-waste", h.site, cons, found=fstr(f) + ("" if cex is None else f" (differs at {vstr(cex)})"),
                      required="run == ready & runnable & ~any(conflicts): nothing else blocks a transaction")
        # the conflicts comprehension
        lc = q[0][1]
        lp = loops(h)
        kb = lp[-1][0][0] if lp else None
        okc = lc[0] == "lc" and len(lc[3]) == 1
        detail = tstr(lc)
        if okc:
            jb, it, conds = lc[3][0]
            seq = None
            m_elt = pmatch("Q_seq[Q_j].run", lc[2])
            okc = m_elt is not None and m_elt["j"] == jb
            seq = m_elt["seq"] if m_elt else None
            # domain: all earlier positions
            m_it = pmatch("range(Q_k)", it)
            ok_dom = m_it is not None and m_it["k"] == kb and t == ("i", seq, kb)
            ctx.check(ok_dom, rule + ".domain", h.site, cons + ".conflicts", found=f"for j in {tstr(it)} (transaction {tstr(t)})",
                      required="all earlier positions range(k) of the sorted component")
            # filter: membership of ccl[j] in gr[transaction] (or symmetric)
            ok_f = len(conds) == 1
            if ok_f:
                c = conds[0]
                m1 = pmatch("Q_a in Q_g[Q_b]", c)
                ok_f = m1 is not None and m1["g"] == gr and {m1["a"], m1["b"]} == {("i", seq, jb), t}
            ctx.check(ok_f, rule + ".filter", h.site, cons + ".conflicts", found=" ; ".join(tstr(c) for c in conds) or "no filter",
                      required="exactly the neighbours of the transaction in the conflict graph")
        ctx.check(okc, rule + ".elements", h.site, cons + ".conflicts", found=detail, required="run signals of the earlier transactions")
        # one run assignment per element of the component
        ok_all = len(lp) == 1 and (is_call_to(lp[0][1], "range") or True)
        src = lp[0][1] if lp else None
        ms = (pmatch("enumerate(Q_s)", src) or pmatch("range(len(Q_s))", src)) if lp else None
        ctx.check(bool(lp) and ms is not None and ms["s"] == t[1] and _is_cc(ex, fn, t[1]),
                  rule + ".all-transactions", h.site, cons + ".loop", found=tstr(src) if src else "no loop", required="every transaction of the component gets a run definition")


def _is_cc(ex, fn: Fn, seq: Term) -> bool:
    """`seq` is list(cc) (cc = third parameter)."""
    cc = fn.param(2)
    return seq == cc or pmatch("list(Q_c)", seq) == {"c": cc} or pmatch("sorted(Q_c, key=Q_k)", seq) is not None


def _sched_arbiter(ctx: Ctx, pid: str, fn: Fn):
    rule = f"{pid}.arbiter-run"
    runs = _run_assigns(fn)
    ctx.floor(rule, "run assignments", len(runs), 1, fn.site)
    cc = fn.param(2)
    for ex, h in runs:
        t = h.lhs[1]
        cons = f"{fn.qualname}.run"
        lp = loops(h)
        kb = lp[-1][0][0] if lp else None
        f = to_formula(h.rhs)
        m = None
        for a in atoms_of(f):
            mm = pmatch("Q_rr.grant[Q_k]", a)
            if mm:
                m = mm
        ok = m is not None and m["k"] == kb and t == ("i", cc, kb)
        rr = m["rr"] if m else None
        okf = ok and equivalent(f, f_and(A(("i", ("a", rr, "grant"), kb)), A(("a", rr, "valid")))) is None
        ctx.check(okf, rule, h.site, cons, found=fstr(f), required="run[k] == grant[k] & valid of the component's arbiter, same k")
        if not ok:
            continue
        o = ex.obj(rr)
        size_ok = o is not None and pmatch("Q_c(len(Q_x))", o.ctor) is not None and pmatch("Q_c(len(Q_x))", o.ctor)["x"] == cc
        ctx.check(size_ok, rule + ".size", o.site if o else h.site, f"{fn.qualname}.arbiter", found=tstr(o.ctor) if o else "?",
                  required="one arbiter input per transaction of the component")
        if o is not None:
            ctx.__dict__.setdefault("_arbiter_classes", set()).add(o.ctor[1][1] if o.ctor[1][0] == "n" else tstr(o.ctor[1]))
        # requests
        reqs = [(e2, h2) for e2, h2 in fn.facts(HwAssign) if h2.lhs is not None and pmatch("Q_rr.requests[Q_k]", h2.lhs)]
        ok_req = False
        for e2, h2 in reqs:
            m2 = pmatch("Q_rr.requests[Q_k]", h2.lhs)
            k2 = loops(h2)[-1][0][0] if loops(h2) else None
            t2 = ("i", cc, k2)
            f2 = to_formula(h2.rhs)
            if m2["k"] == k2 and equivalent(f2, f_and(A(("a", t2, "ready")), A(("a", t2, "runnable")))) is None:
                ok_req = True
            ctx.check(m2["k"] == k2 and equivalent(f2, f_and(A(("a", t2, "ready")), A(("a", t2, "runnable")))) is None,
                      f"{pid}.run-implies-enabled", h2.site, f"{fn.qualname}.requests", found=f"requests[{tstr(m2['k'])}] = {fstr(f2)}",
                      required="requests[k] == ready & runnable of transaction k (grant[k] & valid => requests[k] by the arbiter, C39)")
        ctx.check(ok_req, rule + ".requests", h.site, f"{fn.qualname}.requests-present", found=f"{len(reqs)} request assignment(s)",
                  required="every transaction's request is wired to the arbiter")


def mgr_scheduler_per_component(ctx: Ctx, pid: str):
    """C01.h: one scheduler is instantiated for every connected component of the same conflict graph."""
    from . import core8

    core8.graph_ccs(ctx, pid)
    rule = f"{pid}.scheduler-per-cc"
    fn = _fn(ctx, MANAGER, "TransactionManager.elaborate", rule)
    found = []
    for ex in fn.exs[:1]:
        for s in ex.of(Submodule):
            v = s.value
            o = ex.obj(v)
            t = o.ctor if o else v
            for m in find_all("self.cc_scheduler(Q_mm, Q_g, Q_cc, Q_po)", t):
                found.append((ex, s, t, m))
    ctx.floor(rule, "scheduler instantiations", len(found), 1, fn.site)
    ex, s, t, m = found[0]
    ok = False
    detail = tstr(t)
    lcs = [x for x in subterms(t) if x[0] == "lc"]
    if lcs:
        lc = lcs[0]
        b, it, conds = lc[3][0]
        d = ex.vardef(it) or it
        mg = pmatch("_graph_ccs(Q_g)", d)
        ok = mg is not None and mg["g"] == m["g"] and m["cc"] == b and not conds
        detail += f" with {tstr(it)} = {tstr(d)}"
        # the graph is the one returned by _conflict_graph
        g = m["g"]
        ok = ok and pmatch("TransactionManager._conflict_graph(Q_mm)[0]", g) is not None
        ok = ok and pmatch("TransactionManager._conflict_graph(Q_mm)[1]", m["po"]) is not None
    ctx.check(ok, rule, s.site, "TransactionManager.elaborate.schedulers", found=detail[:300],
              required="cc_scheduler(method_map, cgr, cc, porder) for every cc in _graph_ccs(cgr), cgr/porder from _conflict_graph")
    # default scheduler is the eager one
    init = ctx.repo.func(MANAGER, "TransactionManager.__init__").node
    dflt = init.args.defaults[-1] if init.args.defaults else None
    ctx.check(isinstance(dflt, ast.Name) and dflt.id == "eager_deterministic_cc_scheduler", rule + ".default", f"{MANAGER}:{init.lineno}",
              "TransactionManager.__init__.cc_scheduler", found=ast.unparse(dflt) if dflt else "none", required="default scheduler = eager_deterministic_cc_scheduler", nontrivial=False)


# ---------------------------------------------------------------------------
# runnable / method run / call recording


def _mgr_combinational(ctx: Ctx, pid: str):
    """The wiring emitted by TransactionManager.elaborate (runnable, method run, argument mux, mirrors of provided methods)
    is combinational: every assignment is in m.d.comb.  A clocked one would apply a scheduling decision a cycle late."""
    fn = _fn(ctx, MANAGER, "TransactionManager.elaborate", f"{pid}.manager-combinational")
    hs = fn.facts(HwAssign)
    wrong = [h for _, h in hs if h.domain != ("c", "comb")]
    ctx.check(bool(hs) and not wrong, f"{pid}.manager-combinational", wrong[0].site if wrong else fn.site, "TransactionManager.elaborate.domains",
              found=f"{len(hs)} assignment(s)" + (f"; {tstr(wrong[0].domain)} += {tstr(wrong[0].lhs)}" if wrong else ", all comb"), required="every assignment of the manager is in m.d.comb", nontrivial=False)


def mgr_runnable(ctx: Ctx, pid: str):
    """C03.b: runnable = all( body.ready & all(ready-dependency runs) for every body that must be ready, + validators )."""
    rule = f"{pid}.runnable"
    _mgr_combinational(ctx, pid)
    fn = _fn(ctx, MANAGER, "TransactionManager.elaborate", rule)
    hs = fn.facts(HwAssign, lambda h: h.lhs is not None and h.lhs[0] == "a" and h.lhs[2] == "runnable")
    ctx.floor(rule, "runnable assignments", len(hs), 1, fn.site)
    for ex, h in hs:
        t = h.lhs[1]
        cons = "TransactionManager.elaborate.runnable"
        lp = loops(h)
        ok_loop = len(lp) == 1 and pmatch("Q_mm.transactions", lp[0][1]) is not None and lp[0][0][0] == t and py_guard(h) is True
        ctx.check(ok_loop, rule + ".all-transactions", h.site, cons, found=" / ".join(tstr(i) for i in loop_iters(h)) + f" if {fstr(py_guard(h))}",
                  required="runnable is defined for every transaction of the method map")
        m = pmatch("Cat(Q_terms).all()", h.rhs)
        ctx.check(m is not None, rule + ".conjunction", h.site, cons, found=tstr(h.rhs)[:200], required="an .all() reduction of the terms")
        if m is None:
            continue
        terms = m["terms"]
        parts = [x[1] if x[0] == "star" else x for x in terms[1:]] if terms[0] == "list" else [terms]
        lcs = [p for p in parts if p[0] == "lc"]
        # (1) readiness of every body + ready dependencies
        ok1 = False
        ok_dep = False
        for lc in lcs:
            (b, it, conds) = lc[3][0]
            mi = pmatch("Q_mm.ready_for_transaction(Q_t)", it)
            if mi is None or mi["t"] != t or conds or len(lc[3]) != 1:
                continue
            f = to_formula(lc[2])
            rd = A(("a", b, "ready"))
            if implies(f, rd) is None:
                ok1 = True
            q = [a for a in atoms_of(f) if a[0] == "allq"]
            if len(q) == 1 and equivalent(f, f_and(rd, A(q[0]))) is None:
                dl = q[0][1]
                (db, dit, dconds) = dl[3][0]
                md = pmatch("Q_rd[Q_b]", dit)
                ok_dep = md is not None and md["b"] == b and dl[2] == ("a", db, "run") and not dconds and _is_ready_deps(ex, md["rd"])
        ctx.check(ok1, rule + ".ready-of-call-tree", h.site, cons, found=" ; ".join(tstr(p)[:160] for p in parts),
                  required="body.ready for every body in ready_for_transaction(transaction) (transaction + whole static call tree)")
        ctx.check(ok_dep, rule + ".ready-dependencies", h.site, cons, found=" ; ".join(tstr(p)[:160] for p in parts),
                  required="each body's term is body.ready & all(dep.run for dep in ready_dependencies[body])")
        # (2) validators
        ok2 = False
        for lc in lcs:
            (b, it, conds) = lc[3][0]
            mi = pmatch("Q_mm.methods_by_transaction[Q_t]", it)
            if mi is None or mi["t"] != t:
                continue
            # filter may only drop methods without validator
            okf = all(pmatch("not (Q_m.validate_arguments is None)", c) is not None and pmatch("not (Q_m.validate_arguments is None)", c)["m"] == b for c in conds)
            okv = has("Q_m._validate_arguments(Q_en, Q_arg)", lc[2])
            ok2 = okf and okv
        ctx.check(ok2, rule + ".validators", h.site, cons, found=" ; ".join(tstr(p)[:200] for p in parts),
                  required="validate_arguments of every called method that has a validator is a runnable term")
    # ready_for_transaction = [trans] + methods_by_transaction[trans]
    rf = _fn(ctx, MANAGER, "MethodMap.ready_for_transaction", rule)
    for ex, r in rf.only(Return, lambda r: r.callid is None, rule, "return"):
        p = rf.param(1)
        ok = pmatch("[Q_t] + self.methods_by_transaction[Q_t]", r.value) == {"t": p} or r.value == ("op", "+", ("list", p), ("i", ("a", ("self",), "methods_by_transaction"), p)) \
            or r.value == ("list", p, ("star", ("i", ("a", ("self",), "methods_by_transaction"), p)))  # [t, *methods_by_transaction[t]]
        ctx.check(ok, rule + ".ready_for_transaction", r.site, "MethodMap.ready_for_transaction", found=tstr(r.value),
                  required="[transaction] + methods_by_transaction[transaction]")


def _is_ready_deps(ex, t: Term) -> bool:
    d = ex.vardef(t) or t
    return pmatch("self._ready_dependencies(Q_mm)", d) is not None


def mgr_ready_dependencies(ctx: Ctx, pid: str):
    """C03.d: nesting declares a ready-dependent schedule_before; _ready_dependencies files it under the end body."""
    rule = f"{pid}.ready-dependencies"
    fn = _fn(ctx, MANAGER, "TransactionManager._ready_dependencies", rule)
    effs = fn.facts(Effect, lambda e: pmatch("Q_rd[Q_k].add(Q_v)", e.call) is not None)
    ctx.floor(rule, "insertions", len(effs), 1, fn.site)
    for ex, e in effs:
        m = pmatch("Q_rd[Q_k].add(Q_v)", e.call)
        lp = loops(e)
        ok = len(lp) == 2
        if ok:
            (bb,), itb = lp[0]
            (br,), itr = lp[1]
            ok = (pmatch("Q_mm.methods_and_transactions", itb) is not None and itr == ("a", bb, "relations")
                  and m["k"] == ("a", br, "end") and m["v"] == bb)
        g = py_guard(e)
        okg = ok and equivalent(g, A(("a", br, "ready_dependent"))) is None
        # a `continue` under `not ready_dependent` is the accepted idiom; the insertion itself is reached when the jump is not taken
        if ok and not okg:
            jumps = fn.facts(Jump, lambda j: j.kind == "continue")
            if g is True and jumps and all(equivalent(py_guard(j), f_not(A(("a", loops(j)[1][0][0], "ready_dependent")))) is None for _, j in jumps):
                okg = True
        ctx.check(ok and okg, rule, e.site, "_ready_dependencies.insert", found=f"{tstr(e.call)} if {fstr(g)}",
                  required="ready_dependencies[relation.end].add(source body) exactly for ready_dependent relations of every body")
    bc = _fn(ctx, BODY, "Body.context", rule)
    rels = bc.facts(Relation, lambda r: r.kind == "schedule_before")
    ok = False
    for ex, r in rels:
        kw = dict(r.kwargs)
        parent = ex.vardef(r.subject) or r.subject
        if r.args == (("self",),) and kw.get("ready_dependent") == ("c", True) and pmatch("Body.peek()", parent) is not None:
            ok = True
    ctx.check(ok, rule + ".nesting", bc.site, "Body.context", found="; ".join(f"{tstr(r.subject)}.schedule_before({', '.join(tstr(a) for a in r.args)}, {dict(r.kwargs)})" for _, r in rels) or "no relation",
              required="enclosing body .schedule_before(self, ready_dependent=True)")
    # the stack discipline: push before yield, pop after
    pushes = bc.facts(Effect, lambda e: pmatch("Body.stack.append(self)", e.call) is not None)
    pops = bc.facts(Effect, lambda e: pmatch("Body.stack.pop()", e.call) is not None and any(fr[0] == "finally" for fr in e.frames))
    ctx.check(bool(pushes) and bool(pops), rule + ".stack", bc.site, "Body.context.stack", found=f"push={len(pushes)} pop-in-finally={len(pops)}",
              required="body pushed for the duration of its definition and popped on every exit")


def mgr_method_run(ctx: Ctx, pid: str):
    """C04.a: method.run == any(t.run & any(enable of t's calls to the method) for t in transactions_by_method[m])."""
    rule = f"{pid}.method-run"
    _mgr_combinational(ctx, pid)
    fn = _fn(ctx, MANAGER, "TransactionManager.elaborate", rule)
    hs = [(ex, h) for ex, h in fn.facts(HwAssign) if h.lhs is not None and h.lhs[0] == "a" and h.lhs[2] == "run" and loops(h)
          and pmatch("Q_mm.transactions_by_method.items()", loops(h)[0][1])]
    ctx.floor(rule, "method run assignments", len(hs), 1, fn.site)
    for ex, h in hs:
        cons = "TransactionManager.elaborate.method-run"
        (b,), it = loops(h)[0]
        meth, callers = ("i", b, ("c", 0)), ("i", b, ("c", 1))
        f = to_formula(h.rhs)
        ok = f is not True and f is not False and f[0] == "atom" and f[1][0] == "anyq" and h.lhs[1] == meth
        if ok:
            lc = f[1][1]
            (tb, tit, conds) = lc[3][0]
            ok = tit == callers and not conds and len(lc[3]) == 1
            g = to_formula(lc[2])
            q = [a for a in atoms_of(g) if a[0] == "anyq"]
            ok = ok and len(q) == 1 and equivalent(g, f_and(A(("a", tb, "run")), A(q[0]))) is None
            if ok:
                il = q[0][1]
                (cb, cit, cconds) = il[3][0]
                mk = pmatch("Q_mm.info_by_call[(Q_t, Q_m)]", cit)
                ok = mk is not None and mk["t"] == tb and mk["m"] == meth and il[2] == ("a", cb, "enable") and not cconds
        ctx.check(ok, rule, h.site, cons, found=tstr(h.rhs)[:300],
                  required="method.run == any over calling transactions t of (t.run & any(call.enable for call in info_by_call[(t, method)]))")
    # sole writers of run: schedulers (transaction bodies) and this assignment (method bodies)
    others = [(ex, h) for ex, h in fn.facts(HwAssign) if h.lhs is not None and h.lhs[0] == "a" and h.lhs[2] == "run" and (ex, h) not in hs
              and not (pmatch("Q_m.run", h.lhs) and pmatch("Q_m._body.run", h.rhs))]
    ctx.check(not others, rule + ".sole-writer", fn.site, "TransactionManager.elaborate.run-writers", found="; ".join(h.site for _, h in others) or "none",
              required="no other assignment to a body's run in the manager")


def mm_call_recording(ctx: Ctx, pid: str):
    """C03.c / C04.b: MethodMap.rec records every call (also disabled ones) and accumulates enables along the chain."""
    rule = f"{pid}.call-recording"
    fn = _fn(ctx, MANAGER, "MethodMap.__init__.rec", rule)
    params = {a.arg: ("p", fn.fi.qualname, k, a.arg) for k, a in enumerate(fn.fi.node.args.args)}
    names = list(params)
    if len(names) != 5:
        raise AnalysisError(rule, fn.site, "MethodMap.rec no longer has (transaction, source, ancestors, call_path, call_enable)")
    P = [params[n] for n in names]
    trans, source, ancestors, call_path, call_enable = P
    infos = fn.facts(Effect, lambda e: pmatch("self.info_by_call[(Q_t, Q_m)].append(Q_ci)", e.call) is not None)
    ctx.floor(rule, "CallInfo insertions", len(infos), 1, fn.site)
    for ex, e in infos:
        m = pmatch("self.info_by_call[(Q_t, Q_m)].append(Q_ci)", e.call)
        lp = loops(e)
        ok_dom = len(lp) == 2 and pmatch("Q_s.method_calls.items()", lp[0][1]) == {"s": source}
        cons = "MethodMap.rec.info"
        ctx.check(ok_dom and py_guard(e) is True, rule + ".all-calls", e.site, cons, found=" / ".join(tstr(i) for i in loop_iters(e)) + f" if {fstr(py_guard(e))}",
                  required="a CallInfo is recorded for every recorded call of the source body, unconditionally")
        ci = m["ci"]
        kw = dict(ci[3]) if ci[0] == "call" else {}
        if ok_dom:
            (mb,), _ = lp[0]
            (cb,), cit = lp[1]
            meth = m["m"]
            md = ex.vardef(meth) or meth
            ok_m = pmatch("MBody(Q_x[0]._body)", md) == {"x": mb} and m["t"] == trans
            ctx.check(ok_m and cit == ("i", mb, ("c", 1)), rule + ".key", e.site, cons, found=f"key ({tstr(m['t'])}, {tstr(md)}) over {tstr(cit)}",
                      required="filed under (root transaction, called method body)")
            en = kw.get("enable", ("c", None))
            f = to_formula(en)
            want = f_and(A(call_enable), A(("i", cb, ("c", 2))))
            ctx.check(equivalent(f, want) is None, f"{pid}.enable-accumulation", e.site, cons + ".enable", found=fstr(f),
                      required="enable = enable inherited from the caller chain & this call's own enable signal")
            ctx.check(kw.get("arg") == ("i", cb, ("c", 1)) and kw.get("call_path") == ("tuple", ("star", call_path), ("i", cb, ("c", 0)))
                      and kw.get("ancestors") == ("tuple", meth, ("star", ancestors)), rule + ".fields", e.site, cons + ".fields",
                      found=tstr(ci)[:240], required="arg / call path / ancestors of the same call record")
            # recursion passes the accumulated enable on
            recs = fn.facts(Effect, lambda x: pmatch("rec(Q_a, Q_b, Q_c, Q_d, Q_e)", x.call) is not None)
            okr = False
            for _, r in recs:
                mr = pmatch("rec(Q_a, Q_b, Q_c, Q_d, Q_e)", r.call)
                if mr["a"] == trans and mr["b"] == meth and equivalent(to_formula(mr["e"]), want) is None and py_guard(r) is True and len(loops(r)) == 2:
                    okr = True
            ctx.check(okr, f"{pid}.enable-accumulation", fn.site, "MethodMap.rec.recursion", found="; ".join(tstr(r.call)[:160] for _, r in recs),
                      required="rec(transaction, method, ..., accumulated enable) for every call, unconditionally")
    # methods_by_transaction insertion does not depend on any enable
    ins = fn.facts(Effect, lambda e: pmatch("self.methods_by_transaction[Q_t].append(Q_m)", e.call) is not None)
    ctx.floor(rule, "methods_by_transaction insertions", len(ins), 1, fn.site)
    for ex, e in ins:
        m = pmatch("self.methods_by_transaction[Q_t].append(Q_m)", e.call)
        g = py_guard(e)
        want = f_not(A(("op", "in", m["m"], ("i", ("a", ("self",), "methods_by_transaction"), m["t"]))))
        ctx.check(equivalent(g, want) is None, rule + ".static-tree", e.site, "MethodMap.rec.methods_by_transaction", found=fstr(g),
                  required="inserted whenever not yet present - never conditional on enables or conditions")
        # the inverse map is filled at the same place: transactions_by_method[m] gets the transaction exactly when
        # methods_by_transaction[t] gets the method
        inv = [x for _, x in fn.facts(Effect, lambda x: pmatch("self.transactions_by_method[Q_m].append(Q_t)", x.call) is not None) if x.frames == e.frames]
        okv = len(inv) == 1 and pmatch("self.transactions_by_method[Q_m].append(Q_t)", inv[0].call) == {"m": m["m"], "t": m["t"]} and m["t"] == trans
        ctx.check(okv, rule + ".inverse-map", e.site, "MethodMap.rec.transactions_by_method", found="; ".join(tstr(x.call) for x in inv) or "no insertion under the same condition",
                  required="transactions_by_method[method].append(transaction) next to methods_by_transaction[transaction].append(method): the two maps are inverse relations")
    # root call: every transaction, enable C(1)
    init = _fn(ctx, MANAGER, "MethodMap.__init__", rule)
    roots = init.facts(Effect, lambda e: pmatch("rec(Q_a, Q_b, (), (), Q_e)", e.call) is not None)
    ok = False
    for ex, e in roots:
        m = pmatch("rec(Q_a, Q_b, (), (), Q_e)", e.call)
        lp = loops(e)
        one = m["e"] == ("c", 1) or (m["e"][0] == "call" and m["e"][1] in (("n", "C"), ("n", "Const")) and m["e"][2][:1] == (("c", 1),) and m["e"][2][1:] in ((), (("c", 1),)) and not m["e"][3])
        if len(lp) == 1 and lp[0][1] == init.param(1) and one and pmatch("TBody(Q_t._body)", m["a"]) == {"t": lp[0][0][0]} and m["b"] == ("a", lp[0][0][0], "_body") and py_guard(e) is True:
            ok = True
    ctx.check(ok, rule + ".roots", init.site, "MethodMap.__init__.roots", found="; ".join(tstr(e.call) for _, e in roots) or "none",
              required="rec(TBody(t._body), t._body, (), (), C(1)) for every transaction")


def method_call_lowering(ctx: Ctx, pid: str):
    """C03.c / C04.c,d / C05.d: Method.__call__."""
    methods_call_forwarding(ctx, pid)
    rule = f"{pid}.method-call"
    fn = _fn(ctx, METHOD, "Method.__call__", rule)
    recs = fn.facts(Effect, lambda e: pmatch("Q_c.method_calls[self].append((Q_p, Q_a, Q_e))", e.call) is not None)
    ctx.floor(rule, "call recordings", len(recs), 1, fn.site)
    enable_call = ("p", fn.fi.qualname, 3, "enable_call")
    for a in fn.fi.node.args.args:
        pass
    pnames = [x.arg for x in fn.fi.node.args.posonlyargs + fn.fi.node.args.args]
    if "enable_call" not in pnames:
        raise AnalysisError(rule, fn.site, "Method.__call__ has no enable_call parameter")
    enable_call = ("p", fn.fi.qualname, pnames.index("enable_call"), "enable_call")
    for ex, e in recs:
        m = pmatch("Q_c.method_calls[self].append((Q_p, Q_a, Q_e))", e.call)
        cons = "Method.__call__.record"
        caller = ex.vardef(m["c"]) or m["c"]
        ctx.check(pmatch("Body.get()", caller) is not None and pmatch("Q_m.ctrl_path", m["p"]) is not None, rule + ".record", e.site, cons,
                  found=tstr(e.call), required="(current control path, argument record, enable signal) appended to the calling body's call list")
        arg_rec, en = m["a"], m["e"]
        # enable signal driven to 1 in av_comb
        ens = [h for h in ex.of(HwAssign) if h.lhs == en]
        ok_en = len(ens) == 1 and ens[0].domain == ("c", "av_comb") and to_formula(ens[0].rhs) is True
        ctx.check(ok_en, f"{pid}.enable-domain", ens[0].site if ens else e.site, "Method.__call__.enable_sig",
                  found="; ".join(f"{tstr(h.domain)} += enable.eq({tstr(h.rhs)})" for h in ens) or "not driven",
                  required="enable_sig.eq(1) in av_comb: gated by the surrounding conditions but not by the caller's run")
        args = [h for h in ex.of(HwAssign) if h.lhs == arg_rec]
        ok_arg = len(args) == 1 and args[0].domain == ("c", "top_comb") and args[0].via == "assign" and args[0].fields == ("a", ("n", "AssignType"), "ALL")
        ctx.check(ok_arg, f"{pid}.argument-wiring", args[0].site if args else e.site, "Method.__call__.arg_rec",
                  found="; ".join(f"{tstr(h.domain)} += {h.via}(arg_rec, {tstr(h.rhs)}, fields={tstr(h.fields) if h.fields else None})" for h in args) or "not driven",
                  required="the argument record is assigned from the call argument (all fields) unconditionally")
        rets = [r for r in ex.of(Return) if r.callid is None]
        ctx.check(len(rets) == 1 and rets[0].value == ("a", ("self",), "data_out"), f"{pid}.result-wiring", rets[0].site if rets else e.site,
                  "Method.__call__.result", found="; ".join(tstr(r.value) for r in rets), required="the call returns the callee's data_out")
    # every non-raising path records the call or re-enters under m.If(enable_call)
    n_plain = n_cond = 0
    for ex in fn.exs:
        if ex.of(Raise):
            continue
        has_rec = any(pmatch("Q_c.method_calls[self].append(Q_x)", e.call) for e in ex.of(Effect))
        re_enter = [c for c in ex.of(MethodCall) if c.callee == ("self",)]
        cons = "Method.__call__.paths"
        if has_rec:
            n_plain += 1
        elif re_enter:
            n_cond += 1
            c = re_enter[0]
            ifs = [fr for fr in c.frames if fr[0] == "if"]
            ok = len(ifs) == 1 and ifs[0][1] == enable_call and c.enable is None
            ctx.check(ok, f"{pid}.enable-call-lowering", c.site, "Method.__call__.enable_call", found=f"self(m, ...) under {[tstr(fr[1]) for fr in ifs]}",
                      required="a non-constant enable_call re-enters the call under m.If(enable_call)")
            g = py_guard(c)
        else:
            ctx.bad(rule + ".paths", fn.site, cons, found=f"configuration {[(tstr(t), v) for t, v in ex.config]} neither records nor re-enters",
                    required="every non-raising path records the call")
    # the plain (unconditional) recording path may be taken only for the constant-1 enable
    rec_reach = fn.reach(Effect, lambda e: pmatch("Q_c.method_calls[self].append(Q_x)", e.call) is not None)
    is_const = A(("call", ("n", "isinstance"), (enable_call, ("n", "Const")), ()))
    val_one = A(pat_eq(("a", enable_call, "value"), ("c", 1)))
    cex = implies(rec_reach, f_and(is_const, val_one))
    ctx.check(cex is None, f"{pid}.enable-call-lowering", fn.site, "Method.__call__.unconditional-path", found=fstr(rec_reach)[:300] + ("" if cex is None else f"  (reachable with {vstr(cex)})"),
              required="a call is recorded as unconditional only if enable_call is the constant 1; every other enable (signals, Const(0)) goes through m.If(enable_call)")
    ctx.check(n_plain >= 1 and n_cond >= 1, rule + ".paths", fn.site, "Method.__call__.paths", found=f"{n_plain} recording path(s), {n_cond} conditional re-entry path(s)",
              required="plain calls are recorded; conditional calls are lowered to a call under If")


def methods_call_forwarding(ctx: Ctx, pid: str):
    """Calling a one-element `Methods` object forwards argument, enable_call and keyword arguments to its method."""
    rule = f"{pid}.methods-call-forwarding"
    fn = _fn(ctx, METHOD, "Methods.__call__", rule)
    names = [x.arg for x in fn.fi.node.args.posonlyargs + fn.fi.node.args.args]
    if "enable_call" not in names or "arg" not in names:
        raise AnalysisError(rule, fn.site, "Methods.__call__ no longer has (m, arg, enable_call, **kwargs)")
    arg_p = ("p", fn.fi.qualname, names.index("arg"), "arg")
    en_p = ("p", fn.fi.qualname, names.index("enable_call"), "enable_call")
    calls = fn.facts(MethodCall)
    ok = False
    detail = "; ".join(f"{tstr(c.callee)}({', '.join(tstr(a) for a in c.args)}, enable={tstr(c.enable) if c.enable else None}, {[k for k, _ in c.kwargs]})" for _, c in calls) or "no call"
    for ex, c in calls:
        fwd_en = en_p in c.args or c.enable == en_p
        ok = ok or (c.callee == pat("self._methods[0]") and arg_p in c.args and fwd_en and any(k is None for k, _ in c.kwargs))
    ctx.check(ok, rule, fn.site, "Methods.__call__", found=detail, required="self._methods[0](m, arg, enable_call, **kwargs): a conditional call through the collection stays conditional")


def pat_eq(a: Term, b: Term) -> Term:
    from ..term import mk_op

    return mk_op("==", a, b)


def body_wrappers(ctx: Ctx, pid: str):
    """C06.d / C05.d: Method.body and Transaction.body."""
    for rel, qual, kind in ((METHOD, "Method.body", "method"), (TRANSACTION, "Transaction.body", "transaction")):
        rule = f"{pid}.body-wrapper"
        fn = _fn(ctx, rel, qual, rule)
        ys = fn.facts(Effect, lambda e: is_call_to(e.call, "yield"))
        ctx.floor(rule, f"yield in {qual}", len(ys), 1, fn.site)
        for ex, y in ys:
            av = [fr for fr in y.frames if fr[0] == "avoid"]
            withs = [fr for fr in y.frames if fr[0] == "with"]
            body = None
            if av:
                mm = pmatch("Q_b.run", av[0][1])
                body = mm["b"] if mm else None
            ok = len(av) == 1 and body is not None
            okctx = False
            for w in withs:
                t = w[1]
                if t[0] == "ret":
                    for c in ex.of(MethodCall):
                        if c.callid == t[1] and c.callee == ("a", body, "context"):
                            okctx = True
            ctx.check(ok and okctx, f"{pid}.avoided-if-run", y.site, f"{qual}.yield", found=" / ".join(fr[0] + "(" + tstr(fr[1]) + ")" for fr in y.frames),
                      required="the body's statements are wrapped in <body>.context(m) and m.AvoidedIf(<body>.run)")
            if body is None:
                continue
            # ready driven in a condition-gated domain
            rd = [h for h in ex.of(HwAssign) if h.lhs == ("a", body, "ready")]
            okr = len(rd) == 1 and rd[0].domain == ("c", "av_comb") and rd[0].rhs[0] == "p" and rd[0].rhs[3] == "ready"
            ctx.check(okr, f"{pid}.ready-domain", rd[0].site if rd else fn.site, f"{qual}.ready", found="; ".join(f"{tstr(h.domain)} += ready.eq({tstr(h.rhs)})" for h in rd) or "not driven",
                      required="body.ready driven from the ready argument in av_comb: gated by the surrounding conditions but not by the run of an enclosing body (in comb a nested body's ready would depend on the enclosing run, which depends on that ready)")
            if kind == "method":
                do = [h for h in ex.of(HwAssign) if h.lhs == ("a", body, "data_out")]
                ctx.check(len(do) == 1 and do[0].domain == ("c", "top_comb") and do[0].rhs[0] == "p" and do[0].rhs[3] == "out", f"{pid}.result-wiring",
                          do[0].site if do else fn.site, f"{qual}.data_out", found="; ".join(f"{tstr(h.domain)} += data_out.eq({tstr(h.rhs)})" for h in do),
                          required="body.data_out assigned from `out` unconditionally")
                ctx.check(y.call == ("call", ("n", "yield"), (("a", body, "data_in"),), ()), f"{pid}.argument-wiring", y.site, f"{qual}.yield-value", found=tstr(y.call),
                          required="the body sees body.data_in")
                mirrors = {}
                for h in ex.of(HwAssign):
                    if h.lhs is not None and h.lhs[0] == "a" and h.lhs[1] == ("self",) and h.rhs[0] == "a" and h.rhs[1] == body:
                        mirrors[h.lhs[2]] = (h.rhs[2], h)
                want = {"ready", "run", "data_in", "data_out"}
                ok_m = set(mirrors) == want and all(k == v[0] and v[1].domain == ("c", "top_comb") for k, v in mirrors.items())
                ctx.check(ok_m, f"{pid}.mirrors", fn.site, f"{qual}.mirrors", found=", ".join(f"{k}<-{v[0]} in {tstr(v[1].domain)}" for k, v in sorted(mirrors.items())),
                          required="method.f <- body.f for f in ready, run, data_in, data_out (same field), unconditionally (top_comb: also when the definition is nested in another body)")
                ctx.floor(f"{pid}.mirrors", "mirror assignments", len(mirrors), 4, fn.site)
    # Transaction._set_impl mirrors
    rule = f"{pid}.mirrors"
    fn = _fn(ctx, TRANSACTION, "Transaction._set_impl", rule)
    value = fn.param(2)
    mirrors = {}
    doms = set()
    for ex, h in fn.facts(HwAssign):
        if h.lhs is not None and h.lhs[0] == "a" and h.lhs[1] == ("self",) and h.rhs[0] == "a" and h.rhs[1] == value:
            mirrors[h.lhs[2]] = h.rhs[2]
            doms.add(h.domain)
    ctx.check(set(mirrors) == {"ready", "runnable", "run"} and all(k == v for k, v in mirrors.items()) and doms == {("c", "top_comb")}, rule, fn.site, "Transaction._set_impl.mirrors",
              found=", ".join(f"{k}<-{v}" for k, v in sorted(mirrors.items())), required="transaction.f <- body.f for f in ready, runnable, run")


def mgr_provided_mirrors(ctx: Ctx, pid: str):
    rule = f"{pid}.mirrors"
    _mgr_combinational(ctx, pid)
    fn = _fn(ctx, MANAGER, "TransactionManager.elaborate", rule)
    mirrors = {}
    site = fn.site
    for ex, h in fn.facts(HwAssign):
        lp = loops(h)
        if h.lhs is None or len(lp) != 1:
            continue
        (b,), it = lp[0]
        if h.lhs[0] == "a" and h.lhs[1] == b and h.rhs == ("a", ("a", b, "_body"), h.rhs[2] if h.rhs[0] == "a" else "") and py_guard(h) is True:
            d = it
            mirrors[h.lhs[2]] = (h.rhs[2], tstr(it))
            site = h.site
            prov = ex
            it_t = it
    ok = set(mirrors) == {"ready", "run", "data_in", "data_out"} and all(k == v[0] for k, v in mirrors.items())
    ok_dom = False
    if mirrors:
        x = it_t
        if is_call_to(x, "chain") and len(x[2]) == 1:
            x = x[2][0]
        d = prov.vardef(x) or x
        ok_dom = has("ProvidedMethodsKey()", d)
    ctx.check(ok and ok_dom, rule, site, "TransactionManager.elaborate.provided-mirrors", found=", ".join(f"{k}<-_body.{v[0]}" for k, v in sorted(mirrors.items())),
              required="for every provided method: method.f <- method._body.f for f in ready, run, data_in, data_out")
    # provide stores the target; _body resolves the chain
    pv = _fn(ctx, METHOD, "Method.provide", rule)
    effs = pv.facts(Effect, lambda e: pmatch("self._set_impl(Q_m)", e.call) is not None)
    deps = pv.facts(Effect, lambda e: has("ProvidedMethodsKey()", e.call) and has("self", e.call))
    ctx.check(bool(effs) and pmatch("self._set_impl(Q_m)", effs[0][1].call)["m"] == pv.param(1) and bool(deps), rule + ".provide", pv.site, "Method.provide",
              found="; ".join(tstr(e.call) for _, e in effs + deps), required="provide stores the providing method and registers self as a provided method")
    bp = _fn(ctx, METHOD, "Method._body", rule)
    rets = bp.facts(Return)
    ok = any(pmatch("MBody(self._body_ptr)", r.value) is not None for _, r in rets) and any(
        pmatch("self._body_ptr._body", (ex.vardef(r.value) or r.value)) is not None or r.value == ("a", ("self",), "_body_ptr") for ex, r in rets)
    ctx.check(ok, rule + ".body-resolution", bp.site, "Method._body", found="; ".join(tstr(r.value) for _, r in rets),
              required="_body follows the chain of providing methods down to a Body")


def mgr_argument_routing(ctx: Ctx, pid: str):
    """C05.a,b,c: per-method argument/run lists aligned; data_in = combiner(args, runs); default combiner = one-hot mux."""
    rule = f"{pid}.argument-routing"
    _mgr_combinational(ctx, pid)
    fn = _fn(ctx, MANAGER, "TransactionManager._method_calls", rule)
    apps = fn.facts(Effect, lambda e: pmatch("Q_l[Q_k].append(Q_v)", e.call) is not None)
    ctx.floor(rule, "list appends", len(apps), 2, fn.site)
    rets = fn.only(Return, lambda r: r.callid is None, rule, "return")
    rv = rets[0][1].value
    if rv[0] != "tuple" or len(rv) != 3:
        raise AnalysisError(rule, fn.site, "_method_calls no longer returns (args, runs)")
    args_o, runs_o = rv[1], rv[2]
    a_app = [(ex, e) for ex, e in apps if pmatch("Q_l[Q_k].append(Q_v)", e.call)["l"] == args_o]
    r_app = [(ex, e) for ex, e in apps if pmatch("Q_l[Q_k].append(Q_v)", e.call)["l"] == runs_o]
    ok = len(a_app) == 1 and len(r_app) == 1
    detail = "; ".join(tstr(e.call) for _, e in apps)
    if ok:
        ea, er = a_app[0][1], r_app[0][1]
        ma, mr = pmatch("Q_l[Q_k].append(Q_v)", ea.call), pmatch("Q_l[Q_k].append(Q_v)", er.call)
        lp = loops(ea)
        ok = ea.frames == er.frames and py_guard(ea) is True and len(lp) == 3 and ma["k"] == mr["k"]
        if ok:
            (sb,), sit = lp[0]
            (mb,), mit = lp[1]
            (cb,), cit = lp[2]
            ok = (pmatch("Q_mm.methods_and_transactions", sit) is not None and mit == ("call", ("a", ("a", sb, "method_calls"), "items"), (), ())
                  and cit == ("i", mb, ("c", 1)) and ma["k"] == ("a", ("i", mb, ("c", 0)), "_body")
                  and ma["v"] == ("i", cb, ("c", 1))
                  and equivalent(to_formula(mr["v"]), f_and(A(("a", sb, "run")), A(("i", cb, ("c", 2))))) is None)
    ctx.check(ok, rule + ".alignment", fn.site, "_method_calls.args/runs", found=detail[:300],
              required="for every recorded call of every body: args[method].append(arg) and runs[method].append(source.run & enable) together, unconditionally")
    el = _fn(ctx, MANAGER, "TransactionManager.elaborate", rule)
    dins = el.facts(HwAssign, lambda h: h.lhs is not None and h.lhs[0] == "a" and h.lhs[2] == "data_in" and h.via == "assign")
    ctx.floor(rule, "data_in assignments", len(dins), 1, el.site)
    for ex, h in dins:
        meth = h.lhs[1]
        m = pmatch("Q_m.combiner(Q_mod, Q_args[Q_k], Q_runs)", h.rhs)
        ok = m is not None and m["m"] == meth and m["k"] == meth
        if ok:
            mr = pmatch("Cat(Q_r[Q_k])", m["runs"])
            ok = mr is not None and mr["k"] == meth
            if ok:
                # args and runs come from the same _method_calls result, positions 0 and 1
                pa = pmatch("Q_x[0]", m["args"])
                pr = pmatch("Q_x[1]", mr["r"])
                ok = pa is not None and pr is not None and pa["x"] == pr["x"] and is_call_to(pa["x"], "_method_calls")
                if not ok:
                    # _method_calls inlined: its return value is the pair (args, runs)
                    ok = any(r.callid is not None and r.value == ("tuple", m["args"], mr["r"]) and r.site.startswith(MANAGER) for r in ex.of(Return))
        lp = loops(h)
        ok_dom = len(lp) == 1 and pmatch("Q_mm.called_methods", lp[0][1]) is not None and lp[0][0][0] == meth
        ctx.check(ok and ok_dom and h.fields == ("a", ("n", "AssignType"), "ALL"), rule + ".data_in", h.site, "TransactionManager.elaborate.data_in",
                  found=tstr(h.rhs)[:240], required="method.data_in <- method.combiner(m, args[method], Cat(runs[method])) for every called method")
    dc = _fn(ctx, BODY, "Body._default_combiner.impl", rule)
    for ex, r in dc.only(Return, lambda r: r.callid is None, rule, "return"):
        m = pmatch("OneHotMux.create(Q_m, Q_pairs)", r.value)
        ok = False
        if m and m["pairs"][0] == "lc":
            lc = m["pairs"]
            (b, it, conds) = lc[3][0]
            runs_p, args_p = dc.param(2), dc.param(1)
            ok = lc[2] == ("tuple", ("i", runs_p, b), ("i", args_p, b)) and pmatch("range(len(Q_a))", it) == {"a": args_p} and not conds
        ctx.check(ok, rule + ".default-combiner", r.site, "Body._default_combiner", found=tstr(r.value),
                  required="OneHotMux.create(m, [(runs[i], args[i]) for i in range(len(args))]) - select and input share the index")


def def_method_result(ctx: Ctx, pid: str):
    """C05.e: def_method assigns the returned value to `out` with AssignType.ALL in top_comb; body gets ready/out."""
    rule = f"{pid}.def-method"
    fn = _fn(ctx, SUGAR, "def_method", rule, enter=("decorator",))
    bodies = fn.facts(BodyDef)
    ctx.floor(rule, "body definitions", len(bodies), 1, fn.site)
    for ex, b in bodies[:1]:
        out = b.out
        ok_b = b.owner == fn.param(1) and b.ready == fn.param(2) and out is not None and out[0] == "obj" and b.kwargs_star is not None
        ctx.check(ok_b, rule + ".body", b.site, "def_method.body", found=f"{tstr(b.owner)}.body(ready={tstr(b.ready)}, out={tstr(out) if out else None}, **{tstr(b.kwargs_star) if b.kwargs_star else None})",
                  required="method.body(m, ready=ready, out=out, **kwargs)")
    assigns = [(ex, h) for ex, h in fn.facts(HwAssign) if h.via == "assign"]
    ok = False
    for ex, h in assigns:
        o = ex.obj(h.lhs)
        rv = ex.vardef(h.rhs) or h.rhs
        if o is not None and h.domain == ("c", "top_comb") and h.fields == ("a", ("n", "AssignType"), "ALL") and is_call_to(rv, "method_def_helper"):
            bd = [b for b in ex.of(BodyDef)]
            # the only reason not to assign is a body function that returned nothing
            g = py_guard(h)
            ats = atoms_of(g)
            ok_g = g is True or (len(ats) == 1 and ats[0][0] == "op" and ats[0][1] == "is" and set(ats[0][2:]) == {h.rhs, ("c", None)} and equivalent(g, f_not(A(ats[0]))) is None)
            if bd and bd[0].out == h.lhs and rv[2][0] == fn.param(1) and rv[2][2] == ("arg", bd[0].bodyid) and ok_g:
                ok = True
    ctx.check(ok, rule + ".result", assigns[0][1].site if assigns else fn.site, "def_method.out", found="; ".join(f"{tstr(h.domain)} += assign({tstr(h.lhs)}, {tstr(ex.vardef(h.rhs) or h.rhs)}, {tstr(h.fields) if h.fields else None})" for ex, h in assigns) or "none",
              required="top_comb += assign(out, <value returned by the body function applied to the argument>, fields=AssignType.ALL)")
    fm = _fn(ctx, SUGAR, "def_methods", rule, enter=("decorator",))
    effs = fm.facts(Effect)
    ok = False
    for ex, e in effs:
        m = pmatch("def_method(Q_m, Q_ms[Q_i], Q_r, **Q_kw)(Q_f)", e.call)
        if m:
            lp = loops(e)
            rdy = m["r"]
            ok = (len(lp) == 1 and lp[0][0][0] == m["i"] and pmatch("range(len(Q_x))", lp[0][1]) == {"x": m["ms"]} and m["ms"] == fm.param(1)
                  and (pmatch("partial(Q_f, Q_i)", ex.vardef(m["f"]) or m["f"]) or {}).get("i") == m["i"]
                  and (pmatch("Q_ready(Q_i)", rdy) or {}).get("i") == m["i"] and py_guard(e) is True)
    ctx.check(ok, rule + ".def_methods", fm.site, "def_methods.loop", found="; ".join(tstr(e.call)[:200] for _, e in effs) or "none",
              required="def_method(m, methods[i], ready(i), **kwargs)(partial(func, i)) for every i - same index everywhere")


def methods_provide(ctx: Ctx, pid: str):
    """Methods.provide forwards the i-th method to the i-th given method, for every i (C05: 'also through Methods.provide').
    (The extractor models `for a, b in zip(x, y)` by one index binder: a = x[i], b = y[i].)"""
    rule = f"{pid}.methods-provide"
    fn = _fn(ctx, METHOD, "Methods.provide", rule)
    rels = fn.facts(Relation, lambda r: r.kind == "provide")
    ctx.floor(rule, "element-wise provide calls", len(rels), 1, fn.site)
    ok = False
    given = fn.param(1)
    for ex, r in rels:
        lp = loops(r)
        if len(lp) != 1 or len(r.args) != 1:
            continue
        (b,), it = lp[0]
        subj_ok = r.subject == ("i", ("self",), b)
        arg = r.args[0]
        arg_ok = arg[0] == "i" and arg[2] == b and (arg[1] == given or arg[1] == ("call", ("n", "list"), (given,), ()) or (ex.vardef(arg[1]) or arg[1]) == ("call", ("n", "list"), (given,), ()))
        mz = pmatch("zip(self, Q_ms)", it)
        ok = subj_ok and arg_ok and mz is not None and py_guard(r) in (True,) or (subj_ok and arg_ok and mz is not None and not [fr for fr in r.frames if fr[0] == "py" and len(fr) > 3])
    raises = fn.facts(Raise)
    ctx.check(bool(ok), rule, fn.site, "Methods.provide", found="; ".join(f"{tstr(r.subject)}.provide({', '.join(tstr(a) for a in r.args)}) over {[tstr(i) for i in loop_iters(r)]} if {fstr(py_guard(r))}" for _, r in rels),
              required="self[i].provide(methods[i]) for every i (zip of the collection with the given methods), not skipping any")
    ctx.check(bool(raises), rule + ".length", fn.site, "Methods.provide.length", found=f"{len(raises)} raise(s): " + "; ".join(fstr(py_guard(r)) for _, r in raises),
              required="a list of another length is rejected (zip would silently drop the rest)", nontrivial=False)


def body_validate_arguments(ctx: Ctx, pid: str):
    """C03.e: _validate_arguments returns ~en | predicate; manager hands it the accumulated enable of the same call."""
    rule = f"{pid}.validate-arguments"
    fn = _fn(ctx, BODY, "Body._validate_arguments", rule)
    en, arg = fn.param(1), fn.param(2)
    rets = fn.only(Return, lambda r: r.callid is None, rule, "returns")
    seen = False
    for ex, r in rets:
        g = py_guard(r)
        has_val = f_not(A(pat("self.validate_arguments is None")))
        f = to_formula(r.value)
        if f is True:
            # the result is one term of Cat(...).all(): "no objection" has to be all ones in its width, i.e. the 1-bit 1
            v = r.value
            one = v in (("c", 1), ("c", True)) or (v[0] == "call" and v[1] in (("n", "C"), ("n", "Const")) and v[2] in ((("c", 1),), (("c", 1), ("c", 1))) and not v[3])
            ctx.check(one, rule + ".no-validator", r.site, "Body._validate_arguments.default", found=f"{tstr(v)} if {fstr(g)}",
                      required="without a validator the result is the one-bit constant 1 (it is and-reduced with the other terms of runnable)")
            continue
        seen = True
        preds = [a for a in atoms_of(f) if a != en]
        # `.bool()` is normalised to not (x == 0): the predicate atom then occurs negated
        pred_f = f_not(A(preds[0])) if preds and pmatch("0 == Q_x", preds[0]) else (A(preds[0]) if preds else True)
        ok = len(preds) == 1 and equivalent(f, f_or(f_not(A(en)), pred_f)) is None and has("method_def_helper(self, self.validate_arguments, Q_a)", preds[0])
        ok = ok and any(m["a"] == arg for m in find_all("method_def_helper(self, self.validate_arguments, Q_a)", preds[0]))
        ctx.check(ok and implies(g, has_val) is None, rule + ".shape", r.site, "Body._validate_arguments", found=f"{fstr(f)} if {fstr(g)}",
                  required="~en | validate_arguments(arg): a disabled call never blocks, an enabled one needs the predicate")
    ctx.check(seen, rule + ".present", fn.site, "Body._validate_arguments.nontrivial", found=f"{len(rets)} return(s)", required="a validator, when present, is consulted")
    el = _fn(ctx, MANAGER, "TransactionManager.elaborate", rule)
    rets = el.facts(Return, lambda r: r.callid is not None and has("Q_m._validate_arguments(Q_e, Q_a)", r.value))
    ctx.floor(rule, "validator applications", len(rets), 2, el.site)
    for ex, r in rets:
        for m in find_all("Q_m._validate_arguments(Q_e, Q_a)", r.value):
            e, a = m["e"], m["a"]
            cons = "TransactionManager.elaborate.validate_args_for_method"
            m1 = pmatch("Q_c.enable", e)
            if m1 is not None:
                ok = a == ("a", m1["c"], "arg")
                ctx.check(ok, rule + ".pairing", r.site, cons + "[nonexclusive]", found=f"_validate_arguments({tstr(e)}, {tstr(a)})",
                          required="enable and argument of the same call")
                # every active call has to pass: the per-call results are and-reduced
                red = pmatch("Cat(Q_g).all()", r.value)
                ctx.check(red is not None and red["g"][0] == "lc" and red["g"][3][0][0] == m1["c"] and not red["g"][3][0][2], rule + ".all-calls", r.site, cons + "[nonexclusive].reduction", found=tstr(r.value)[:160],
                          required="Cat(validator result of every call).all(): one failing active call blocks the transaction")
            else:
                ok = False
                q = to_formula(e)
                if q is not True and q is not False and q[0] == "atom" and q[1][0] == "anyq":
                    lc = q[1][1]
                    (cb, cit, _c) = lc[3][0]
                    ad = ex.vardef(a) or a
                    mm = pmatch("OneHotMux.create(Q_m, Q_pairs)", ad)
                    if mm and mm["pairs"][0] == "lc":
                        pl = mm["pairs"]
                        (pb, pit, _pc) = pl[3][0]
                        ok = lc[2] == ("a", cb, "enable") and pl[2] == ("tuple", ("a", pb, "enable"), ("a", pb, "arg")) and pit == cit
                ctx.check(ok, rule + ".pairing", r.site, cons + "[exclusive]", found=f"_validate_arguments({tstr(e)[:120]}, {tstr(ex.vardef(a) or a)[:160]})",
                          required="any(enable of the calls) with the argument selected by the same enables (one-hot mux over the same calls)")
