"""C32 - latency measurers: epoch counter, start/stop pairing by FIFO order or slot address, truncated
subtraction at exactly the epoch width, one histogram sample per stop lane.  That the measured value equals the
elapsed cycles is NOT decided."""

from .common import *
from ..pm import pmatch, pat, has
from .C18 import _inner_guards

REL = "transactron/lib/metrics.py"
ENABLED = "HwMetric.metrics_enabled()"
EW = pat("bits_for(self.max_latency)")


def cfgv(ex, key):
    for t, v in ex.config:
        if tstr(t) == key:
            return v
    return None


def _epoch(ctx, comp, ex, cls):
    ep = None
    for h in ex.of(HwAssign):
        if is_sync(h.domain) and h.lhs is not None and h.lhs[0] == "obj" and not h.guards() and lin_equal(h.rhs, ("op", "+", h.lhs, ("c", 1))):
            ep = h.lhs
    ok = ep is not None and pmatch("Signal(Q_w)", ex.obj(ep).ctor) is not None and pmatch("Signal(Q_w)", ex.obj(ep).ctor)["w"] == EW
    ctx.check(ok, "C32.epoch", ex.obj(ep).site if ep else comp.site, f"{cls}.epoch", found=tstr(ex.obj(ep).ctor) if ep else "no free-running counter", required="a counter of bits_for(max_latency) bits that increments every cycle, unconditionally")
    return ep if ok else None


def _histogram(ctx, comp, cls, ways_term):
    h = comp.init_attr("histogram", last=True)
    ok = h is not None and h[0] == "call"
    if ok:
        kw = dict(h[3])
        ok = kw.get("sample_width") == EW and kw.get("ways") is not None and lin_equal(kw["ways"], ways_term) and kw.get("bucket_count") is not None and lin_equal(kw["bucket_count"], ("op", "+", EW, ("c", 1)))
    ctx.check(ok, "C32.histogram-shape", comp.site, f"{cls}.histogram", found=tstr(h)[:200] if h else "none", required="histogram samples have exactly the epoch width; one way per stop lane; bits_for(max_latency)+1 buckets")


def _duration_ok(d, ep, stored) -> bool:
    m = pmatch("(Q_e - Q_s).as_unsigned()[:-1]", d)
    return m is not None and m["e"] == ep and m["s"] == stored


def wide(ctx):
    comp = Component(ctx.repo, REL, "WideFIFOLatencyMeasurer", rule="C32")
    comp.require_modelled("C32")
    en = [e for e in comp.configs if cfgv(e, ENABLED)]
    dis = [e for e in comp.configs if cfgv(e, ENABLED) is False]
    ctx.check(len(dis) == 1 and not dis[0].of(BodyDef) and not dis[0].of(Submodule), "C32.disabled-no-hardware", comp.site, "WideFIFOLatencyMeasurer.disabled", found=f"{len(dis)} disabled configuration(s)", required="no hardware with metrics disabled")
    if not en:
        raise AnalysisError("C32", comp.site, "no enabled configuration")
    ex = en[0]
    ep = _epoch(ctx, comp, ex, "WideFIFOLatencyMeasurer")
    from ..term import mk_op

    _histogram(ctx, comp, "WideFIFOLatencyMeasurer", mk_op("*", ("p", "WideFIFOLatencyMeasurer.__init__", "kw:ways", "ways"), pat("self.max_stop_count")))
    if ep is None:
        return
    fifos = None
    for oid, o in ex.objects.items():
        if o.ctor[0] == "lc" and ex.obj(o.ctor[2]) is not None and pmatch("WideFifo(Q_w, self.slots_number, self.max_stop_count, self.max_start_count)", ex.obj(o.ctor[2]).ctor):
            fifos = ("obj", oid)
            okf = pmatch("WideFifo(Q_w, self.slots_number, self.max_stop_count, self.max_start_count)", ex.obj(o.ctor[2]).ctor)["w"] == EW and o.ctor[3][0][1] == pat("range(len(self.start))")
            ctx.check(okf, "C32.epoch-fifo", o.site, "WideFIFOLatencyMeasurer.fifos", found=tstr(ex.obj(o.ctor[2]).ctor), required="one FIFO of epoch-width entries per way, read width = max_stop_count, write width = max_start_count")
    if fifos is None:
        raise AnalysisError("C32", comp.site, "epoch FIFOs not found", missing="epoch FIFOs not found")
    st, sp = need_body(ex, "start", "C32", comp.site), need_body(ex, "stop", "C32", comp.site)
    cs = calls_in_body(ex, st)
    ok = len(cs) == 1 and cs[0].callee == ("a", ("i", fifos, st.binder), "write") and not _inner_guards(ex, cs[0], st)
    if ok:
        kw = dict(cs[0].kwargs)
        ok = kw.get("count") == ("a", ("arg", st.bodyid), "count") and kw.get("data") in (("op", "*", pat("self.max_start_count"), ("list", ep)), ("op", "*", ("list", ep), pat("self.max_start_count")))
    ctx.check(ok, "C32.start-stores-epoch", st.site, "WideFIFOLatencyMeasurer.start", found="; ".join(f"{tstr(c.callee)}({dict((k, tstr(v)) for k, v in c.kwargs)})" for c in cs), required="start[k] writes `count` copies of the current epoch into FIFO k, unconditionally")
    cs = calls_in_body(ex, sp)
    rd = [c for c in cs if c.callee == ("a", ("i", fifos, sp.binder), "read")]
    add = [c for c in cs if has("self.histogram.add[Q_i]", c.callee)]
    ok = len(rd) == 1 and dict(rd[0].kwargs).get("count") == ("a", ("arg", sp.bodyid), "count") and not _inner_guards(ex, rd[0], sp)
    ctx.check(ok, "C32.stop-reads-fifo", sp.site, "WideFIFOLatencyMeasurer.stop.read", found="; ".join(tstr(c.callee) for c in rd), required="stop[k] reads `count` start epochs from FIFO k (same k: events matched in FIFO order)")
    if not ok:
        return
    ret = ("ret", rd[0].callid)
    ok = len(add) == 1
    if ok:
        a = add[0]
        lane = [fr for fr in a.frames if fr[0] == "for" and fr[2] == pat("range(self.max_stop_count)")]
        ok = len(lane) == 1
        if ok:
            i = lane[0][1][0]
            g = _inner_guards(ex, a, sp)
            okg = len(g) == 1 and g[0][0] == "if" and equivalent(to_formula(g[0][1]), to_formula(("op", "<", i, ("a", ret, "count")))) is None
            idx = a.callee[2]
            okidx = lin_equal(idx, ("op", "+", ("op", "*", sp.binder, pat("self.max_stop_count")), i)) or lin_equal(idx, ("op", "+", ("op", "*", pat("self.max_stop_count"), sp.binder), i))
            okd = len(a.args) == 1 and _duration_ok(a.args[0], ep, ("i", ("a", ret, "data"), i))
            ctx.check(okg, "C32.sample-per-finished-event", a.site, "WideFIFOLatencyMeasurer.stop.lanes", found=" / ".join(tstr(fr[1]) for fr in g), required="lane i adds a sample exactly when i < number of events actually read")
            ctx.check(okidx, "C32.histogram-lane-index", a.site, "WideFIFOLatencyMeasurer.stop.histogram-way", found=tstr(idx), required="way k, lane i uses histogram way k * max_stop_count + i (distinct, in range)")
            ctx.check(okd, "C32.duration", a.site, "WideFIFOLatencyMeasurer.stop.duration", found=tstr(a.args[0]) if a.args else "none", required="(epoch - stored epoch of lane i) truncated to the epoch width (modular difference)")
    ctx.check(ok, "C32.stop-adds-samples", sp.site, "WideFIFOLatencyMeasurer.stop.add", found=f"{len(add)} histogram call site(s)", required="one histogram.add per stop lane")


def fifo_wrapper(ctx):
    comp = Component(ctx.repo, REL, "FIFOLatencyMeasurer", rule="C32")
    comp.require_modelled("C32")
    ex = comp.configs[0]
    for nm in ("start", "stop"):
        b = need_body(ex, nm, "C32", comp.site)
        cs = calls_in_body(ex, b)
        ok = len(cs) == 1 and cs[0].callee == ("i", ("a", pat("self._impl"), nm), b.binder) and dict(cs[0].kwargs).get("count") == ("c", 1) and not _inner_guards(ex, cs[0], b)
        ctx.check(ok, "C32.fifo-wrapper", b.site, f"FIFOLatencyMeasurer.{nm}", found="; ".join(f"{tstr(c.callee)}({dict((k, tstr(v)) for k, v in c.kwargs)})" for c in cs), required=f"{nm}[k] = impl.{nm}[k](count=1)")
    ctx.check(any(s.value == pat("self._impl") for s in ex.of(Submodule)), "C32.fifo-wrapper", comp.site, "FIFOLatencyMeasurer.impl", found="submodule" if ex.of(Submodule) else "none", required="the implementation is a submodule", nontrivial=False)


def tagged(ctx):
    comp = Component(ctx.repo, REL, "TaggedLatencyMeasurer", rule="C32")
    comp.require_modelled("C32")
    en = [e for e in comp.configs if cfgv(e, ENABLED)]
    if not en:
        raise AnalysisError("C32", comp.site, "no enabled configuration")
    ex = en[0]
    ep = _epoch(ctx, comp, ex, "TaggedLatencyMeasurer")
    _histogram(ctx, comp, "TaggedLatencyMeasurer", ("p", "TaggedLatencyMeasurer.__init__", "kw:ways", "ways"))
    if ep is None:
        return
    slots = None
    for s in ex.of(Submodule):
        o = ex.obj(s.value)
        if o is not None and o.ctor[0] == "call" and o.ctor[1] == ("n", "AsyncMemoryBank"):
            slots = s.value
            kw = dict(o.ctor[3])
            ok = kw.get("shape") == EW and kw.get("depth") == pat("self.slots_number") and kw.get("write_ports") == pat("len(self.start)") and kw.get("read_ports") == pat("len(self.stop)")
            ctx.check(ok, "C32.slot-memory", o.site, "TaggedLatencyMeasurer.slots", found=tstr(o.ctor), required="slot memory: epoch-width rows, one row per slot, one write port per start way, one read port per stop way")
    if slots is None:
        raise AnalysisError("C32", comp.site, "slot memory not found", missing="slot memory not found")
    st, sp = need_body(ex, "start", "C32", comp.site), need_body(ex, "stop", "C32", comp.site)
    cs = [c for c in calls_in_body(ex, st) if has("Q_s.write[Q_k]", c.callee)]
    ok = len(cs) == 1 and cs[0].callee == ("i", ("a", slots, "write"), st.binder) and dict(cs[0].kwargs) == {"addr": ("a", ("arg", st.bodyid), "slot"), "data": ep} and not _inner_guards(ex, cs[0], st)
    ctx.check(ok, "C32.start-stores-epoch", st.site, "TaggedLatencyMeasurer.start", found="; ".join(f"{tstr(c.callee)}({dict((k, tstr(v)) for k, v in c.kwargs)})" for c in cs), required="start[k] stores the current epoch at the slot address, unconditionally")
    cs = calls_in_body(ex, sp)
    rd = [c for c in cs if c.callee == ("i", ("a", slots, "read"), sp.binder)]
    add = [c for c in cs if has("self.histogram.add[Q_i]", c.callee)]
    ok = len(rd) == 1 and dict(rd[0].kwargs) == {"addr": ("a", ("arg", sp.bodyid), "slot")} and not _inner_guards(ex, rd[0], sp)
    ctx.check(ok, "C32.stop-reads-slot", sp.site, "TaggedLatencyMeasurer.stop.read", found="; ".join(f"{tstr(c.callee)}({dict((k, tstr(v)) for k, v in c.kwargs)})" for c in rd), required="stop[k] reads the epoch stored at its slot address (same key as start)")
    if ok:
        ret = ("ret", rd[0].callid)
        ok = len(add) == 1 and add[0].callee[2] == sp.binder and not _inner_guards(ex, add[0], sp) and len(add[0].args) == 1 and _duration_ok(add[0].args[0], ep, ("a", ret, "data"))
        ctx.check(ok, "C32.duration", add[0].site if add else sp.site, "TaggedLatencyMeasurer.stop.duration", found="; ".join(f"{tstr(c.callee)}({', '.join(tstr(a) for a in c.args)})" for c in add),
                  required="exactly one sample per stop: histogram.add[k]((epoch - stored epoch) truncated to the epoch width)")


def check(ctx):
    ctx.use(REL)
    wide(ctx)
    fifo_wrapper(ctx)
    tagged(ctx)


MUTANTS = [
    ("epoch-gated", REL, "        epoch = Signal(epoch_width)\n\n        m.d.sync += epoch.eq(epoch + 1)\n\n        @def_methods(m, self.start)\n        def _(k: int, count: Value):", "        epoch = Signal(epoch_width)\n\n        with m.If(self.start[0].run):\n            m.d.sync += epoch.eq(epoch + 1)\n\n        @def_methods(m, self.start)\n        def _(k: int, count: Value):"),
    ("wide-lane-le", REL, "with m.If(i < ret.count):", "with m.If(i <= ret.count):"),
    ("wide-histogram-index", REL, "self.histogram.add[k * self.max_stop_count + i](m, duration)", "self.histogram.add[k + i](m, duration)"),
    ("wide-duration-not-truncated", REL, "                    duration = (epoch - ret.data[i]).as_unsigned()[:-1]", "                    duration = (epoch - ret.data[i]).as_unsigned()"),
    ("wide-duration-reversed", REL, "duration = (epoch - ret.data[i]).as_unsigned()[:-1]", "duration = (ret.data[i] - epoch).as_unsigned()[:-1]"),
    ("wide-stop-other-fifo", REL, "ret = self.fifos[k].read(m, count=count)", "ret = self.fifos[0].read(m, count=count)"),
    ("tagged-stop-wrong-port", REL, "ret = self.slots.read[k](m, addr=slot)", "ret = self.slots.read[0](m, addr=slot)"),
    ("tagged-start-stale-epoch", REL, "self.slots.write[k](m, addr=slot, data=epoch)", "self.slots.write[k](m, addr=slot, data=epoch + 1)"),
    ("tagged-sample-width", REL, "            sample_width=bits_for(self.max_latency),\n            ways=ways,\n        )\n\n        self.log", "            sample_width=bits_for(self.max_latency) - 1,\n            ways=ways,\n        )\n\n        self.log"),
    ("fifo-wrapper-count", REL, "self._impl.stop[k](m, count=1)", "self._impl.stop[k](m, count=0)"),
    ("wide-hist-ways", REL, "            ways=ways * max_stop_count,\n", "            ways=ways,\n"),
]
