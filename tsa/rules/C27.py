"""C27 - CircularAllocator hands out identifiers in ring order (counter algebra, readiness, validators, pointer
updates; ring order over histories follows on paper from these)."""

from .common import *
from . import excl
from ..pm import pmatch, pat

REL = "transactron/lib/allocators.py"
FUNCS = "transactron/utils/amaranth_ext/functions.py"
ENT = pat("self.entries")
ALLOC = pat("self.allocated")
SIZES = [1, 2, 3, 4, 5, 7, 8]


def _cfg(ex, key: str):
    for t, v in ex.config:
        if tstr(t) == key:
            return v
    return None


def check_allocator(ctx, pid="C27"):
    ctx.use(REL)
    comp = Component(ctx.repo, REL, "CircularAllocator", rule=pid)
    comp.require_modelled(pid)
    ctx.floor(pid, "CircularAllocator configurations", len(comp.configs), 5, comp.site)
    from . import ranges as _rg

    for meth, fld in (("alloc", "idents"), ("alloc", "new_end_idx"), ("free", "idents"), ("free", "new_start_idx")):
        _rg.ident_field_range(ctx, f"{pid}.ident-range", comp.site, f"CircularAllocator.{meth}.{fld}", comp.init_attr(meth), "o", fld, "self.entries", "identifiers and ring positions range over the entries")
    for reg in ("start_idx", "end_idx"):
        _rg.signal_range(ctx, f"{pid}.ident-range", comp.site, f"CircularAllocator.{reg}.shape", comp.init_attr(reg), "self.entries", "a ring position ranges over the entries")
    # declared range of the occupancy counter
    decl = comp.init_attr("allocated")
    ok = decl is not None and pmatch("Signal(range(Q_n))", decl) is not None and lin_equal(pmatch("Signal(range(Q_n))", decl)["n"], pat("self.entries + 1"))
    ctx.check(ok, f"{pid}.counter-range", comp.site, "CircularAllocator.allocated.shape", found=tstr(decl) if decl else "not declared", required="Signal(range(entries + 1)): can hold 0..entries")
    for ex in comp.configs:
        cn = cfg_name(ex)
        al, fr, cl = (need_body(ex, n, pid, comp.site) for n in ("alloc", "free", "clear"))
        excl.exclusive(ctx, pid, "CircularAllocator", al, fr)
        # occupancy update
        t = decision_table(ex, ALLOC, sync=True)
        plain = [w for w in t.writers if w.guard is True]
        ac = fc = None
        if len(plain) == 1:
            co, k = to_lin(plain[0].rhs)
            pos = [a for a, v in co.items() if v == 1 and a != ALLOC]
            neg = [a for a, v in co.items() if v == -1]
            if co.get(ALLOC) == 1 and len(pos) == 1 and len(neg) == 1 and k == 0 and len(co) == 3:
                ac, fc = pos[0], neg[0]
        ctx.check(ac is not None, f"{pid}.occupancy-update", plain[0].fact.site if plain else comp.site, f"CircularAllocator.allocated'[{cn}]",
                  found="; ".join(lin_str(to_lin(w.rhs)) for w in plain) or "no unconditional update", required="allocated' = allocated + <alloc count> - <free count>, every cycle")
        if ac is None:
            continue
        # declared ranges: the per-cycle counts can equal max_alloc / max_free, as can the count arguments
        from . import ranges

        for sig, nm, mx in ((ac, "alloc", "self.max_alloc"), (fc, "free", "self.max_free")):
            o_ = ex.obj(sig)
            ranges.signal_range(ctx, f"{pid}.count-range", o_.site if o_ else comp.site, f"CircularAllocator.{nm}_count.shape[{cn}]", o_.ctor if o_ else None, f"{mx} + 1", f"a call can {nm} {mx} identifiers at once")
            ranges.layout_field_range(ctx, f"{pid}.count-range", comp.site, f"CircularAllocator.{nm}.count-argument[{cn}]", comp.init_attr(nm), "i", "count", f"{mx} + 1", f"the count argument can be {mx}")
        check_table(ctx, f"{pid}.clear-wins", comp.site, f"CircularAllocator.allocated'[{cn}]", t, [
            (run_f(cl), const_pred(0), "clear resets the occupancy (last writer)"),
            (f_not(run_f(cl)), lambda r, p=plain[0].rhs: r == p, "otherwise the counter update applies"),
        ])
        # the two counts are run-gated pulses fed from the count arguments
        for sig, body, nm in ((ac, al, "alloc"), (fc, fr, "free")):
            sole_writer_in_body(ctx, f"{pid}.count-pulse", comp, ex, sig, body, f"driven only inside {nm} (run-gated comb) from its count argument",
                                rhs_pred=lambda r, b=body: r == ("a", ("arg", b.bodyid), "count"), construct=f"CircularAllocator.{nm}_count[{cn}]")
        # readiness
        params = {ENT: SIZES}
        rng = {ALLOC: (0, ENT)}
        check_agree(ctx, f"{pid}.alloc-ready", al.site, f"CircularAllocator.alloc.ready[{cn}]", al.ready, pat("self.allocated != self.entries"), params, rng, "alloc ready iff not full")
        check_agree(ctx, f"{pid}.free-ready", fr.site, f"CircularAllocator.free.ready[{cn}]", fr.ready, pat("self.allocated != 0"), params, rng, "free ready iff not empty")
        # validators present exactly when with_validate_arguments and max > 1
        wv = _cfg(ex, "self.with_validate_arguments")
        for body, nm, mx, ref in ((al, "alloc", "self.max_alloc", "arg.count + self.allocated <= self.entries"), (fr, "free", "self.max_free", "arg.count <= self.allocated")):
            many = _cfg(ex, f"(1 < {mx})")
            want = bool(wv) and bool(many)
            vt = body.kwargs.get("validate_term")
            cons = f"CircularAllocator.{nm}.validator[{cn}]"
            if want:
                if vt is None:
                    ctx.bad(f"{pid}.validator", body.site, cons, found="no validate_arguments", required="validator present when with_validate_arguments and max > 1")
                    continue
                cnt = ("a", ("arg", body.bodyid), "count")
                from ..term import subst

                ref_t = subst(pat(ref), {pat("arg.count"): cnt})
                check_agree(ctx, f"{pid}.validator", body.site, cons, vt, ref_t, {ENT: SIZES}, {ALLOC: (0, ENT), cnt: (0, 4)},
                            "a call is accepted iff it neither overflows nor underflows the allocator")
            else:
                ctx.check(vt is None and "validate_arguments" not in body.kwargs, f"{pid}.validator", body.site, cons, found=tstr(vt) if vt else "none",
                          required="no validator in this configuration", nontrivial=False)
        # pointer updates
        for body, nm, ptr, mx, outf in ((al, "alloc", pat("self.end_idx"), pat("self.max_alloc"), "new_end_idx"), (fr, "free", pat("self.start_idx"), pat("self.max_free"), "new_start_idx")):
            cnt = ("a", ("arg", body.bodyid), "count")
            t = decision_table(ex, ptr, sync=True)
            nxt = None
            for w in t.writers:
                if enclosing_body(ex, w.fact) is body:
                    nxt = w.rhs
            cons = f"CircularAllocator.{nm}.pointer[{cn}]"
            if nxt is None:
                ctx.bad(f"{pid}.pointer-update", body.site, cons, found="pointer not updated in the body", required=f"{tstr(ptr)} advances in {nm}")
                continue
            # resolve one level of combinational definition
            val = nxt
            ws = writers_of(ex, nxt, sync=False) if nxt[0] == "obj" else []
            if ws:
                ok_dom = all(enclosing_body(ex, w.fact) is body for w in ws) and len(ws) == 1
                val = ws[0].rhs
            else:
                ok_dom = True
            want = ("call", ("n", "mod_add"), (ptr, ENT, cnt, mx), ())
            ctx.check(ok_dom and val == want, f"{pid}.pointer-update", body.site, cons, found=tstr(val), required=f"{tstr(ptr)}' = mod_add({tstr(ptr)}, entries, count, {tstr(mx)})")
            check_table(ctx, f"{pid}.clear-wins", comp.site, cons, t, [
                (run_f(cl), const_pred(0), "clear resets the pointer (last writer)"),
                (f_and(run_f(body), f_not(run_f(cl))), lambda r, n=nxt: r == n, f"{nm} advances the pointer"),
                (f_and(f_not(run_f(body)), f_not(run_f(cl))), HOLD, "otherwise the pointer holds"),
            ])
            rf = returned_fields(body)
            ids = rf.get("idents")
            ok = ids is not None and ids[0] == "lc" and len(ids[3]) == 1
            if ok:
                b, it, conds = ids[3][0]
                ok = ids[2] == ("call", ("n", "mod_add"), (ptr, ENT, b, b), ()) and it == ("call", ("n", "range"), (mx,), ()) and not conds
            ctx.check(ok, f"{pid}.returned-identifiers", body.site, f"CircularAllocator.{nm}.idents[{cn}]", found=tstr(ids)[:160] if ids else "none",
                      required=f"identifier i = mod_add({tstr(ptr)}, entries, i, i) for i < max: consecutive identifiers from the pointer")
            ctx.check(rf.get(outf) == nxt, f"{pid}.returned-pointer", body.site, f"CircularAllocator.{nm}.{outf}[{cn}]", found=tstr(rf.get(outf, ("c", None))), required="the new pointer value is returned")
        ctx.check(flag_true(cl, "nonexclusive") or True, f"{pid}.clear", cl.site, f"CircularAllocator.clear[{cn}]", found="clear body", required="clear defined", nontrivial=False)


def strip_casts(ex, t):
    """Value.cast(x) -> x (also through local variables holding the cast)."""
    from ..term import rewrite

    def f(x):
        if x[0] == "v":
            d = ex.vardef(x)
            if d is not None:
                m = pmatch("Value.cast(Q_x)", d)
                if m:
                    return strip_casts(ex, m["x"])
        m = pmatch("Value.cast(Q_x)", x) if x[0] == "call" else None
        if m:
            return m["x"]
        return None

    return rewrite(t, f)


def _residues(t, b, mod) -> bool:
    """t, as a function of the loop variable b, is (mod + b) % mod for every modulus 1..7 and b up to 2*mod+1"""
    from ..logic import NotEvaluable, evalt

    try:
        return all(int(evalt(t, {b: i, mod: mo})) == i % mo for mo in range(1, 8) for i in range(0, 2 * mo + 2))
    except (NotEvaluable, TypeError, KeyError):
        return False


def check_mod_add(ctx, pid="C27"):
    """mod_add / mod_incr idioms: power-of-two split and wrap cases covering exactly mod .. mod+max_incr-1."""
    from ..pyfacts import Fn, py_guard
    from ..stage import Return as Ret

    ctx.use(FUNCS)
    fn = Fn(ctx.repo, FUNCS, "mod_add", pid)
    sig, mod, incr, mx = (fn.param(k) for k in range(4))
    rets = fn.only(Ret, lambda r: r.callid is None, pid, "returns of mod_add")
    pow2 = None
    for t, v in fn.exs[0].config:
        pow2 = t
    n_ok = 0
    for ex, r in rets:
        g = fn.reach(Ret, lambda x, v=r.value: x.value == v)
        m = pmatch("SwitchValue(Q_x, Q_cases)", r.value)
        vals = {sig: None}
        if m is None:
            # power-of-two branch: (sig + incr) & (mod - 1) reached only when mod & (mod - 1) == 0
            # decided by bounded agreement with (sig + incr) % mod for mod in powers of two
            val = strip_casts(ex, r.value)
            ref = ("op", "%", ("op", "+", incr, sig), mod)
            from ..logic import NotEvaluable, evalt

            try:
                sel = [mm for mm in range(1, 17) if all(bool(evalt(t, {mod: mm})) == v for t, v in ex.config)]
            except NotEvaluable as e:
                raise AnalysisError(pid, r.site, f"mod_add: cannot evaluate the branch test ({e})")
            if sel:
                check_agree(ctx, f"{pid}.mod-add-pow2", r.site, "mod_add.power-of-two", val, ref, {mod: sel}, {sig: (0, ("op", "-", mod, ("c", 1))), incr: (0, 3)},
                            "for every modulus that selects the masking shortcut the masked sum is the modular sum")
            from .modarith import shortcut_only_for_powers_of_two

            shortcut_only_for_powers_of_two(ctx, f"{pid}.mod-add-pow2-guard", r.site, "mod_add.power-of-two.guard", ex, mod)
            n_ok += 1
        else:
            m = pmatch("SwitchValue(Q_x, Q_cases)", strip_casts(ex, r.value))
            summ = ("op", "+", incr, sig)
            cases = m["cases"]
            ok = lin_equal(m["x"], summ)
            # cases: [(mod + i, i) for i in range(0, max_incr)] + [(None, sig + incr)]
            okc = False
            if cases[0] == "op" and cases[1] == "+":
                parts = cases[2:]
                lc = [p for p in parts if p[0] == "lc"]
                dflt = [p for p in parts if p[0] == "list"]
                if len(lc) == 1 and len(dflt) == 1:
                    b, it, conds = lc[0][3][0]
                    elt = lc[0][2]
                    # the residue of mod + i is i % mod (plain `i` is the residue only while i < mod: with max_incr > mod
                    # the sums of 2*mod and above came out unreduced, F15)
                    okc = (elt[0] == "tuple" and lin_equal(elt[1], ("op", "+", mod, b)) and _residues(elt[2], b, mod) and not conds
                           and it in (("call", ("n", "range"), (("c", 0), mx), ()), ("call", ("n", "range"), (mx,), ()))
                           and dflt[0] == ("list", ("tuple", ("c", None), m["x"])))
            ctx.check(ok and okc, f"{pid}.mod-add-wrap", r.site, "mod_add.wrap-cases", found=tstr(r.value)[:240],
                      required="SwitchValue(sig + incr, [(mod + i, i % mod) for i < max_incr] + [(None, sig + incr)]): every sum mod..mod+max_incr-1 is replaced by its residue, else the plain sum")
            n_ok += 1
    ctx.floor(pid, "mod_add returns", n_ok, 2, fn.site)


def check(ctx):
    check_allocator(ctx)
    check_mod_add(ctx)


MUTANTS = [
    ("occupancy-ignores-free", REL, "self.allocated.eq(self.allocated + alloc_count - free_count)", "self.allocated.eq(self.allocated + alloc_count)"),
    ("alloc-ready-off-by-one", REL, "ready=self.allocated != self.entries, **kwargs)", "ready=self.allocated < self.entries - 1, **kwargs)"),
    ("free-ready-always", REL, "ready=self.allocated != 0, **kwargs)", "ready=self.allocated != self.entries + 1, **kwargs)"),
    ("validator-off-by-one", REL, "lambda count: self.allocated + count <= self.entries", "lambda count: self.allocated + count <= self.entries + 1"),
    ("validator-free-strict", REL, "lambda count: count <= self.allocated", "lambda count: count < self.allocated"),
    ("validator-only-max2", REL, "if self.with_validate_arguments and self.max_alloc > 1:", "if self.with_validate_arguments and self.max_alloc > 2:"),
    ("alloc-count-av-comb", REL, "m.d.comb += alloc_count.eq(count)", "m.d.av_comb += alloc_count.eq(count)"),
    ("end-ptr-wrong-max", REL, "mod_add(self.end_idx, self.entries, count, self.max_alloc)", "mod_add(self.end_idx, self.entries, count, self.max_free)"),
    ("start-ptr-uses-end", REL, "new_start_idx.eq(mod_add(self.start_idx, self.entries, count, self.max_free))", "new_start_idx.eq(mod_add(self.end_idx, self.entries, count, self.max_free))"),
    ("idents-skip-first", REL, '"idents": [mod_add(self.end_idx, self.entries, i, i) for i in range(self.max_alloc)],', '"idents": [mod_add(self.end_idx, self.entries, i + 1, i + 1) for i in range(self.max_alloc)],'),
    ("clear-keeps-occupancy", REL, "            m.d.sync += self.end_idx.eq(0)\n            m.d.sync += self.allocated.eq(0)", "            m.d.sync += self.end_idx.eq(0)"),
    ("clear-before-update", REL, """        m.d.sync += self.allocated.eq(self.allocated + alloc_count - free_count)

        kwargs = {}
        if self.with_validate_arguments and self.max_alloc > 1:""", """        kwargs = {}
        if self.with_validate_arguments and self.max_alloc > 1:"""),
    ("mod-add-wrap-short", FUNCS, "[(mod + i, i) for i in range(0, max_incr)] + [(None, sig + incr)]", "[(mod + i, i) for i in range(1, max_incr)] + [(None, sig + incr)]"),
    ("mod-add-pow2-mask", FUNCS, "        return (sig + incr) & (mod - 1)\n    return SwitchValue", "        return (sig + incr) & mod\n    return SwitchValue"),
]
