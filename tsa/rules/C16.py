"""C16 - Stack behaves as a bounded LIFO (next-level table, readiness classes, addressing, transparency)."""

from .common import *
from . import excl
from ..pm import pmatch, pat
from .C20 import resolve_comb

REL = "transactron/lib/stack.py"
DEPTH = pat("self.depth")
LEVEL = pat("self.level")
SIZES = [1, 2, 3, 4, 5, 8]


def check(ctx):
    ctx.use(REL)
    comp = Component(ctx.repo, REL, "Stack", rule="C16")
    comp.require_modelled("C16")
    ex = one_config(comp, "C16")
    w, r, p, c = (need_body(ex, n, "C16", comp.site) for n in ("write", "read", "peek", "clear"))
    excl.exclusive(ctx, "C16", "Stack", w, r)
    decl = comp.init_attr("level")
    m = pmatch("Signal(range(Q_n))", decl) if decl else None
    ctx.check(m is not None and lin_equal(m["n"], pat("self.depth + 1")), "C16.counter-range", comp.site, "Stack.level.shape", found=tstr(decl) if decl else "none", required="Signal(range(depth + 1))")
    ws = writers_of(ex, LEVEL, sync=True)
    ok = len(ws) == 1 and ws[0].guard is True
    ctx.check(ok, "C16.state-update", ws[0].fact.site if ws else comp.site, "Stack.level'", found="; ".join(f"{tstr(x.rhs)} if {fstr(x.guard)}" for x in ws), required="level <- next_level every cycle")
    if not ok:
        return
    nxt = ws[0].rhs
    t = decision_table(ex, nxt, sync=False)
    W, R, Cl = run_f(w), run_f(r), run_f(c)
    check_table(ctx, "C16.next-level", comp.site, "Stack.next_level", t, [
        (Cl, const_pred(0), "clear empties the stack (last writer, wins over write)"),
        (f_and(f_not(Cl), R, f_not(W)), lin_pred(pat("self.level - 1")), "read alone pops one element"),
        (f_and(f_not(Cl), W, f_not(R)), lin_pred(pat("self.level + 1")), "write alone pushes one element"),
        (f_and(f_not(Cl), W, R), lin_pred(LEVEL), "read and write together: read then push, level unchanged"),
        (f_and(f_not(Cl), f_not(W), f_not(R)), lin_pred(LEVEL), "no call: level holds"),
    ])
    params = {DEPTH: SIZES}
    rng = {LEVEL: (0, DEPTH)}
    check_agree(ctx, "C16.read-ready", r.site, "Stack.read.ready", resolve_comb(ex, r.ready), pat("self.level != 0"), params, rng, "read ready iff non-empty")
    check_agree(ctx, "C16.peek-ready", p.site, "Stack.peek.ready", resolve_comb(ex, p.ready), pat("self.level != 0"), params, rng, "peek ready iff non-empty")
    check_agree(ctx, "C16.write-ready", w.site, "Stack.write.ready", resolve_comb(ex, w.ready), pat("self.level != self.depth"), params, rng, "write ready iff not full")
    # memory ports
    wr = rd = None
    for oid, o in ex.objects.items():
        if o.ctor[0] == "call" and o.ctor[1] == pat("self.data.write_port"):
            wr = ("obj", oid)
        if o.ctor[0] == "call" and o.ctor[1] == pat("self.data.read_port"):
            rd = ("obj", oid)
            kw = dict(o.ctor[3])
    if wr is None or rd is None:
        raise AnalysisError("C16", comp.site, "Stack: memory ports not found", missing="Stack: memory ports not found")
    tf = kw.get("transparent_for", ("list",))
    ctx.check(kw.get("domain", ("c", "sync")) == ("c", "sync") and tf[0] == "list" and wr in tf[1:], "C16.read-port-transparent", ex.obj(rd).site, "Stack.read_port", found=tstr(ex.obj(rd).ctor),
              required="synchronous read port transparent for the write port (a pushed element is the head next cycle)")
    ra = writers_of(ex, ("a", rd, "addr"))
    ok = len(ra) == 1 and ra[0].guard is True and lin_equal(ra[0].rhs, ("op", "-", nxt, ("c", 1)))
    ctx.check(ok, "C16.read-address", ra[0].fact.site if ra else comp.site, "Stack.read_port.addr", found="; ".join(tstr(x.rhs) for x in ra), required="the read port looks at next_level - 1: the top of the stack in the next cycle")
    wa = writers_of(ex, ("a", wr, "addr"))
    ok = len(wa) == 1 and (wa[0].rhs == ("a", rd, "addr") or (ra and wa[0].rhs == ra[0].rhs))
    ctx.check(ok, "C16.write-address", wa[0].fact.site if wa else comp.site, "Stack.write_port.addr", found="; ".join(tstr(x.rhs) for x in wa), required="the pushed element is written where the read port looks (new top)")
    wd = writers_of(ex, ("a", wr, "data"))
    ctx.check(len(wd) == 1 and wd[0].rhs == ("arg", w.bodyid), "C16.write-data", wd[0].fact.site if wd else comp.site, "Stack.write_port.data", found="; ".join(tstr(x.rhs) for x in wd), required="the written element is the argument")
    sole_writer_in_body(ctx, "C16.write-enable", comp, ex, ("a", wr, "en"), w, "memory write enable pulsed only while write runs", rhs_pred=const_pred(1), construct="Stack.write_port.en")
    # the read port follows the top of the stack in EVERY cycle (a pop changes next_level without any other method running): its
    # enable keeps its initial value 1 - no writer, combinational or registered - or is driven with the constant 1
    ens = writers_of(ex, ("a", rd, "en"), "any")
    ok_en = all(w.rhs in (("c", 1), ("c", True), ("call", ("n", "C"), (("c", 1),), ())) and w.guard is True for w in ens)
    ctx.check(ok_en, "C16.read-port-always-enabled", ens[0].fact.site if ens else comp.site, "Stack.read_port.en", found="; ".join(f"{tstr(w.fact.domain)} += en.eq({tstr(w.rhs)[:80]})" for w in ens) or "never assigned (initial value 1)",
              required="the read port is enabled in every cycle (the head must follow every change of the level, also a read with nothing else running)")
    hs = writers_of(ex, pat("self.head"))
    ctx.check(len(hs) == 1 and hs[0].guard is True and hs[0].rhs == ("a", rd, "data"), "C16.head", hs[0].fact.site if hs else comp.site, "Stack.head", found="; ".join(tstr(x.rhs) for x in hs), required="head is the read port's data")
    for b in (r, p):
        ctx.check(returned_fields(b).get("") == pat("self.head"), "C16.returns-head", b.site, f"Stack.{b.owner[2]}.ret", found=tstr(b.ret) if b.ret else "none", required="returns the head element")
    for b in (r, p, c):
        no_effects(ctx, "C16.no-hidden-effects", comp, ex, b)
    ctx.check(flag_true(p, "nonexclusive"), "C16.peek-nonexclusive", p.site, "Stack.peek.nonexclusive", found=str(sorted(p.kwargs)), required="nonexclusive", nontrivial=False)


MUTANTS = [
    ("read-write-pops", REL, "with m.If(self.read.run & ~self.write.run):", "with m.If(self.read.run):"),
    ("write-ignores-read", REL, "with m.If(self.write.run & ~self.read.run):", "with m.If(self.write.run):"),
    ("clear-before-write", REL, """        with m.If(self.write.run & ~self.read.run):
            m.d.comb += next_level.eq(self.level + 1)
        with m.If(self.clear.run):
            m.d.comb += next_level.eq(0)
""", """        with m.If(self.clear.run):
            m.d.comb += next_level.eq(0)
        with m.If(self.write.run & ~self.read.run):
            m.d.comb += next_level.eq(self.level + 1)
"""),
    ("write-ready-off-by-one", REL, "m.d.comb += write_ready.eq(self.level != self.depth)", "m.d.comb += write_ready.eq(self.level < self.depth - 1)"),
    ("read-ready-positive", REL, "m.d.comb += read_ready.eq(self.level != 0)", "m.d.comb += read_ready.eq(self.level > 1)"),
    ("read-addr-current-level", REL, "m.d.comb += data_rdport.addr.eq(next_level - 1)", "m.d.comb += data_rdport.addr.eq(self.level - 1)"),
    ("write-addr-level", REL, "m.d.top_comb += data_wrport.addr.eq(data_rdport.addr)", "m.d.top_comb += data_wrport.addr.eq(self.level)"),
    ("not-transparent", REL, 'data_rdport = self.data.read_port(domain="sync", transparent_for=[data_wrport])', 'data_rdport = self.data.read_port(domain="sync")'),
    ("peek-ready-always", REL, "@def_method(m, self.peek, read_ready, nonexclusive=True)", "@def_method(m, self.peek, nonexclusive=True)"),
    ("level-narrow", REL, "self.level = Signal(range(self.depth + 1))", "self.level = Signal(range(self.depth))"),
    ("wr-en-ungated", REL, "m.d.comb += data_wrport.en.eq(1)", "m.d.top_comb += data_wrport.en.eq(1)"),
]
