"""C15 - WideFifo: declared ranges of the row/column pointers, and the per-column index space.

  pointer layout     `idx_layout` holds a column in range(col_count) and a row in range(row_count)
  row successors     a signal that receives `mod_incr(x, n)` can hold 0..n-1: it is declared range(n)
  column space       the storage is col_count memories; every statement that is written once per column (write data,
                     enable pattern) runs over that many columns
  mirrors            a list of signals created as `Signal.like(x) for x in SRC` is driven element by element from SRC
"""

from __future__ import annotations

from ..logic import lin_equal
from ..pm import find_all, pat, pmatch
from ..stage import HwAssign, Store
from ..term import subterms, tstr

REL = "transactron/lib/fifo.py"


def pointer_layout(ctx, comp) -> int:
    lay = comp.init_attr("idx_layout")
    ok = False
    detail = tstr(lay)[:200] if lay is not None else "not declared"
    if lay is not None:
        m = pmatch("data.StructLayout(Q_d)", lay) or pmatch("StructLayout(Q_d)", lay)
        if m is not None and m["d"][0] == "dict":
            fields = {}
            items = m["d"][1] if len(m["d"]) == 2 and isinstance(m["d"][1], tuple) and (not m["d"][1] or isinstance(m["d"][1][0], tuple) and isinstance(m["d"][1][0][0], tuple)) else m["d"][1:]
            for kv in items:
                if len(kv) == 2 and kv[0][0] == "c":
                    fields[kv[0][1]] = kv[1]
                elif kv[0] == "tuple" and kv[1][0] == "c":
                    fields[kv[1][1]] = kv[2]
            rc = [pmatch("range(Q_n)", v) for v in fields.values()]
            bounds = sorted(tstr(r["n"]) for r in rc if r is not None)
            ok = len(fields) == 2 and bounds == sorted(["self.col_count", "self.row_count"])
            # which is which: the column field is the one compared / added with col_count in elaborate (checked by C15's pointer rules)
    ctx.check(ok, "C15.pointer-layout", comp.site, "WideFifo.idx_layout", found=detail, required="two fields, one range(self.col_count), one range(self.row_count)")
    return 1


def elaborate_ranges(ctx, comp, ex, cn) -> int:
    n = 0
    # row successors
    for h in ex.of(HwAssign):
        m = pmatch("mod_incr(Q_x, Q_n)", h.rhs) if h.rhs is not None else None
        if m is None or h.lhs is None or h.lhs[0] != "obj":
            continue
        o = ex.obj(h.lhs)
        r = pmatch("Signal(range(Q_k))", o.ctor) if o is not None else None
        bound = ex.vardef(m["n"]) or m["n"]
        n += 1
        ctx.check(r is not None and lin_equal(ex.vardef(r["k"]) or r["k"], bound), "C15.row-successor-range", o.site if o else h.site, f"WideFifo.{o.name if o else tstr(h.lhs)}[{cn}]",
                  found=tstr(o.ctor) if o else "not a signal", required=f"Signal(range({tstr(bound)})): the successor modulo {tstr(bound)} takes every value below it")
    # column space
    stor = [o for o in ex.objects.values() if o.ctor[0] == "lc" and ex.obj(o.ctor[2]) is not None and ex.obj(o.ctor[2]).ctor[0] == "call" and tstr(ex.obj(o.ctor[2]).ctor[1]).endswith("Memory")]
    if len(stor) == 1:
        space = stor[0].ctor[3][0][1]
        cols = pmatch("range(Q_c)", space)
        if cols is not None:
            c = cols["c"]
            for h in ex.of(HwAssign):
                # per-column statements: under a loop over range(..) indexing a per-column list, or a Cat comprehension over range
                its = []
                for fr in h.frames:
                    if fr[0] == "for" and pmatch("range(Q_k)", fr[2]) is not None:
                        b = fr[1][0]
                        if h.lhs is not None and any(s == b for s in subterms(h.lhs)) and any(s[0] == "obj" and _per_column(ex, s, stor[0]) for s in subterms(h.lhs) if isinstance(s, tuple) and s):
                            its.append(pmatch("range(Q_k)", fr[2])["k"])
                if h.rhs is not None and h.lhs is not None:
                    for mc in find_all("Cat(Q_g)", h.rhs):
                        g = mc["g"]
                        if g[0] == "lc" and len(g[3]) == 1 and pmatch("range(Q_k)", g[3][0][1]) is not None and _drives_columns(ex, h, stor[0]):
                            its.append(pmatch("range(Q_k)", g[3][0][1])["k"])
                for k in its:
                    n += 1
                    ctx.check(lin_equal(k, c), "C15.column-space", h.site, f"WideFifo.per-column[{cn}]@{h.site.split(':')[-1]}", found=f"over range({tstr(k)}); the storage has {tstr(c)} columns",
                              required="a per-column statement covers every column of the storage")
    # mirrors
    for o in ex.objects.values():
        c = o.ctor
        if c[0] != "lc" or len(c[3]) != 1 or ex.obj(c[2]) is None:
            continue
        ec = ex.obj(c[2]).ctor
        m = pmatch("Signal.like(Q_x)", ec)
        if m is None or m["x"] != c[3][0][0]:
            continue
        src = c[3][0][1]
        lst = None
        for oid, oo in ex.objects.items():
            if oo is o:
                lst = ("obj", oid)
        drv = [h for h in ex.of(HwAssign) if h.lhs is not None and h.lhs[0] == "i" and h.lhs[1] == lst]
        n += 1
        ok = len(drv) == 1 and drv[0].rhs == ("i", src, drv[0].lhs[2]) and any(fr[0] == "for" for fr in drv[0].frames)
        ctx.check(ok, "C15.mirror-driven", drv[0].site if drv else o.site, f"WideFifo.{o.name}[{cn}]", found="; ".join(f"{tstr(h.lhs)} <- {tstr(h.rhs)[:100]}" for h in drv) or "not driven",
                  required="element i of the mirror is driven by element i of the list it mirrors")
    return n


def _per_column(ex, s, stor) -> bool:
    """s is a list object created by iterating the storage list (ports per column) or the storage itself."""
    o = ex.obj(s)
    if o is None:
        return False
    if o is stor:
        return True
    c = o.ctor
    if c[0] == "lc" and len(c[3]) == 1:
        it = c[3][0][1]
        for x in subterms(it):
            if isinstance(x, tuple) and x and x[0] == "obj" and (ex.obj(x) is stor or (ex.obj(x) is not None and ex.obj(x) is not o and _per_column(ex, x, stor))):
                return True
    return False


def _drives_columns(ex, h, stor) -> bool:
    """the value ends up in a Cat over a per-column list (directly, or through a local signal assigned to one)"""
    def per_col_cat(t):
        for mc in find_all("Cat(Q_g)", t):
            g = mc["g"]
            if g[0] == "lc" and len(g[3]) == 1 and any(isinstance(x, tuple) and x and x[0] == "obj" and _per_column(ex, x, stor) for x in subterms(g[3][0][1])):
                return True
        return False

    if per_col_cat(h.lhs):
        return True
    if h.lhs[0] == "obj":
        for h2 in ex.of(HwAssign):
            if h2.rhs is not None and h2.lhs is not None and any(x == h.lhs for x in subterms(h2.rhs)) and per_col_cat(h2.lhs):
                return True
    return False
