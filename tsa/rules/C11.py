"""C11 - ill-formed designs are rejected, well-formed ones accepted."""

from . import core, core2, core3


def check(ctx):
    core3.tmodule_control_table(ctx, "C11", True, True)
    core3.tmodule_domains(ctx, "C11")
    core3.top_module_helper(ctx, "C11")
    core3.ctrl_path_builder(ctx, "C11")
    core3.exclusive_with(ctx, "C11")
    core3.call_paths_exclusive(ctx, "C11")
    core3.mm_validate_call_tree(ctx, "C11")
    core3.mgr_rejections(ctx, "C11")
    core3.cg_self_pair(ctx, "C11")


MUTANTS = []
