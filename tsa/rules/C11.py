"""C11 - ill-formed designs are rejected, well-formed ones accepted.

Every rejection is reached under a guard *equivalent* to the stated predicate: equivalence covers both the
rejection of the bad designs and the acceptance of the good ones (exclusive alternatives, nonexclusive repeats).
"""

from . import core, core2, core3

M = core.MANAGER


def check(ctx):
    from . import core8

    core8.body_flag_defaults(ctx, "C11")
    core3.mm_validate_call_tree(ctx, "C11")
    core3.call_paths_exclusive(ctx, "C11")
    core3.exclusive_with(ctx, "C11")
    core3.ctrl_path_builder(ctx, "C11")
    core3.tmodule_control_table(ctx, "C11", want_enter=True, want_mirror=False)
    core3.mgr_rejections(ctx, "C11")
    core.cg_priority_edges(ctx, "C11")
    core.cg_relation_lifting(ctx, "C11")
    core.cg_priority_passthrough(ctx, "C11")
    core2.mgr_ready_dependencies(ctx, "C11")
    from . import core7

    core7.nonexclusive_callers_mergeable(ctx, "C11")


MUTANTS = [
    ("double-call-only-called-method-nonexclusive", M, "ancestor.nonexclusive for ancestor in new_ancestors if ancestor in old_ancestors", "ancestor.nonexclusive for ancestor in new_ancestors[:1] if ancestor in old_ancestors"),
    ("double-call-nonexclusive-in-one-chain", M, "ancestor.nonexclusive for ancestor in new_ancestors if ancestor in old_ancestors", "ancestor.nonexclusive for ancestor in new_ancestors"),
    ("nonexclusive-callers-independent", M, "table = weak_independents if k1 == 0 and k2 == 0 and elem.nonexclusive else independents", "table = independents"),
    ("nonexclusive-callers-glued", M, "                    or (tr1 in weak_independents[tr2] and frozenset({tr1, tr2}) not in simultaneous)\n", ""),
    ("weak-independence-even-when-required", M, "(tr1 in weak_independents[tr2] and frozenset({tr1, tr2}) not in simultaneous)", "(tr1 in weak_independents[tr2])"),
    ("exemption-for-every-group-pair", M, "weak_independents if k1 == 0 and k2 == 0 and elem.nonexclusive else", "weak_independents if elem.nonexclusive else"),
    ("double-call-only-direct", M, "                        for old_ancestors, old_call_path in call_sights[method]:\n", "                        for old_ancestors, old_call_path in call_sights[method][:1]:\n"),
    ("double-call-rejects-nonexclusive", M, "if not through_nonexclusive and not call_paths_exclusive(old_call_path, new_call_path):", "if not call_paths_exclusive(old_call_path, new_call_path):"),
    ("double-call-rejects-alternatives", M, "if not through_nonexclusive and not call_paths_exclusive(old_call_path, new_call_path):", "if not through_nonexclusive:"),
    ("recursion-check-after-descent", M, "                        if method in ancestors:\n                            report_cycle(method, new_ancestors)\n", "                        if method in ancestors and len(ancestors) > 8:\n                            report_cycle(method, new_ancestors)\n"),
    ("report-cycle-silent", M, "            msg += f\"\\n{path_str(ancestors[ancestors.index(method) :])}\"\n            raise RuntimeError(msg)", "            msg += f\"\\n{path_str(ancestors[ancestors.index(method) :])}\"\n            print(msg)"),
    ("validate-only-transactions", M, "        for obj in chain(methods, transactions):\n            validate_root_call_tree(obj._body)", "        for obj in transactions:\n            validate_root_call_tree(obj._body)"),
    ("single-caller-never", M, "if method.single_caller and len(method_args[method]) > 1:", "if method.single_caller and len(method_args[method]) > 2:"),
    ("single-caller-always", M, "if method.single_caller and len(method_args[method]) > 1:", "if len(method_args[method]) > 1:"),
    ("deadlock-check-wrong-graph", M, "                if dep in cgr[transaction]:\n                    raise RuntimeError(", "                if dep in cgr[dep]:\n                    raise RuntimeError("),
    ("else-pushes", core.TMODULE, "            with self.avoiding_module.Else():\n                with self.path_builder.enter(EnterType.ADD):", "            with self.avoiding_module.Else():\n                with self.path_builder.enter(EnterType.PUSH):"),
    ("pop-only-push", core.TMODULE, "if enter_type in [et.PUSH, et.ADD]:", "if enter_type in [et.PUSH]:"),
    ("prio-graph-not-sorted", M, "networkx.lexicographical_topological_sort(networkx.DiGraph(pgr).reverse(), key=lambda t: len(cgr[t]))", "sorted(pgr, key=lambda t: len(cgr[t]))"),
]
