"""C23 - port objects, submodule bookkeeping, live-value-table decoding and the one-hot coding tables.

  ports           a user port registers itself with its memory; a read port's enable defaults to 1 (as Amaranth's), address
                  and data signals have the memory's depth / shape; the port factories hand the options through
  submodule loops what is looked up by name in m.submodules is looked up over the same index space it was stored with
  decoding        the bank is selected by the live-value table's output: through an Encoder iff the table is one-hot coded
  coding          OneHotCodedILVT: bank b is live iff, for every other bank a, the bit pair the two banks share satisfies
                  the winner condition of b; a write by port k sets exactly the bits that make k the winner of every pair.
                  Read off the write expression (bit_selection) and the read expression (exclusive_bits / one_hot) as
                  tables for 2..4 write ports: the tables must agree, and for every pair exactly one side can win.
"""

from __future__ import annotations

import itertools

from ..front import AnalysisError
from ..logic import NotEvaluable, eval_seq, evalt
from ..pm import find_all, pmatch
from ..pyfacts import Fn, loops, py_guard
from ..stage import Effect, HwAssign, Return, Store, Submodule
from ..term import subst, subterms, tstr

REL = "transactron/utils/amaranth_ext/memory.py"


# ---- ports ------------------------------------------------------------------------------------------------------------

def ports(ctx) -> int:
    n = 0
    for cls, lst in (("ReadPort", "read_ports"), ("WritePort", "write_ports")):
        fn = Fn(ctx.repo, REL, f"{cls}.__init__", "C23")
        mem = fn.param(1)
        regs = [(ex, e) for ex, e in fn.facts(Effect) if pmatch("Q_m.Q_l.append(self)", e.call) is not None or e.call == ("call", ("a", ("a", mem, lst), "append"), (("self",),), ())]
        ok = any(e.call == ("call", ("a", ("a", mem, lst), "append"), (("self",),), ()) and not loops(e) for _, e in regs)
        # reached on every path that does not raise
        reach_ok = all(any(e.call == ("call", ("a", ("a", mem, lst), "append"), (("self",),), ()) for e in ex.of(Effect)) or any(type(f).__name__ == "Raise" for f in ex.facts) for ex in fn.exs)
        n += 1
        ctx.check(ok and reach_ok, "C23.port-registered", fn.site, f"{cls}.__init__", found="; ".join(tstr(e.call) for _, e in regs) or "the port is not added to its memory",
                  required=f"a {cls} appends itself to memory.{lst} (the memory wires exactly the ports in that list)")
        for ex in fn.exs[:1]:
            for attr, want in (("addr", ("call", ("n", "range"), (("a", mem, "depth"),), ())), ("data", ("a", mem, "shape"))):
                st = [s for s in ex.of(Store) if s.target == ("a", ("self",), attr)]
                o = ex.obj(st[0].value) if st else None
                arg = o.ctor[2][0] if o is not None and o.ctor[0] == "call" and o.ctor[2] else None
                argd = ex.vardef(arg) if arg is not None and ex.vardef(arg) is not None else arg
                n += 1
                ctx.check(argd == want, "C23.port-shapes", st[0].site if st else fn.site, f"{cls}.{attr}", found=tstr(o.ctor) if o is not None else "not a signal",
                          required=f"Signal({tstr(want)})")
        if cls == "ReadPort":
            ex = fn.exs[0]
            st = [s for s in ex.of(Store) if s.target == ("a", ("self",), "en")]
            o = ex.obj(st[0].value) if st else None
            init = dict(o.ctor[3]).get("init") if o is not None and o.ctor[0] == "call" else None
            n += 1
            ctx.check(init == ("c", 1) and o is not None and not o.ctor[2], "C23.read-enable-default", st[0].site if st else fn.site, "ReadPort.en", found=tstr(o.ctor) if o is not None else "none",
                      required="a one-bit read enable that is 1 unless driven (Amaranth's read ports are enabled by default)")
            st = [s for s in ex.of(Store) if s.target == ("a", ("self",), "transparent_for")]
            n += 1
            ctx.check(bool(st) and st[0].value == fn.param(2), "C23.port-options", st[0].site if st else fn.site, "ReadPort.transparent_for", found=tstr(st[0].value) if st else "not stored", required="the requested transparency set is kept")
        else:
            for ex in fn.exs:
                st = [s for s in ex.of(Store) if s.target == ("a", ("self",), "granularity")]
                if any(type(f).__name__ == "Raise" for f in ex.facts):
                    continue
                n += 1
                ctx.check(bool(st) and st[0].value == fn.param(2), "C23.port-options", st[0].site if st else fn.site, "WritePort.granularity", found=tstr(st[0].value) if st else "not stored", required="the requested granularity is kept")
    # factories
    for meth, cls, opt in (("read_port", "ReadPort", "transparent_for"), ("write_port", "WritePort", "granularity")):
        fn = Fn(ctx.repo, REL, f"BaseMultiportMemory.{meth}", "C23")
        rets = [(ex, r) for ex, r in fn.facts(Return) if r.callid is None]
        ok = False
        for ex, r in rets:
            v = ex.obj(r.value).ctor if ex.obj(r.value) is not None else r.value
            if v[0] == "call" and v[1] == ("n", cls):
                kw = dict(v[3])
                pnames = [a.arg for a in fn.fi.node.args.kwonlyargs]
                ok = kw.get("memory") == ("self",) and kw.get(opt) is not None and kw.get(opt)[0] == "p" and kw.get(opt)[-1] == opt and opt in pnames
        n += 1
        ctx.check(ok, "C23.port-options", fn.site, f"BaseMultiportMemory.{meth}", found="; ".join(tstr(ex.obj(r.value).ctor if ex.obj(r.value) is not None else r.value)[:160] for ex, r in rets) or "no port returned",
                  required=f"{cls}(memory=self, {opt}={opt}, ...)")
    # granule units: Amaranth counts `granularity` in array elements for an ArrayLayout row shape and in bits otherwise.
    # A write port whose enable is sized as width // granularity on the CAST shape counts bits for every shape.
    base = Fn(ctx.repo, REL, "BaseMultiportMemory.__init__", "C23")
    cast = any(pmatch("Shape.cast(Q_s)", s.value) is not None for ex in base.exs for s in ex.of(Store) if s.target == ("a", ("self",), "shape"))
    wp = Fn(ctx.repo, REL, "WritePort.__init__", "C23")
    sized_in_bits = False
    site = wp.site
    for ex in wp.exs:
        for s in ex.of(Store):
            if s.target == ("a", ("self",), "en") and ex.obj(s.value) is not None:
                c = ex.obj(s.value).ctor
                if c[0] == "call" and c[2] and pmatch("Q_m.shape.width // Q_g", c[2][0]) is not None:
                    sized_in_bits = True
                    site = s.site
    # the initial contents are handed to several inner memories: they are materialised once (F10)
    inits = [s for ex in base.exs for s in ex.of(Store) if s.target == ("a", ("self",), "init")]
    pinit = [a for a in base.fi.node.args.kwonlyargs + base.fi.node.args.args if a.arg == "init"]
    n += 1
    okm = bool(inits) and all(s.value[0] == "call" and s.value[1] in (("n", "list"), ("n", "tuple")) and len(s.value[2]) == 1 and s.value[2][0][0] == "p" and s.value[2][0][-1] == "init" for s in inits)
    ctx.check(okm, "C23.init-materialised", inits[0].site if inits else base.site, "BaseMultiportMemory.init", found="; ".join(tstr(s.value) for s in inits) or "not stored",
              required="list(init): every replica / bank 0 / every mirror of bank 0 is built from the same contents, an iterator would be used up by the first")
    # storage exists per write port: a memory without write ports (a ROM) must still hold its initial contents (F11)
    for qual in ("MultiportXORMemory.elaborate", "MultiportILVTMemory.elaborate"):
        fe = Fn(ctx.repo, REL, qual, "C23")
        guard = [(ex, e) for ex, e in fe.facts(Effect) if e.call == ("call", ("a", ("self",), "write_port"), (), ())]
        okg = False
        for ex, e in guard:
            g = py_guard(e)
            from ..logic import atoms_of as _ao, equivalent as _eq, f_not as _fn

            ats = _ao(g)
            okg = okg or (len(ats) == 1 and ats[0] == ("a", ("self",), "write_ports") and _eq(g, _fn(("atom", ats[0]))) is None and not loops(e))
        # the call may also be recorded as the creation of an (unnamed) port object: then it exists exactly in the
        # configurations decided by `self.write_ports` being empty
        made = {}
        for ex in fe.exs:
            dec = [v for t, v in ex.config if t == ("a", ("self",), "write_ports")]
            has_port = any(o.ctor == ("call", ("a", ("self",), "write_port"), (), ()) for o in ex.objects.values())
            if dec:
                made.setdefault(dec[0], set()).add(has_port)
        okg = okg or (made.get(False) == {True} and made.get(True, {False}) == {False})
        n += 1
        ctx.check(okg, "C23.rom-has-storage", fe.site, qual, found="; ".join(tstr(e.call) for _, e in guard) or "banks are created only inside the loop over the write ports; nothing ensures there is one",
                  required="`if not self.write_ports: self.write_port()` before the banks are built: bank 0, which holds init, exists even when no write port was requested")
    n += 1
    ctx.check(not (cast and sized_in_bits), "C23.granularity-units", site, "WritePort.en", found="row shape stored as Shape.cast(shape); enable sized as shape.width // granularity (bit groups)" if cast and sized_in_bits else "enable sized from the uncast shape",
              required="one enable bit per granule as amaranth.lib.memory counts them: `granularity` ELEMENTS of an ArrayLayout row, bits of a plain row")
    # overrides of the factories in the concrete memories hand every option on to the base factory
    mi = ctx.repo.module(REL)
    quals = [f"{cn_}.{mn_}" for cn_, ci_ in sorted(mi.classes.items()) for mn_ in sorted(ci_.methods) if mn_ in ("read_port", "write_port") and cn_ != "BaseMultiportMemory"]
    for qual in quals:
        meth = qual.split(".")[-1]
        fn = Fn(ctx.repo, REL, qual, "C23")
        opts = [a.arg for a in fn.fi.node.args.kwonlyargs if a.arg not in ("src_loc_at",)]
        rets = [(ex, r) for ex, r in fn.facts(Return) if r.callid is None]
        for ex, r in rets:
            v = ex.obj(r.value).ctor if ex.obj(r.value) is not None else r.value
            if not (v[0] == "call" and v[1] == ("a", ("call", ("n", "super"), (), ()), meth)):
                continue
            kw = dict(v[3])
            missing = [o for o in opts if not (kw.get(o) is not None and kw[o][0] == "p" and kw[o][-1] == o)]
            n += 1
            ctx.check(not missing, "C23.port-options", r.site, f"{qual}", found=tstr(v)[:200], required=f"super().{meth}(...) receives every option of the request by name ({', '.join(opts)})")
    return n


# ---- submodule loops ------------------------------------------------------------------------------------------------

def _skeleton(t):
    if t[0] == "fstr":
        return tuple(p[1] if isinstance(p, tuple) and p and p[0] == "c" else None for p in t[1:])
    return None


def _fstr_holes(t):
    return [p for p in t[1:] if not (isinstance(p, tuple) and p and p[0] == "c")]


def submodule_loops(ctx, ex, cls, cn) -> int:
    n = 0
    stored = {}
    for s in ex.of(Submodule):
        if isinstance(s.name, tuple) and s.name[0] == "fstr":
            stored[_skeleton(s.name)] = s
    for h in ex.of(HwAssign):
        if h.lhs is None:
            continue
        for m in find_all("Q_m.submodules[Q_n]", h.lhs):
            nm = m["n"]
            if nm[0] != "fstr" or _skeleton(nm) not in stored:
                continue
            s = stored[_skeleton(nm)]
            # binder -> iterator for both sites, position by position
            ok = True
            det = []
            for hs, hh in zip(_fstr_holes(s.name), _fstr_holes(nm)):
                its = [fr[2] for fr in s.frames if fr[0] == "for" and any(b == hs or (hs[0] == "i" and hs[1] == b) for b in fr[1])]
                ith = [fr[2] for fr in h.frames if fr[0] == "for" and any(b == hh or (hh[0] == "i" and hh[1] == b) for b in fr[1])]
                norm = lambda it: it[2][0] if it[0] == "call" and it[1] == ("n", "enumerate") else it  # noqa: E731
                a = norm(its[0]) if its else None
                b = norm(ith[0]) if ith else None
                # enumerate(list) and range(len(list)) cover the same indices
                def space(x):
                    if x is None:
                        return None
                    mm = pmatch("range(len(Q_l))", x)
                    return ("idx", mm["l"]) if mm else (("idx", x) if x[0] != "call" else ("it", x))
                det.append(f"{tstr(a) if a else '?'} / {tstr(b) if b else '?'}")
                if space(a) != space(b):
                    ok = False
            n += 1
            ctx.check(ok, "C23.submodule-index-space", h.site, f"{cls}.{tstr(nm)}[{cn}]", found="stored over " + ", ".join(d.split(' / ')[0] for d in det) + "; driven over " + ", ".join(d.split(' / ')[1] for d in det),
                      required="a port of a named submodule is driven for every index the submodule was created for")
    return n


# ---- ILVT decoding ----------------------------------------------------------------------------------------------------

def ilvt_decoding(ctx, ex, cls, cn) -> int:
    ilvt = [o for o in ex.objects.values() if o.ctor[0] == "call" and o.ctor[1] == ("a", ("self",), "memory_type")]
    if not ilvt:
        return 0
    # the extractor decides `memory_type == A` and `memory_type == B` independently: both true is not a configuration
    same = {}
    for t, v in ex.config:
        if v and t[0] == "op" and t[1] == "==" and len(t) == 4:
            for x, y in ((t[2], t[3]), (t[3], t[2])):
                if x == ("a", ("self",), "memory_type"):
                    same.setdefault(x, set()).add(y)
    if any(len(v) > 1 for v in same.values()):
        return 0
    shape = dict(ilvt[0].ctor[3]).get("shape")
    shape = ex.vardef(shape) if shape is not None and ex.vardef(shape) is not None else shape
    one_hot = shape is not None and pmatch("len(self.write_ports)", shape) is not None
    binary = shape is not None and pmatch("bits_for(len(self.write_ports) - 1)", shape) is not None
    sel = None
    site = ilvt[0].site
    for h in ex.of(HwAssign):
        for fr in h.frames:
            if fr[0] == "switch":
                sel, site = fr[1], h.site
    if sel is None:
        return 0
    via_encoder = False
    direct = False
    if sel[0] == "a" and sel[2] == "o" and ex.obj(sel[1]) is not None and ex.obj(sel[1]).ctor[0] == "call" and ex.obj(sel[1]).ctor[1] == ("n", "Encoder"):
        enc = sel[1]
        feeds = [h for h in ex.of(HwAssign) if h.lhs == ("a", enc, "i")]
        w = dict(ex.obj(enc).ctor[3]).get("width")
        via_encoder = len(feeds) == 1 and feeds[0].rhs[0] == "a" and feeds[0].rhs[2] == "data" and w is not None and pmatch("len(self.write_ports)", w) is not None
    elif sel[0] == "a" and sel[2] == "data":
        direct = True
    ok = (one_hot and via_encoder) or (binary and direct)
    if binary:
        # a binary table stores the number of the bank that was written last: write port k stores k, bank k is bank_{k}
        ilvt_obj = None
        for oid, o in ex.objects.items():
            if o is ilvt[0]:
                ilvt_obj = ("obj", oid)
        wr = [h for h in ex.of(HwAssign) if h.lhs is not None and h.lhs[0] == "a" and h.lhs[2] == "data" and h.lhs[1][0] == "i" and ex.obj(h.lhs[1][1]) is not None
              and ex.obj(h.lhs[1][1]).ctor[0] == "lc" and ex.obj(ex.obj(h.lhs[1][1]).ctor[2]) is not None and ex.obj(ex.obj(h.lhs[1][1]).ctor[2]).ctor[1] == ("a", ilvt_obj, "write_port")]
        banks = [s for s in ex.of(Submodule) if isinstance(s.name, tuple) and s.name[0] == "fstr" and ex.obj(s.value) is not None and ex.obj(s.value).ctor[0] == "call" and ex.obj(s.value).ctor[1] == ("n", "MultiReadMemory")]
        okb = len(wr) == 1 and wr[0].rhs == wr[0].lhs[1][2] and len(banks) == 1 and _fstr_holes(banks[0].name) == [wr[0].rhs]
        ctx.check(okb, "C23.ilvt-bank-number", wr[0].site if wr else site, f"{cls}.table-entry[{cn}]", found="; ".join(f"{tstr(h.lhs)} <- {tstr(h.rhs)}" for h in wr) + (f"; bank named {tstr(banks[0].name)}" if banks else ""),
                  required="write port k records k in the table, and the data of write port k goes to the bank registered as bank_{k} (the Switch selects banks by that number)")
    ctx.check(ok, "C23.ilvt-decoding", site, f"{cls}.bank-select[{cn}]", found=f"table entries {tstr(shape) if shape else '?'}; bank selected by {tstr(sel)[:80]}" + (" fed by the table" if via_encoder else ""),
              required="a one-hot coded table (one bit per write port) is decoded by an Encoder of that width, a binary table selects the bank directly")
    return 1


# ---- one-hot coding tables -------------------------------------------------------------------------------------------

class _Sym(Exception):
    pass


def _bit_ref(ex, t, env):
    """('bank', a, port-index, bit) with polarity for a term ~?X.read_ports[p].data[b] / ~?arr[r][a][b] - indices evaluated."""
    pol = True
    while t[0] == "op" and t[1] == "~":
        pol = not pol
        t = t[2]
    if t[0] == "ife":
        c = evalt(t[1], env)
        return _bit_ref_pol(ex, t[2] if c else t[3], env, pol)
    return _bit_ref_pol(ex, t, env, pol)


def _bit_ref_pol(ex, t, env, pol):
    while t[0] == "op" and t[1] == "~":
        pol = not pol
        t = t[2]
    if t[0] == "ife":
        c = evalt(t[1], env)
        return _bit_ref_pol(ex, t[2] if c else t[3], env, pol)
    if t[0] != "i":
        raise _Sym(tstr(t)[:80])
    bit = evalt(t[2], env)
    base = t[1]
    m = pmatch("Q_m.submodules[Q_n].read_ports[Q_p].data", base)
    if m is not None and m["n"][0] == "fstr":
        holes = [p for p in m["n"][1:] if not (isinstance(p, tuple) and p and p[0] == "c")]
        if len(holes) != 1:
            raise _Sym(tstr(base)[:80])
        return ("bank", evalt(holes[0], env), evalt(m["p"], env), bit, pol)
    # bypassed_data[r][a]
    if base[0] == "i" and base[1][0] == "i" and base[1][1][0] == "obj":
        return ("bank", evalt(base[2], env), ("r", evalt(base[1][2], env)), bit, pol)
    raise _Sym(tstr(base)[:80])


def _lc_items(t, env):
    """Evaluate a one-generator list comprehension over a range: [(index value, element term, env)]."""
    if t[0] != "lc" or len(t[3]) != 1:
        raise _Sym("not a comprehension: " + tstr(t)[:60])
    b, it, conds = t[3][0]
    vals = eval_seq(it, env)
    out = []
    for v in vals:
        e2 = dict(env)
        e2[b] = v
        if all(evalt(c, e2) for c in conds):
            out.append((v, t[2], e2))
    return out


def coding_tables(ctx, ex, cls, cn) -> int:
    """OneHotCodedILVT only."""
    if cls != "OneHotCodedILVT":
        return 0
    wr = [h for h in ex.of(HwAssign) if h.rhs is not None and pmatch("Cat(*Q_l)", h.rhs) is not None and h.lhs is not None and h.lhs[0] == "i" and not any(pmatch("self.read_ports[Q_i]", x) for x in subterms(h.lhs))]
    rd = [h for h in ex.of(HwAssign) if h.lhs is not None and h.lhs[0] == "a" and h.lhs[2] == "data" and h.rhs is not None and pmatch("Cat(*Q_l)", h.rhs) is not None and (pmatch("self.read_ports[Q_i].data", h.lhs) is not None or h.lhs[1][0] == "b")]
    if not wr and not rd:
        return 0
    if len(wr) != 1 or len(rd) != 1:
        raise AnalysisError("C23.one-hot-coding", ex.func.site, f"expected one coded write expression and one decoded read expression, found {len(wr)} / {len(rd)}",
                            missing="OneHotCodedILVT: " + ("the bank vector written by a port (Cat of feedback bits)" if len(wr) != 1 else "the decoded read data (Cat of the live tests)"))
    w, r = wr[0], rd[0]
    n = 0
    W = ("call", ("n", "len"), (("a", ("self",), "write_ports"),), ())
    R = ("call", ("n", "len"), (("a", ("self",), "read_ports"),), ())
    for nw, nr in ((2, 1), (3, 1), (3, 2), (4, 1)):
        base_env = {W: nw, R: nr}
        try:
            # write table: writer k, position i -> (source bank, bit, polarity); the source read port is the feedback port
            wloop = [fr for fr in w.frames if fr[0] == "for"]
            if len(wloop) != 1:
                raise _Sym("write expression not under one loop")
            kb = wloop[0][1][0]
            wt = {}
            for k in eval_seq(wloop[0][2], base_env):
                env = dict(base_env)
                env[kb] = k
                for i, elt, e2 in _lc_items(pmatch("Cat(*Q_l)", w.rhs)["l"], env):
                    wt[(k, i)] = _bit_ref(ex, elt, e2)
            # read table: reader port r, candidate bank idx, position i
            rloop = [fr for fr in r.frames if fr[0] == "for"]
            rb = rloop[0][1][0]
            rt = {}
            for rp in eval_seq(rloop[0][2], base_env) if rloop[0][2][0] == "call" and rloop[0][2][1] == ("n", "range") else range(nr):
                env = dict(base_env)
                env[rb] = rp
                env[("i", rb, ("c", 0))] = rp
                for idx, elt, e2 in _lc_items(pmatch("Cat(*Q_l)", r.rhs)["l"], env):
                    # elt: Cat(*bits[idx]) == data[rp][idx]  (either side order)
                    if elt[0] == "op" and elt[1] == "!=" and len(elt) == 4:
                        ctx.bad("C23.one-hot-coding.live-test", r.site, f"{cls}.coding[{cn}]", found=tstr(elt)[:160], required="bank idx is live iff its vector EQUALS the vector expected from the other banks")
                        return n + 1
                    if not (elt[0] == "op" and elt[1] == "==" and len(elt) == 4):
                        raise _Sym("live test is not an equality: " + tstr(elt)[:80])
                    sides = [elt[2], elt[3]]
                    cat = [s for s in sides if pmatch("Cat(*Q_l)", s) is not None]
                    oth = [s for s in sides if pmatch("Cat(*Q_l)", s) is None]
                    if len(cat) != 1:
                        raise _Sym("live test does not compare a Cat with a bank vector")
                    vec = oth[0]
                    if not (vec[0] == "i" and vec[1][0] == "i"):
                        raise _Sym("bank vector: " + tstr(vec)[:60])
                    bank = evalt(vec[2], e2)
                    lst = pmatch("Cat(*Q_l)", cat[0])["l"]
                    # bits[idx] where bits is a nested comprehension: select the inner one for this idx
                    if lst[0] == "i" and lst[1][0] == "lc":
                        outer = lst[1]
                        sel = evalt(lst[2], e2)
                        inner = None
                        for v, el, e3 in _lc_items(outer, e2):
                            if v == sel:
                                inner = (el, e3)
                        if inner is None:
                            raise _Sym("exclusive bits row not found")
                        items = _lc_items(inner[0], inner[1])
                    else:
                        items = _lc_items(lst, e2)
                    for i, el, e3 in items:
                        rt[(rp, bank, i)] = _bit_ref(ex, el, e3)
        except (NotEvaluable, _Sym, KeyError, TypeError) as e:
            raise AnalysisError("C23.one-hot-coding", w.site, f"coding expressions outside the evaluable fragment: {e}")
        cons = f"{cls}.coding[W={nw},R={nr}]"
        # (1) the write makes the writer win every pair: same (bank, bit, polarity) as the live test of that bank
        bad = []
        for (k, i), (_, sb, sp, bit, pol) in sorted(wt.items()):
            for rp in range(nr):
                got = rt.get((rp, k, i))
                if got is None or (got[1], got[3], got[4]) != (sb, bit, pol):
                    bad.append(f"writer {k} bit {i}: writes {'~' if not pol else ''}bank{sb}[{bit}], live test of bank {k} compares with {('~' if not got[4] else '') + 'bank' + str(got[1]) + '[' + str(got[3]) + ']' if got else 'nothing'}")
        n += 1
        ctx.check(not bad and len(wt) == nw * (nw - 1), "C23.one-hot-coding.write-wins", w.site, cons, found="; ".join(bad[:3]) or f"{len(wt)} coded bits agree with the live tests",
                  required="a write by port k sets bank k's vector to exactly the values the live test of bank k compares it with")
        # (3) the value read back for writer k comes from a feedback port that is addressed by writer k's own address, and
        #     the bank vectors are wide enough for the coded bits
        bad = []
        fb = [h for h in ex.of(HwAssign) if h.lhs is not None and h.lhs[0] == "a" and h.lhs[2] == "addr" and h.rhs is not None and pmatch("self.write_ports[Q_k].addr", h.rhs) is not None and len([fr for fr in h.frames if fr[0] == "for"]) == 2]
        try:
            if len(fb) != 1:
                raise _Sym(f"{len(fb)} feedback address assignments")
            f0 = fb[0]
            (bank_b,), bank_it = [(fr[1], fr[2]) for fr in f0.frames if fr[0] == "for"][0]
            (port_b,), port_it = [(fr[1], fr[2]) for fr in f0.frames if fr[0] == "for"][1]
            kexpr = pmatch("self.write_ports[Q_k].addr", f0.rhs)["k"]
            plist = f0.lhs[1][1] if f0.lhs[1][0] == "i" else None
            if f0.lhs[1][0] != "i" or f0.lhs[1][2] != port_b:
                bad.append(f"the feedback address is assigned to {tstr(f0.lhs)}, not to the port the loop over the feedback ports is at")
            ens = [h for h in ex.of(HwAssign) if h.lhs is not None and h.lhs[0] == "a" and h.lhs[2] == "en" and h.frames == f0.frames]
            if len(ens) != 1 or ens[0].lhs[1] != f0.lhs[1]:
                bad.append("the feedback port that gets the address is not the one that is enabled")
            nports = None
            if plist is not None and ex.obj(plist) is not None and ex.obj(plist).ctor[0] == "lc":
                nports = len(eval_seq(ex.obj(plist).ctor[3][0][1], base_env))
            env0 = dict(base_env)
            if plist is not None and nports is not None:
                env0[("call", ("n", "len"), (plist,), ())] = nports
            for (k, i), (_, sb, sp, bit, pol) in sorted(wt.items()):
                env = dict(env0)
                env[bank_b] = sb
                if sp not in eval_seq(port_it, env):
                    bad.append(f"writer {k} bit {i} reads bank {sb} through port {sp}, which is not a feedback port")
                    continue
                env[port_b] = sp
                src = evalt(kexpr, env)
                if src != k:
                    bad.append(f"writer {k} bit {i} reads bank {sb} through port {sp}, which is addressed by write port {src}")
            # widths
            widths = []
            for o in ex.objects.values():
                c = o.ctor
                if c[0] == "call" and c[1] == ("n", "MultiReadMemory"):
                    widths.append(("bank vectors", dict(c[3]).get("shape")))
            for (what, wt_) in widths:
                if wt_ is not None and int(evalt(wt_, base_env)) < nw - 1:
                    bad.append(f"{what} are {int(evalt(wt_, base_env))} bit(s) wide, {nw - 1} coded bit(s) per bank")
            for h in ex.of(HwAssign):
                if h.rhs is not None and pmatch("Mux(Q_c, Q_a, Q_b)", h.rhs) is not None and h.lhs is not None and h.lhs[0] == "i":
                    root = h.lhs
                    while root[0] == "i":
                        root = root[1]
                    o = ex.obj(root)
                    c = o.ctor if o is not None else None
                    for _ in range(3):
                        if c is not None and c[0] == "lc":
                            c = ex.obj(c[2]).ctor if ex.obj(c[2]) is not None else c[2]
                    if c is not None and c[0] == "call" and c[1] == ("n", "Signal") and c[2]:
                        wv = int(evalt(c[2][0], base_env))
                        if wv < nw - 1:
                            bad.append(f"{o.name} is {wv} bit(s) wide, {nw - 1} coded bit(s) per bank")
        except (NotEvaluable, _Sym, KeyError, TypeError) as e:
            raise AnalysisError("C23.one-hot-coding", w.site, f"feedback wiring outside the evaluable fragment: {e}")
        n += 1
        ctx.check(not bad, "C23.one-hot-coding.feedback", fb[0].site if fb else w.site, cons, found="; ".join(bad[:3]) or "every coded bit is read back at the writer's own address, vectors wide enough",
                  required="writer k computes its vector from the other banks' entries at the address k writes to (feedback ports addressed by write port k); a bank vector holds W-1 bits")
        # (2) for every pair of banks exactly one can be live: the two tests on the shared bit pair are complementary
        bad = []
        for rp in range(nr):
            for a, b in itertools.combinations(range(nw), 2):
                # positions where bank a's test looks at bank b and vice versa
                ta = [(i, x) for (r_, bk, i), x in rt.items() if r_ == rp and bk == a and x[1] == b]
                tb = [(i, x) for (r_, bk, i), x in rt.items() if r_ == rp and bk == b and x[1] == a]
                if len(ta) != 1 or len(tb) != 1:
                    bad.append(f"banks {a},{b}: {len(ta)} / {len(tb)} tests")
                    continue
                (ia, xa), (ib, xb) = ta[0], tb[0]
                # a live: v_a[ia] == pol_a(v_b[xa.bit]); b live: v_b[ib] == pol_b(v_a[xb.bit]); same bit pair, opposite polarity
                if not (xa[3] == ib and xb[3] == ia and xa[4] != xb[4]):
                    bad.append(f"banks {a},{b}: bank {a} compares its bit {ia} with {'~' if not xa[4] else ''}bank{b}[{xa[3]}], bank {b} its bit {ib} with {'~' if not xb[4] else ''}bank{a}[{xb[3]}]")
        n += 1
        ctx.check(not bad, "C23.one-hot-coding.exclusive", r.site, cons, found="; ".join(bad[:3]) or "every pair of banks shares one bit pair with complementary tests",
                  required="for every two banks the live tests use the same pair of bits with opposite polarity, so exactly one of the two can be live")
    return n
