"""Obligations for condition() / simultaneous (C12, C13) and the ordering rule against combinational loops (C10)."""

from __future__ import annotations

from ..comp import Component, bodies, decision_table, facts_in_body, find_body, run_atom, strip_index, writers_of
from ..front import AnalysisError
from ..logic import atoms_of, equivalent, f_and, f_not, f_or, fstr, implies, to_formula
from ..pm import find_all, has, pat, pmatch
from ..pyfacts import Fn, is_call_to, loop_iters, loops, py_guard
from ..report import Ctx
from ..stage import BodyDef, Effect, HwAssign, MethodCall, Raise, Relation, Return, Store, Submodule, Unmodelled
from ..term import Term, mentions, mk_op, subterms, tstr
from .core import A, MANAGER, TBASE, _fn

SIMUL = "transactron/lib/simultaneous.py"
CONNECTORS = "transactron/lib/connectors.py"


def condition_branches(ctx: Ctx, pid: str):
    rule = f"{pid}.condition"
    fn = _fn(ctx, SIMUL, "condition", rule, enter=("branch",))
    pnames = [a.arg for a in fn.fi.node.args.args + fn.fi.node.args.kwonlyargs]
    for need in ("nonblocking", "priority"):
        if need not in pnames:
            raise AnalysisError(rule, fn.site, f"condition() has no parameter {need}")
    nonblocking = ("p", fn.fi.qualname, "kw:nonblocking", "nonblocking")
    priority = ("p", fn.fi.qualname, "kw:priority", "priority")
    cond = ("p", "branch", 0, "cond")
    # the "a catch-all branch was added" flag: the one name the nested `branch` function declares nonlocal
    import ast as _ast

    nl = [n for st in _ast.walk(fn.fi.node) if isinstance(st, _ast.Nonlocal) for n in st.names]
    if len(set(nl)) != 1:
        raise AnalysisError(rule, fn.site, f"condition(): expected one nonlocal flag in branch(), found {sorted(set(nl))}")
    last = ("n", nl[0])
    n_branch_cfg = 0
    saw_default = saw_cond = False
    for ex in fn.exs:
        if ex.of(Raise):
            continue
        bds = ex.of(BodyDef)
        if not bds:
            continue
        n_branch_cfg += 1
        b = bds[0]
        site = b.site
        # (a) branch = Transaction whose ready is the branch condition signal
        o = ex.obj(b.owner)
        ok_t = b.kind == "transaction" and o is not None and b.ready[0] == "obj"
        ctx.check(ok_t, rule + ".branch-transaction", site, "condition.branch.body", found=f"{tstr(o.ctor) if o else tstr(b.owner)} ready={tstr(b.ready)}",
                  required="every branch is a nested Transaction whose ready is the branch's condition signal")
        if not ok_t:
            continue
        R = b.ready
        rdrv = [h for h in ex.of(HwAssign) if h.lhs == R]
        cfg = dict(ex.config)
        is_default = cfg.get(pat("None is cond").__class__ and mk_op("is", ("c", None), cond))
        # which configuration are we in?
        conds_obj = None
        for e in ex.of(Effect):
            m = pmatch("Q_l.append(Q_x)", e.call)
            if m and m["x"] == R:
                conds_obj = m["l"]
        ctx.check(conds_obj is not None, rule + ".conds-recorded", site, "condition.branch.conds", found="append of the ready signal " + ("found" if conds_obj else "missing"),
                  required="every branch records its condition signal (the default branch negates all of them)")
        if len(rdrv) != 1:
            ctx.bad(rule + ".ready-drive", site, "condition.branch.ready", found=f"{len(rdrv)} drivers", required="one driver")
            continue
        h = rdrv[0]
        if is_default is True:
            saw_default = True
            f = to_formula(h.rhs)
            want = None
            if conds_obj is not None:
                want = f_not(A(("anyq", conds_obj))) if False else None
            m = pmatch("~Cat(*Q_l).any()", h.rhs)
            ok = m is not None and m["l"] == conds_obj and h.domain == ("c", "top_comb")
            ctx.check(ok, rule + ".default-ready", h.site, "condition.branch.default", found=f"{tstr(h.domain)} += ready.eq({tstr(h.rhs)})",
                      required="default branch: ready = ~any(all previously recorded conditions), unconditionally driven")
        elif is_default is False:
            saw_cond = True
            # the truth value of the condition (F32: a multi-bit condition assigned to the one-bit ready keeps bit 0 only)
            truth = h.rhs in (("call", ("a", ("call", ("a", ("n", "Value"), "cast"), (cond,), ()), "bool"), (), ()), ("call", ("a", cond, "bool"), (), ()),
                              ("call", ("a", ("call", ("a", ("n", "Value"), "cast"), (cond,), ()), "any"), (), ()), ("op", "!=", cond, ("c", 0)))
            ctx.check(truth and h.domain == ("c", "top_comb"), rule + ".cond-ready", h.site, "condition.branch.cond", found=f"{tstr(h.domain)} += ready.eq({tstr(h.rhs)})",
                      required="conditional branch: ready = the truth value of its condition (Value.cast(cond).bool()), as m.If tests it")
        # (g) transaction recorded
        trs = [pmatch("Q_l.append(Q_x)", e.call) for e in ex.of(Effect)]
        trs = [m for m in trs if m and m["x"] == ("a", b.owner, "_body")]
        ctx.check(len(trs) == 1, rule + ".transactions-recorded", site, "condition.branch.transactions", found=f"{len(trs)} append(s) of the branch body",
                  required="every branch is recorded for simultaneous_alternatives")
        tr_obj = trs[0]["l"] if trs else None
        # (d) priority chain
        rels = [r for r in ex.of(Relation) if r.kind == "schedule_before"]
        want_rel = cfg.get(priority) is True and cfg.get(tr_obj) is True if tr_obj is not None else False
        if rels:
            r = rels[0]
            g = py_guard(r)
            ok = (r.subject == ("i", tr_obj, ("c", -1)) and r.args == (("a", b.owner, "_body"),)
                  and equivalent(g, f_and(A(tr_obj), A(priority))) is None)
            # the relation must be declared before the new branch is appended (so [-1] is the preceding branch)
            app_seq = [e.seq for e in ex.of(Effect) if pmatch("Q_l.append(Q_x)", e.call) and pmatch("Q_l.append(Q_x)", e.call)["x"] == ("a", b.owner, "_body")]
            ok = ok and bool(app_seq) and r.seq < app_seq[0]
            ctx.check(ok, rule + ".priority-chain", r.site, "condition.branch.priority", found=f"{tstr(r.subject)}.schedule_before({', '.join(tstr(a) for a in r.args)}) if {fstr(g)}",
                      required="with priority (and only then) the immediately preceding branch is scheduled before the new one")
        elif want_rel:
            ctx.bad(rule + ".priority-chain", site, "condition.branch.priority", found="no schedule_before", required="priority=True chains the branches")
    ctx.floor(rule, "branch configurations", n_branch_cfg, 4, fn.site)
    ctx.check(saw_default and saw_cond, rule + ".both-kinds", fn.site, "condition.branch.kinds", found=f"default={saw_default} conditional={saw_cond}", required="default and conditional branches analysed")
    # (c) a branch after the catch-all raises
    raises = fn.facts(Raise)
    ok = any(equivalent(py_guard(r), A(last)) is None for _, r in raises)
    ctx.check(ok, rule + ".after-catch-all", raises[0][1].site if raises else fn.site, "condition.branch.after-default", found="; ".join(fstr(py_guard(r)) for _, r in raises) or "no raise",
              required="adding a branch after the catch-all branch is rejected")
    # catch-all sets `last`
    # (e) nonblocking without catch-all adds an empty default
    withs = fn.facts(Effect, lambda e: e.call == ("call", ("n", "with"), (("call", ("n", "branch"), (), ()),), ()))
    ok = any(equivalent(py_guard(e), f_and(A(nonblocking), f_not(A(last)))) is None for _, e in withs)
    ctx.check(ok, rule + ".nonblocking-default", withs[0][1].site if withs else fn.site, "condition.nonblocking", found="; ".join(fstr(py_guard(e)) for _, e in withs) or "no implicit default branch",
              required="nonblocking and no catch-all => an empty default branch is added")
    # (f) alternatives declared on the enclosing body
    rels = fn.facts(Relation, lambda r: r.kind == "simultaneous_alternatives")
    ok = False
    for ex, r in rels:
        subj = ex.vardef(r.subject) or r.subject
        if pmatch("Body.get()", subj) is not None and len(r.args) == 1 and r.args[0][0] == "star" and r.args[0][1][0] == "obj" and py_guard(r) is True:
            ok = True
    ctx.check(ok, rule + ".alternatives", rels[0][1].site if rels else fn.site, "condition.simultaneous_alternatives", found="; ".join(f"{tstr(ex.vardef(r.subject) or r.subject)}.simultaneous_alternatives({', '.join(tstr(a) for a in r.args)})" for ex, r in rels) or "none",
              required="the enclosing body declares simultaneous_alternatives(*all branches)")
    # (f') the alternatives exclude each other by themselves (F33): inside a nonexclusive method the merged transactions of two
    # callers share no exclusive body, so without a declared conflict T1+branch0 and T2+branch1 run together
    alts = None
    for ex, r in rels:
        if len(r.args) == 1 and r.args[0][0] == "star":
            alts = r.args[0][1]
    confl = fn.facts(Relation, lambda r: r.kind == "add_conflict")
    okc = False
    for ex, r in confl:
        lp = loops(r)
        if len(lp) != 2 or len(r.args) != 1 or py_guard(r) is not True or alts is None:
            continue
        (i,), it1 = lp[0]
        (o,), it2 = lp[1]
        # for i, t in enumerate(L) / for o in L[i + 1:]  (the extractor binds the index: t == L[i])
        all_pairs = (pmatch("enumerate(Q_l)", it1) == {"l": alts} or it1 == ("call", ("n", "range"), (("call", ("n", "len"), (alts,), ()),), ())) and \
            it2 == ("i", alts, ("slice", mk_op("+", i, ("c", 1)), ("c", None), ("c", None)))
        okc = okc or (all_pairs and {r.subject, r.args[0]} == {("i", alts, i), o})
        # or: for a, b in combinations(L, 2)
    for ex, r in confl:
        lp = loops(r)
        if len(lp) == 1 and len(lp[0][0]) == 2 and pmatch("combinations(Q_l, 2)", lp[0][1]) == {"l": alts} and py_guard(r) is True and len(r.args) == 1 and {r.subject, r.args[0]} == set(lp[0][0]):
            okc = True
    ctx.check(okc, rule + ".alternatives-conflict", confl[0][1].site if confl else fn.site, "condition.alternatives.add_conflict",
              found="; ".join(f"{tstr(r.subject)}.add_conflict({', '.join(tstr(a) for a in r.args)}) over {[tstr(l[1]) for l in loops(r)]}" for _, r in confl) or "no conflict declared between the branches",
              required="every two branches of one condition() are declared conflicting (at most one branch runs, also when the containing method is nonexclusive)")


def simultaneous_relations(ctx: Ctx, pid: str):
    """simultaneous registers both directions; simultaneous_alternatives = simultaneous + pairwise independence."""
    rule = f"{pid}.simultaneous-api"
    fn = _fn(ctx, TBASE, "TransactionBase.simultaneous", rule)
    others = ("p", fn.fi.qualname, "*", "others")
    st = fn.facts(Store, lambda s: s.target == pat("self.simultaneous_list") and s.aug == "+")
    eff = fn.facts(Effect, lambda e: pmatch("Q_o.simultaneous_list.append(self)", e.call) is not None)
    ok = bool(st) and st[0][1].value == others and bool(eff) and loops(eff[0][1]) and loops(eff[0][1])[0][1] == others and pmatch("Q_o.simultaneous_list.append(self)", eff[0][1].call)["o"] == loops(eff[0][1])[0][0][0] and py_guard(eff[0][1]) is True and py_guard(st[0][1]) is True
    ctx.check(bool(ok), rule + ".symmetric", fn.site, "TransactionBase.simultaneous", found=f"own list += others: {bool(st)}; others' lists get self: {bool(eff)}",
              required="simultaneity is recorded on both sides")
    fa = _fn(ctx, TBASE, "TransactionBase.simultaneous_alternatives", rule)
    o2 = ("p", fa.fi.qualname, "*", "others")
    rels = fa.facts(Relation)
    ok1 = any(r.kind == "simultaneous" and r.subject == ("self",) and r.args == (("star", o2),) for _, r in rels)
    ok2 = any(r.kind == "_independent" and r.subject == ("i", o2, ("c", 0)) and r.args == (("star", ("i", o2, ("slice", ("c", 1), ("c", None), ("c", None)))),) for _, r in rels)
    ctx.check(ok1 and ok2, rule + ".alternatives", fa.site, "TransactionBase.simultaneous_alternatives",
              found="; ".join(f"{tstr(r.subject)}.{r.kind}({', '.join(tstr(a) for a in r.args)})" for _, r in rels),
              required="self.simultaneous(*others) and others[0]._independent(*others[1:])")
    fi = _fn(ctx, TBASE, "TransactionBase._independent", rule)
    st = fi.facts(Store, lambda s: s.target == pat("self.independent_list") and s.aug == "+")
    ctx.check(bool(st) and st[0][1].value == ("p", fi.fi.qualname, "*", "others"), rule + ".independent", fi.site, "TransactionBase._independent", found=f"{len(st)} store(s)",
              required="independence recorded for all the others")
    # manager copies the lists to the bodies
    el = _fn(ctx, MANAGER, "TransactionManager.elaborate", rule)
    for lst in ("simultaneous_list", "independent_list"):
        effs = el.facts(Effect, lambda e, lst=lst: pmatch(f"Q_e._body.{lst}.append(Q_x._body)", e.call) is not None)
        ok = False
        for ex, e in effs:
            m = pmatch(f"Q_e._body.{lst}.append(Q_x._body)", e.call)
            lp = loops(e)
            if len(lp) == 2 and lp[0][0][0] == m["e"] and lp[1][0][0] == m["x"] and lp[1][1] == ("a", m["e"], lst) and py_guard(e) is True:
                ok = True
        ctx.check(ok, rule + ".copied", effs[0][1].site if effs else el.site, f"TransactionManager.elaborate.{lst}", found=f"{len(effs)} copy site(s)",
                  required=f"every {lst} entry is copied to the body")


def merged_transactions(ctx: Ctx, pid: str):
    """_simultaneous step 4/5: every joined transaction becomes a method, and each merged transaction calls *every*
    member of its group with enable_call = all runs of its conditional ready-dependencies."""
    from . import core7

    core7.simultaneous_groups(ctx, pid)
    rule = f"{pid}.merged-transaction"
    fn = _fn(ctx, MANAGER, "TransactionManager._simultaneous", rule)
    calls = fn.facts(MethodCall)
    ctx.floor(rule, "member calls", len(calls), 1, fn.site)
    ok = False
    detail = ""
    for ex, c in calls:
        lp = loops(c)
        bodyfr = [fr for fr in c.frames if fr[0] == "body"]
        detail = f"{tstr(c.callee)}(m, enable_call={tstr(c.enable) if c.enable else None}) in {[tstr(i) for i in loop_iters(c)]}"
        if len(lp) != 2 or not bodyfr:
            continue
        (gb,), git = lp[0]
        (tb,), tit = lp[1]
        m = pmatch("Q_methods[Q_t]", c.callee)
        if not (m and m["t"] == tb and tit == gb):
            continue
        # the body is opened per group (outside the member loop)
        bidx = c.frames.index(bodyfr[0])
        loop_idx = [k for k, fr in enumerate(c.frames) if fr[0] == "for"]
        if not (loop_idx[0] < bidx < loop_idx[1]):
            continue
        f = to_formula(c.enable) if c.enable is not None else True
        okf = f is True or (f[0] == "atom" and f[1][0] == "allq" and f[1][1][2] == ("a", f[1][1][3][0][0], "run"))
        if okf and f is not True:
            dit = f[1][1][3][0][1]
            dd = ex.vardef(dit) or dit
            md = pmatch("Q_rd[Q_t] & Q_cc", dd) or pmatch("Q_cc & Q_rd[Q_t]", dd)
            # the ready dependencies looked up are those of the member that is being called
            okf = md is not None and md["t"] == tb
        # methods[t] was created from transaction t
        meths = m["methods"]
        sets = [s for s in ex.of(Store) if s.target[0] == "i" and s.target[1] == meths]
        okm = False
        for s in sets:
            o = ex.obj(s.value)
            si = [e for e in ex.of(Effect) if pmatch("Q_m._set_impl(Q_t)", e.call) and pmatch("Q_m._set_impl(Q_t)", e.call)["m"] == s.value]
            if o is not None and is_call_to(o.ctor, "Method") and si and pmatch("Q_m._set_impl(Q_t)", si[0].call)["t"] == s.target[2]:
                okm = True
        if okf and okm:
            ok = True
            # group source
            # ... of every group that is built at all (F29: a group without a caller of a member's enclosing body is skipped)
            gc = py_guard(c)
            okg = gc is True
            if not okg:
                from ..logic import atoms_of as _atoms, equivalent as _equiv, f_not as _not

                ats = _atoms(gc)
                okg = len(ats) == 1 and core7._enclosing_missing_atom(ex, ats[0], gb) and _equiv(gc, _not(("atom", ats[0]))) is None
            ctx.check(okg, rule + ".unconditional", c.site, "_simultaneous.member-call", found=fstr(gc), required="every member of a built group is called")
    ctx.check(ok, rule, calls[0][1].site, "_simultaneous.merged", found=detail,
              required="for every final group one transaction calling methods[t] for every member t (method t wraps transaction t), enable_call = all(run of its conditional ready-dependencies)")
    # relations between simultaneous partners are the only ones dropped
    st = fn.facts(Store, lambda s: pmatch("Q_e.relations", s.target) is not None)
    ok = False
    for ex, s in st:
        m = pmatch("list(filterfalse(Q_f, Q_e.relations))", s.value)
        if m and m["f"][0] == "lam":
            clo = ex.closures[m["f"][1]]
            import ast as _ast

            src = _ast.unparse(clo.node.body) if isinstance(clo.node, _ast.Lambda) else ""
            # predicate must require membership of relation.end in the simultaneous set and non-conflict
            ok = "in all_sims" in src.replace("  ", " ") and "not relation.conflict" in src or ("simultaneous" in src and "conflict" in src)
    ctx.check(ok, rule + ".dropped-relations", st[0][1].site if st else fn.site, "_simultaneous.relation-filter", found=f"{len(st)} relation rewrite(s)",
              required="only non-conflict orderings between simultaneous partners are removed", nontrivial=False)


def connect_component(ctx: Ctx, pid: str):
    """C13: Connect declares write.simultaneous(read) and crosses the data in av_comb."""
    rule = f"{pid}.connect"
    ctx.use(CONNECTORS)
    comp = Component(ctx.repo, CONNECTORS, "Connect", rule=rule)
    comp.require_modelled(rule)
    ex = comp.configs[0]
    w, r = find_body(ex, "write"), find_body(ex, "read")
    if w is None or r is None:
        raise AnalysisError(rule, comp.site, "Connect.read / Connect.write bodies not found", missing="Connect.read / Connect.write bodies not found")
    rels = [x for x in ex.of(Relation) if x.kind in ("simultaneous", "simultaneous_alternatives")]
    ok = any({x.subject, *x.args} == {("a", ("self",), "write"), ("a", ("self",), "read")} for x in rels)
    ctx.check(ok, rule + ".simultaneous", comp.site, "Connect.simultaneous", found="; ".join(f"{tstr(x.subject)}.{x.kind}({', '.join(tstr(a) for a in x.args)})" for x in rels) or "none",
              required="read and write are declared simultaneous")
    for a, b, na, nb in ((w, r, "write", "read"), (r, w, "read", "write")):
        # value returned by b is driven (only) from a's argument
        rv = b.ret
        ws = writers_of(ex, rv) if rv is not None else []
        okd = len(ws) == 1 and ws[0].rhs == ("arg", a.bodyid) and ws[0].fact.domain in (("c", "av_comb"), ("c", "top_comb"))
        ctx.check(okd, rule + ".cross-data", ws[0].fact.site if ws else b.site, f"Connect.{nb}.result", found="; ".join(f"{tstr(x.fact.domain)} += {tstr(x.fact.lhs)}.eq({tstr(x.rhs)})" for x in ws) or "no driver",
                  required=f"{nb} returns exactly the argument of {na}, driven without depending on run (av_comb)")
        ctx.check(to_formula(b.ready) is True, rule + ".ready", b.site, f"Connect.{nb}.ready", found=tstr(b.ready), required="always ready (readiness is joint, by simultaneity)", nontrivial=False)


# ---------------------------------------------------------------------------
# C10


def _comb_closure(ex, t: Term, depth: int = 4) -> set:
    """Terms reachable from `t` through combinational assignments of the component (local objects / self signals)."""
    seen = set()
    todo = [t]
    for _ in range(depth):
        nxt = []
        for x in todo:
            for s in subterms(x):
                if s in seen:
                    continue
                seen.add(s)
                if s[0] == "obj" or (s[0] == "a" and s[1] == ("self",)):
                    for h in ex.of(HwAssign):
                        if h.lhs == s and h.domain[0] == "c" and h.domain[1] in ("comb", "av_comb", "top_comb"):
                            nxt.append(h.rhs)
                            for fr in h.frames:
                                if fr[0] in ("if", "elif", "avoid"):
                                    nxt.append(fr[1])
        todo = nxt
        if not todo:
            break
    return seen


def library_ordering_rule(ctx: Ctx, pid: str, dirs=("transactron/lib/",), floor: int = 3):
    """C10.a: if the ready of body A combinationally reads the run of body B of the same component, then
    B.schedule_before(A) is declared (the scheduler then computes B.run before A needs it)."""
    rule = f"{pid}.ready-reads-run"
    n = 0
    ncomp = 0
    for rel, mi in sorted(ctx.repo.modules.items()):
        if not any(rel.startswith(d) for d in dirs):
            continue
        for cname_, ci in mi.classes.items():
            if "elaborate" not in ci.methods:
                continue
            ctx.use(rel)
            try:
                comp = Component(ctx.repo, rel, cname_, rule=rule)
            except AnalysisError:
                raise
            ncomp += 1
            for ex in comp.configs:
                bs = ex.of(BodyDef)
                owners = {strip_index(b.owner): b for b in bs}
                for a in bs:
                    reach = _comb_closure(ex, a.ready)
                    for t in reach:
                        if t[0] == "a" and t[2] == "run":
                            src = strip_index(t[1])
                            if src in owners and owners[src] is not a:
                                n += 1
                                bsrc = owners[src]
                                declared = any(r.kind == "schedule_before" and strip_index(r.subject) == src and any(strip_index(x) == strip_index(a.owner) for x in r.args) for r in ex.of(Relation))
                                nested = any(fr[0] == "body" and fr[1] == bsrc.bodyid for fr in a.frames)
                                ctx.check(declared or nested, rule, a.site, f"{cname_}.{tstr(strip_index(a.owner))}.ready<-{tstr(src)}.run",
                                          found=f"ready = {tstr(a.ready)[:120]}; relations: " + ", ".join(f"{tstr(r.subject)}.{r.kind}({', '.join(tstr(x) for x in r.args)})" for r in ex.of(Relation)),
                                          required=f"{tstr(src)}.schedule_before({tstr(strip_index(a.owner))}) (or nesting), otherwise run -> ready -> runnable -> run is a combinational loop")
    ctx.count(f"{rule}:components", ncomp)
    ctx.floor(rule, "ready-reads-run instances", n, floor, dirs[0])
