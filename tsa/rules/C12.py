"""C12 - condition() picks one admissible branch (structure of condition(), the relation API and the merged
transactions; the group-merging algorithm itself is not decided)."""

from . import core, core2, core3, core4, core5

S = core4.SIMUL


def check(ctx):
    from . import core8

    core8.conditional_depth(ctx, "C12")
    core4.condition_branches(ctx, "C12")
    core4.simultaneous_relations(ctx, "C12")
    core4.merged_transactions(ctx, "C12")
    from . import core7

    core7.group_has_enclosing(ctx, "C12")
    core2.mgr_ready_dependencies(ctx, "C12")
    core2.body_wrappers(ctx, "C12")
    core.cg_priority_passthrough(ctx, "C12")
    core5.conditionally_called(ctx, "C12")


MUTANTS = [
    ("default-ready-any", S, "ready.eq(Value.cast(cond).bool() if cond is not None else ~Cat(*conds).any())", "ready.eq(Value.cast(cond).bool() if cond is not None else ~Cat(*conds).all())"),
    ("default-ready-always", S, "ready.eq(Value.cast(cond).bool() if cond is not None else ~Cat(*conds).any())", "ready.eq(Value.cast(cond).bool() if cond is not None else 1)"),
    ("conds-not-recorded-with-priority", S, "        conds.append(ready)\n", "        if not priority:\n            conds.append(ready)\n"),
    ("priority-chain-from-first", S, "transactions[-1].schedule_before(transaction._body)", "transactions[0].schedule_before(transaction._body)"),
    ("priority-chain-always", S, "        if transactions and priority:", "        if transactions:"),
    ("priority-chain-never", S, "        if transactions and priority:", "        if transactions and priority and nonblocking:"),
    ("nonblocking-no-default", S, "    if nonblocking and not last:\n        with branch():\n            pass\n", ""),
    ("blocking-gets-default", S, "    if nonblocking and not last:", "    if not last:"),
    ("alternatives-plain-simultaneous", S, "    this.simultaneous_alternatives(*transactions)", "    this.simultaneous(*transactions)"),
    ("alternatives-not-independent", core.TBASE, "        self.simultaneous(*others)\n        others[0]._independent(*others[1:])", "        self.simultaneous(*others)"),
    ("simultaneous-one-directional", core.TBASE, "        for other in others:\n            other.simultaneous_list.append(self)  # type: ignore\n", ""),
    ("branch-ready-ignored", S, ".body(m, ready=ready):\n            yield", ".body(m):\n            yield"),
    ("merged-calls-unconditional", core.MANAGER, "methods[transaction](m, enable_call=Cat(dep.run for dep in nontrivial_deps).all())", "methods[transaction](m, enable_call=Cat(dep.run for dep in nontrivial_deps).any())"),
    ("condcalled-marks-link", core.MANAGER, "                        ret.add(method)\n", "                        ret.add(callee)\n"),
    ("condcalled-dep-only-with-new-method", core.MANAGER, "                    if dep not in ret:\n                        ret.add(dep)\n                        conditional_to_infect.append(dep)\n", "                            if dep not in ret:\n                                ret.add(dep)\n                                conditional_to_infect.append(dep)\n"),
    ("condcalled-dep-not-visited", core.MANAGER, "                        ret.add(dep)\n                        conditional_to_infect.append(dep)\n", "                        ret.add(dep)\n"),
    ("condition-bit0-only", S, "ready.eq(Value.cast(cond).bool() if cond is not None", "ready.eq(cond if cond is not None"),
    ("alternatives-not-conflicting", S, "            transaction.add_conflict(other)\n", "            pass\n"),
    ("alternatives-conflict-only-neighbours", S, "for other in transactions[i + 1 :]:", "for other in transactions[i + 1 : i + 2]:"),
    ("condcalled-no-transitive", core.MANAGER, "                            conditional_to_infect.append(called_method)\n", ""),
    ("condcalled-not-ready-dependent-accepted", core.MANAGER, "if dep in ready_dependent and dep in method_map.transactions:", "if dep in method_map.transactions:"),
    ("condcalled-caller-shifted", core.MANAGER, "zip(call.ancestors, (*call.ancestors[1:], transaction))", "zip(call.ancestors, (*call.ancestors[:-1], transaction))"),
    ("after-catch-all-accepted", S, "        if last:\n            raise RuntimeError(\"Condition clause added after catch-all\")\n", ""),
]
