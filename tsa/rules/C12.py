"""C12 - condition() picks one admissible branch (temporary assembly for testing)."""

from . import core, core2, core3, core4


def check(ctx):
    core4.condition_branches(ctx, "C12")
    core4.simultaneous_relations(ctx, "C12")
    core4.merged_transactions(ctx, "C12")
    core4.connect_component(ctx, "C12")
    core4.library_ordering_rule(ctx, "C12")


MUTANTS = []
