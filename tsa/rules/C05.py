"""C05 - call arguments and results are routed to the right party."""

from . import core, core2, core3

M = core.MANAGER
ELAB = "transactron/utils/amaranth_ext/elaboratables.py"


def check(ctx):
    core2.mgr_argument_routing(ctx, "C05")
    core2.method_call_lowering(ctx, "C05")
    core2.body_wrappers(ctx, "C05")
    core2.mgr_provided_mirrors(ctx, "C05")
    core2.def_method_result(ctx, "C05")
    core2.mm_call_recording(ctx, "C05")
    core2.methods_provide(ctx, "C05")
    from . import core9

    core9.enable_call_defaults(ctx, "C05")
    from .c38 import one_hot_mux_alignment

    one_hot_mux_alignment(ctx, "C05")


MUTANTS = [
    ("runs-conditional-append", M, "                    runs[method._body].append(source.run & enable)", "                    if len(calls) > 1:\n                        runs[method._body].append(source.run & enable)"),
    ("runs-ignore-enable", M, "runs[method._body].append(source.run & enable)", "runs[method._body].append(source.run)"),
    ("data-in-wrong-runs", M, "runs = Cat(method_runs[method])\n", "runs = Cat(method_runs[method][::-1])\n"),
    ("default-combiner-misaligned", core.BODY, "[(runs[i], args[i]) for i in range(len(args))]", "[(runs[i], args[-i]) for i in range(len(args))]"),
    ("call-returns-data-in", core.METHOD, "        return self.data_out\n\n    def __repr__", "        return self.data_in\n\n    def __repr__"),
    ("arg-rec-partial", core.METHOD, "m.d.top_comb += assign(arg_rec, arg, fields=AssignType.ALL)", "m.d.top_comb += assign(arg_rec, arg, fields=AssignType.COMMON)"),
    ("body-mirror-swapped", core.METHOD, "m.d.top_comb += self.data_in.eq(body.data_in)", "m.d.top_comb += self.data_in.eq(body.data_out)"),
    ("provided-data-out-mirror", M, "m.d.comb += method.data_out.eq(method._body.data_out)", "m.d.comb += method.data_out.eq(method._body.data_in)"),
    ("def-method-out-comb", core.SUGAR, "m.d.top_comb += assign(out, ret_out, fields=AssignType.ALL)", "m.d.top_comb += assign(out, ret_out, fields=AssignType.COMMON)"),
    ("def-methods-wrong-method", core.SUGAR, "def_method(m, methods[i], ready(i), **kwargs)(partial_f)", "def_method(m, methods[i], ready(0), **kwargs)(partial_f)"),
    ("callinfo-wrong-arg", M, "                            arg=arg_rec,\n", "                            arg=calls[0][1],\n"),
]
