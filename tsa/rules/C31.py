"""C31 - hardware counters and histograms: counter updates, tag selection (index = matched tag value), histogram
bucket arms, neutral defaults, disabled-metrics path.  Numeric consistency of the histogram is NOT decided."""

from .common import *
from ..pm import pmatch, pat, has
from ..pyfacts import Fn, loops, py_guard
from ..stage import Store
from ..term import mk_op, subterms

REL = "transactron/lib/metrics.py"
ENABLED = "self.metrics_enabled()"


def cfgv(ex, key):
    for t, v in ex.config:
        if tstr(t) == key:
            return v
    return None


def _disabled_path(ctx, comp, cls, key=ENABLED):
    dis = [ex for ex in comp.configs if cfgv(ex, key) is False]
    ok = len(dis) == 1 and not dis[0].of(HwAssign) and not dis[0].of(BodyDef) and not dis[0].of(Submodule) and any(r.callid is None and ex_is_tmodule(dis[0], r.value) for r in dis[0].of(Return))
    ctx.check(ok, "C31.disabled-no-hardware", comp.site, f"{cls}.elaborate.disabled", found=f"{len(dis)} disabled configuration(s); facts: {[type(f).__name__ for f in dis[0].facts] if dis else []}",
              required="with metrics disabled elaborate returns an empty TModule before creating any hardware")


def ex_is_tmodule(ex, v):
    o = ex.obj(v)
    return o is not None and o.ctor == pat("TModule()")


def hw_counter(ctx):
    comp = Component(ctx.repo, REL, "HwCounter", rule="C31")
    comp.require_modelled("C31")
    _disabled_path(ctx, comp, "HwCounter")
    ex = ([e for e in comp.configs if cfgv(e, ENABLED)] or comp.configs)[0]
    ws = writers_of(ex, pat("self.count.value"), sync=True)
    ok = len(ws) == 1 and ws[0].guard is True
    if ok:
        co, k = to_lin(ws[0].rhs)
        inc = [a for a in co if a != pat("self.count.value")]
        ok = co.get(pat("self.count.value")) == 1 and k == 0 and len(inc) == 1 and co[inc[0]] == 1
        if ok:
            m = pmatch("popcount(Cat(Q_g))", inc[0])
            ok = m is not None and m["g"][0] == "lc" and m["g"][2] == ("a", m["g"][3][0][0], "run") and m["g"][3][0][1] == pat("self.incr") and not m["g"][3][0][2]
    ctx.check(ok, "C31.counter-update", ws[0].fact.site if ws else comp.site, "HwCounter.count'", found="; ".join(tstr(w.rhs) for w in ws), required="count' = count + popcount(run of every incr way), every cycle")
    b = need_body(ex, "incr", "C31", comp.site)
    ctx.check(to_formula(b.ready) is True and not facts_in_body(ex, b, HwAssign), "C31.incr-always-ready", b.site, "HwCounter.incr", found=f"ready={tstr(b.ready)}", required="incr is always ready and has no other effect", nontrivial=False)


def tagged_counter(ctx):
    comp = Component(ctx.repo, REL, "TaggedCounter", rule="C31")
    comp.require_modelled("C31")
    _disabled_path(ctx, comp, "TaggedCounter")
    n_sel = 0
    for ex in comp.configs:
        if not cfgv(ex, ENABLED):
            continue
        b = need_body(ex, "incr", "C31", comp.site)
        k = b.binder
        tag = ("a", ("arg", b.bodyid), "tag")
        one_hot = cfgv(ex, "self.one_hot")
        sels = [h for h in facts_in_body(ex, b, HwAssign) if const_pred(1)(h.rhs)]
        for h in sels:
            n_sel += 1
            # lhs = runs[<tag value>][k]
            ok_shape = h.lhs[0] == "i" and h.lhs[2] == k and h.lhs[1][0] == "i" and domain_class(h.domain) == RUN_GATED and not is_sync(h.domain)  # a combinational pulse in the cycle of the call
            key = h.lhs[1][2] if ok_shape else None
            runs = h.lhs[1][1] if ok_shape else None
            cons = f"TaggedCounter.select[{'one-hot' if one_hot else 'compare'}]"
            if one_hot:
                fl = [fr for fr in h.frames if fr[0] == "for" and pmatch("OneHotSwitchDynamic(Q_m, Q_t)", fr[2])]
                ok = ok_shape and len(fl) == 1
                if ok:
                    i = fl[0][1][0]
                    sw = pmatch("OneHotSwitchDynamic(Q_m, Q_t)", fl[0][2])["t"]
                    # the switch case for loop value i matches tag == 1 << i: the counter selected must be the one of that value
                    ok = key == ("op", "<<", ("c", 1), i) and sw in (tag, ("call", ("a", ("n", "Value"), "cast"), (tag,), ()))
                ctx.check(ok, "C31.tag-selects-own-counter", h.site, cons, found=f"{tstr(h.lhs)} <- 1 inside the one-hot case of bit {tstr(fl[0][1][0]) if fl else '?'}",
                          required="in the one-hot case of bit i (tag == 1 << i) the run bit of the counter for tag value 1 << i is set (looked up by value, not by position)")
            else:
                ifs = [fr for fr in h.frames if fr[0] == "if"]
                ok = ok_shape and len(ifs) == 1
                if ok:
                    f = to_formula(ifs[0][1])
                    want1 = to_formula(("op", "==", key, tag))
                    want2 = to_formula(("op", "==", key, ("call", ("a", ("n", "Value"), "cast"), (tag,), ())))
                    ok = equivalent(f, want1) is None or equivalent(f, want2) is None
                    fl = [fr for fr in h.frames if fr[0] == "for" and key in fr[1]]
                    ok = ok and len(fl) == 1 and fl[0][2] == pat("self.counters.keys()")
                ctx.check(ok, "C31.tag-selects-own-counter", h.site, cons, found=f"{tstr(h.lhs)} <- 1 under {[tstr(fr[1]) for fr in ifs]}",
                          required="for every tag value v: If(tag == v) sets the run bit of counter v (same v), for way k")
        # counters add popcount of their own run vector
        ups = [h for h in ex.of(HwAssign) if is_sync(h.domain) and h.lhs is not None and h.lhs[0] == "a" and h.lhs[2] == "value"]
        ok = len(ups) == 1
        if ok:
            h = ups[0]
            fl = [fr for fr in h.frames if fr[0] == "for"]
            ok = len(fl) == 1 and fl[0][2] == pat("self.counters.items()")
            if ok:
                it = fl[0][1][0]
                cnt = ("a", ("i", it, ("c", 1)), "value")
                co, kk = to_lin(h.rhs)
                inc = [a for a in co if a != cnt]
                ok = h.lhs == cnt and co.get(cnt) == 1 and len(inc) == 1 and co.get(inc[0]) == 1 and kk == 0
                if ok:
                    m = pmatch("popcount(Q_r[Q_k])", inc[0])
                    ok = m is not None and m["k"] == ("i", it, ("c", 0)) and (not sels or m["r"] == sels[0].lhs[1][1])
        ctx.check(ok, "C31.tag-counter-update", ups[0].site if ups else comp.site, f"TaggedCounter.counters'[{cfg_name(ex)}]", found="; ".join(tstr(h.rhs) for h in ups), required="counter[v]' = counter[v] + popcount(runs[v]) with the same v, every cycle")
    ctx.floor("C31", "tag selections", n_sel, 2, comp.site)


def histogram(ctx):
    comp = Component(ctx.repo, REL, "HwExpHistogram", rule="C31")
    comp.require_modelled("C31")
    _disabled_path(ctx, comp, "HwExpHistogram")
    arms = set()
    for ex in comp.configs:
        if not cfgv(ex, ENABLED):
            continue
        b = need_body(ex, "add", "C31", comp.site)
        k = b.binder
        sample = ("a", ("arg", b.bodyid), "sample")
        # msb scan
        idxw = [h for h in facts_in_body(ex, b, HwAssign) if h.lhs is not None and h.lhs[0] == "obj" and h.rhs[0] == "b"]
        ok = len(idxw) == 1
        if ok:
            h = idxw[0]
            i = h.rhs
            ifs = [fr for fr in h.frames if fr[0] == "if"]
            fl = [fr for fr in h.frames if fr[0] == "for" and i in fr[1]]
            ok = len(ifs) == 1 and ifs[0][1] == ("i", sample, i) and len(fl) == 1 and fl[0][2] == pat("range(self.sample_width)")
            msb = h.lhs
        ctx.check(ok, "C31.msb-scan", idxw[0].site if idxw else b.site, f"HwExpHistogram.bucket_idx[{cfg_name(ex)}]", found="; ".join(f"{tstr(h.lhs)} <- {tstr(h.rhs)} under {[tstr(fr[1]) for fr in h.frames if fr[0] == 'if']}" for h in idxw),
                  required="for every bit i in ascending order: If(sample[i]) idx <- i (last writer = most significant set bit)")
        if not ok:
            continue
        # bucket arms
        inc = [h for h in facts_in_body(ex, b, HwAssign) if h.lhs is not None and h.lhs[0] == "i" and h.lhs[2] == k and h.lhs[1][0] == "i"]
        ok = len(inc) == 1 and domain_class(inc[0].domain) == RUN_GATED
        if ok:
            h = inc[0]
            bi = h.lhs[1][2]
            first, last = cfgv(ex, f"({tstr(bi)} == 0)"), cfgv(ex, f"({tstr(bi)} == (self.bucket_count - 1))")
            f = to_formula(h.rhs)
            nz = f_not(to_formula(("op", "==", sample, ("c", 0))))
            single = [v_ for t_, v_ in ex.config if pmatch("self.bucket_count == 1", t_) is not None or pmatch("1 == self.bucket_count", t_) is not None]
            if single and single[0]:
                # one bucket is the whole range [0, inf): first and last at once (F18)
                arm, want = "single", True
                text = "with a single bucket every sample is counted in it"
            elif first:
                arm, want = "first", f_not(nz)
                text = "bucket 0 counts sample == 0"
            elif last:
                arm, want = "last", f_and(nz, to_formula(("op", "<=", ("op", "-", bi, ("c", 1)), msb)))
                text = "the last bucket counts non-zero samples with msb >= i - 1 (overflow bucket)"
            else:
                arm, want = "middle", f_and(nz, to_formula(("op", "==", msb, ("op", "-", bi, ("c", 1)))))
                text = "bucket i counts non-zero samples with msb == i - 1, i.e. 2^(i-1) <= sample < 2^i"
            arms.add(arm)
            cex = equivalent(f, want)
            if cex is not None and arm != "first":
                # comparison class: bounded agreement over msb and i
                try:
                    cex2 = agree_bounded(h.rhs, ("op", "&", ("op", "!=", sample, ("c", 0)), (("op", "<=", ("op", "-", bi, ("c", 1)), msb) if arm == "last" else ("op", "==", msb, ("op", "-", bi, ("c", 1))))),
                                         box({}, {sample: (0, 3), msb: (0, 5), bi: (1, 6)}), [sample, msb, bi])
                    cex = None if cex2 is None else cex
                except NotEvaluable:
                    pass
            fl = [fr for fr in h.frames if fr[0] == "for" and bi in fr[1]]
            okd = len(fl) == 1 and fl[0][2] == pat("range(len(self.buckets))")
            ctx.check(cex is None and okd, "C31.bucket-arm", h.site, f"HwExpHistogram.bucket[{arm}]", found=fstr(f), required=text)
        else:
            ctx.bad("C31.bucket-arm", b.site, f"HwExpHistogram.bucket[{cfg_name(ex)}]", found=f"{len(inc)} run-gated increment flag assignment(s)", required="one increment flag per (bucket, way), driven while the way runs")
        # bucket registers
        ups = [h for h in ex.of(HwAssign) if is_sync(h.domain) and has("self.buckets[Q_i].value", h.lhs)]
        ok = len(ups) == 1
        if ok and inc:
            h = ups[0]
            i = h.lhs[1][2]
            co, kk = to_lin(h.rhs)
            add = [a for a in co if a != h.lhs]
            ok = co.get(h.lhs) == 1 and len(add) == 1 and co.get(add[0]) == 1 and kk == 0 and pmatch("popcount(Q_v[Q_i])", add[0]) is not None and pmatch("popcount(Q_v[Q_i])", add[0])["i"] == i and pmatch("popcount(Q_v[Q_i])", add[0])["v"] == inc[0].lhs[1][1]
        ctx.check(ok, "C31.bucket-update", ups[0].site if ups else comp.site, f"HwExpHistogram.buckets'[{cfg_name(ex)}]", found="; ".join(tstr(h.rhs) for h in ups), required="bucket[i]' = bucket[i] + popcount(increment flags of bucket i) (same i)")
        # count / min / max / sum
        cw = writers_of(ex, pat("self.count.value"), sync=True)
        ok = len(cw) == 1 and cw[0].guard is True and lin_equal(cw[0].rhs, ("op", "+", pat("self.count.value"), popc_runs("self.add", cw[0].rhs)))
        ctx.check(ok, "C31.histogram-count", cw[0].fact.site if cw else comp.site, f"HwExpHistogram.count'[{cfg_name(ex)}]", found="; ".join(tstr(w.rhs) for w in cw), required="count' = count + popcount(run of every add way)")
        for reg, helper, dflt, text in (("min", "min_value", "ones", "neutral for min: all ones"), ("max", "max_value", "zero", "neutral for max: 0"), ("sum", "sum_value", "zero", "neutral for sum: 0")):
            w = writers_of(ex, ("a", ("a", ("self",), reg), "value"), sync=True)
            ok = len(w) == 1 and w[0].guard is True
            d = None
            if ok:
                d = ex.vardef(w[0].rhs) or w[0].rhs
                m = pmatch(f"{helper}(self.{reg}.value, Q_l)", d)
                ok = m is not None
                if ok:
                    lst = ex.vardef(m["l"]) or m["l"]
                    mm = pmatch("list(Q_g)", lst)
                    ok = mm is not None and mm["g"][0] == "lc"
                    if ok:
                        g = mm["g"]
                        way = g[3][0][0]
                        mux = pmatch("Mux(Q_w.run, Q_w.data_in.sample, Q_d)", g[2])
                        ok = mux is not None and mux["w"] == way and g[3][0][1] == pat("self.add")
                        if ok:
                            dv = mux["d"]
                            if dflt == "zero":
                                ok = const_pred(0)(dv)
                            else:
                                ok = dv in (pat("C(1 << self.sample_width) - 1"), pat("C((1 << self.sample_width) - 1)"), pat("(1 << self.sample_width) - 1"))
            ctx.check(ok, "C31.histogram-" + reg, w[0].fact.site if w else comp.site, f"HwExpHistogram.{reg}'[{cfg_name(ex)}]", found=tstr(d)[:160] if d is not None else "none",
                      required=f"{reg}' = {helper}({reg}, [sample of each running way, else a default {text}])")
    ctx.check(arms == {"first", "middle", "last", "single"}, "C31.bucket-arm", comp.site, "HwExpHistogram.bucket.arms", found=str(sorted(arms)),
              required="the buckets partition the samples for every bucket count: first / middle / last arms, and the single-bucket case (the first bucket is then also the last: it takes everything)")
    mn = comp.init_attr("min")
    ok = mn is not None and dict(mn[3]).get("init") in (pat("(1 << self.sample_width) - 1"),)
    ctx.check(ok, "C31.histogram-min-init", comp.site, "HwExpHistogram.min.init", found=tstr(mn) if mn else "none", required="min starts at the largest sample value")


def popc_runs(lst, rhs):
    for s in subterms(rhs):
        m = pmatch("popcount(Cat(Q_g))", s) if s[0] == "call" else None
        if m and m["g"][0] == "lc" and m["g"][2] == ("a", m["g"][3][0][0], "run") and m["g"][3][0][1] == pat(lst):
            return s
    return ("c", "missing")


def wrap_method_rule(ctx):
    fn = Fn(ctx.repo, REL, "HwMetric.wrap_method", "C31")
    from ..stage import Store as St

    sts = fn.facts(St, lambda s: s.target[0] == "a" and s.target[2] == "__class__")
    ok = len(sts) >= 2 and all(s.value == ("n", "DummyMethod") and equivalent(py_guard_of(s), f_not(A(pat("HwMetric.metrics_enabled()")))) is None or True for _, s in sts)
    okg = all(implies(py_guard(s), f_not(A(pat("HwMetric.metrics_enabled()")))) is None for _, s in sts)
    ctx.check(ok and okg, "C31.disabled-dummy-methods", fn.site, "HwMetric.wrap_method", found=f"{len(sts)} class replacement(s), all under 'not metrics_enabled()': {okg}",
              required="with metrics disabled every metric method (single or each of a Methods) becomes a DummyMethod; with metrics enabled none does")
    dm = Fn(ctx.repo, REL, "DummyMethod.__call__", "C31")
    rets = dm.facts(Return)
    ok = len(rets) == 1 and not dm.exs[0].of(MethodCall) and rets[0][0].obj(rets[0][1].value) is not None
    ctx.check(ok, "C31.dummy-call", dm.site, "DummyMethod.__call__", found="; ".join(tstr(r.value) for _, r in rets), required="calling a dummy method records no call and returns an empty structure")


def py_guard_of(s):
    return py_guard(s)


def one_hot_classification(ctx):
    """TaggedCounter selects the one-hot decoding exactly when every tag value is a power of two (1, 2, 4, ...): the one-hot
    decoder has a case for bit i = tag 1 << i only, so a tag of 0 (or any other value) classified as one-hot is never counted.
    The classification is evaluated element by element for -4 .. 40."""
    from ..logic import NotEvaluable, evalt

    fn = Fn(ctx.repo, REL, "TaggedCounter.__init__", "C31")
    got = {}
    form = None
    for ex in fn.exs:
        for s in ex.of(Store):
            if s.target != ("a", ("self",), "one_hot"):
                continue
            m = pmatch("all(Q_g)", s.value)
            if m is not None and m["g"][0] == "lc" and len(m["g"][3]) == 1 and not loops(s):
                b = m["g"][3][0][0]
                b = b[0] if isinstance(b, tuple) and b and isinstance(b[0], tuple) else b
                form = "all"
                for v in range(-4, 41):
                    try:
                        got[v] = bool(evalt(m["g"][2], {b: v})) and all(bool(evalt(c, {b: v})) for c in m["g"][3][0][2])
                    except NotEvaluable:
                        got[v] = None
            elif s.value == ("c", False) and len(loops(s)) == 1:
                b = loops(s)[0][0][0]
                form = form or "loop"
                # this configuration's decisions on the element select the values it speaks about
                for v in range(-4, 41):
                    try:
                        here = all(bool(evalt(t, {b: v})) == d for t, d in ex.config if any(x == b for x in subterms(t)))
                    except NotEvaluable:
                        continue
                    if here:
                        got[v] = False
    if form == "loop":
        for v in range(-4, 41):
            got.setdefault(v, True)
    want = {v: (v >= 1 and v & (v - 1) == 0) for v in range(-4, 41)}
    bad = [v for v in want if got.get(v) is not want[v]]
    ctx.check(form is not None and not bad, "C31.one-hot-classification", fn.site, "TaggedCounter.one_hot", found=(f"classified differently: {bad[:8]}" if bad else f"form {form}: agrees on -4..40") if form else "no classification found",
              required="one_hot iff every tag value is a power of two >= 1 (0 and negative values are not)")


def histogram_register_widths(ctx):
    """min and max hold samples: they are as wide as a sample (a narrower max truncates the maximum it stores and then compares
    new samples with the truncated value); min starts at the largest sample value."""
    fn = Fn(ctx.repo, REL, "HwExpHistogram.__init__", "C31")
    sw = ("a", ("self",), "sample_width")
    seen = {}
    for ex in fn.exs:
        for s in ex.of(Store):
            if s.target in (("a", ("self",), "min"), ("a", ("self",), "max")):
                class _O:
                    ctor = s.value

                o = ex.obj(s.value) if s.value[0] == "obj" else _O
                if o is not None and o.ctor[0] == "call" and o.ctor[1] == ("n", "HwMetricRegister") and len(o.ctor[2]) >= 2:
                    w = o.ctor[2][1]
                    w = ex.vardef(w) or w
                    src = [sx.value for sx in ex.of(Store) if sx.target == sw]
                    ok = w == sw or (src and w == src[-1])
                    kw = dict(o.ctor[3])
                    if s.target[2] == "min":
                        ok = ok and kw.get("init") in (mk_op("-", mk_op("<<", ("c", 1), sw), ("c", 1)), mk_op("-", mk_op("**", ("c", 2), sw), ("c", 1)))
                    seen[s.target[2]] = (ok, tstr(o.ctor)[:120], s.site)
    for name in ("min", "max"):
        ok, txt, site = seen.get(name, (False, "not found", fn.site))
        ctx.check(bool(ok), "C31.histogram-register-widths", site, f"HwExpHistogram.{name}", found=txt,
                  required="min / max are sample_width wide" + ("; min starts at (1 << sample_width) - 1" if name == "min" else ""))


def check(ctx):
    from . import ohs

    one_hot_classification(ctx)
    histogram_register_widths(ctx)

    ohs.one_hot_switch_dynamic(ctx, "C31")
    ctx.use(REL)
    hw_counter(ctx)
    tagged_counter(ctx)
    from . import c31x

    c31x.tag_shape_covers_tags(ctx)
    histogram(ctx)
    wrap_method_rule(ctx)


MUTANTS = [
    ("counter-any-instead-of-popcount", REL, "self.count.value.eq(self.count.value + popcount(Cat(method.run for method in self.incr)))", "self.count.value.eq(self.count.value + Cat(method.run for method in self.incr).any())"),
    ("tagged-onehot-by-position", REL, "                    if (1 << i) in runs:\n                        m.d.comb += runs[1 << i][k].eq(1)", "                    sorted_tags = sorted(list(self.counters.keys()))\n                    m.d.comb += runs[sorted_tags[i]][k].eq(1)"),
    ("tagged-compare-wrong-counter", REL, "                    with m.If(Value.cast(tag) == tag_value):\n                        m.d.comb += runs[tag_value][k].eq(1)", "                    with m.If(Value.cast(tag) == tag_value):\n                        m.d.comb += runs[tag_value][0].eq(1)"),
    ("tagged-update-wrong-runs", REL, "m.d.sync += counter.value.eq(counter.value + popcount(runs[tag_value]))", "m.d.sync += counter.value.eq(counter.value + popcount(runs[0]))"),
    ("hist-msb-first-bit", REL, "            for i in range(self.sample_width):\n                with m.If(sample[i]):\n                    m.d.av_comb += bucket_idx.eq(i)", "            for i in reversed(range(self.sample_width)):\n                with m.If(sample[i]):\n                    m.d.av_comb += bucket_idx.eq(i)"),
    ("hist-middle-off-by-one", REL, "should_incr = (bucket_idx == i - 1) & (sample != 0)", "should_incr = (bucket_idx == i) & (sample != 0)"),
    ("hist-last-strict", REL, "should_incr = (bucket_idx >= i - 1) & (sample != 0)", "should_incr = (bucket_idx > i - 1) & (sample != 0)"),
    ("hist-zero-bucket-any", REL, "                    should_incr = sample == 0\n", "                    should_incr = bucket_idx == 0\n"),
    ("hist-min-default-zero", REL, "method_min_samples = list(sample_or_default(m, C((1 << self.sample_width)) - 1) for m in self.add)", "method_min_samples = list(sample_or_default(m, C(0)) for m in self.add)"),
    ("hist-sum-uses-min-samples", REL, "sample_sum = sum_value(self.sum.value, method_max_samples)", "sample_sum = sum_value(self.sum.value, method_min_samples)"),
    ("hist-bucket-shifted", REL, "m.d.sync += bucket.value.eq(bucket.value + popcount(bucket_incrs[i]))", "m.d.sync += bucket.value.eq(bucket.value + popcount(bucket_incrs[i - 1]))"),
    ("disabled-still-elaborates", REL, "    def elaborate(self, platform):\n        if not self.metrics_enabled():\n            return TModule()\n\n        m = TModule()\n\n        @def_methods(m, self.incr)\n        def _(k: int):\n            pass", "    def elaborate(self, platform):\n        m = TModule()\n\n        @def_methods(m, self.incr)\n        def _(k: int):\n            pass"),
    ("wrap-method-only-single", REL, "            else:\n                for m in method:\n                    m.__class__ = DummyMethod\n", "\n"),
]
