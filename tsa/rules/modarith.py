"""Shared obligation for mod_incr / mod_add: the masking shortcut `(x) & (mod - 1)` is selected only for moduli for
which it is the modular reduction, i.e. powers of two.  Decided by evaluating the python-level decisions of the
configuration that returns the shortcut for every modulus 1..64 (integer evaluation of the extracted test)."""

from __future__ import annotations

from ..front import AnalysisError
from ..logic import NotEvaluable, evalt
from ..term import tstr

MODS = range(1, 65)


def shortcut_only_for_powers_of_two(ctx, rule: str, site: str, construct: str, ex, mod) -> bool:
    """`ex` is the configuration whose return is the masking shortcut; `mod` the modulus parameter term."""
    taken = []
    try:
        for m in MODS:
            if all(bool(evalt(t, {mod: m})) == v for t, v in ex.config):
                taken.append(m)
    except NotEvaluable as e:
        raise AnalysisError(rule, site, f"{construct}: cannot evaluate the branch test ({e})")
    wrong = [m for m in taken if m & (m - 1)]
    test = " and ".join(("" if v else "not ") + "(" + tstr(t) + ")" for t, v in ex.config) or "always"
    return ctx.check(not wrong, rule, site, construct, found=f"taken when {test}: moduli {taken[:8]}{'...' if len(taken) > 8 else ''}" + (f"; not powers of two: {wrong[:6]}" if wrong else ""),
                     required="the masking shortcut (x & (mod - 1)) is selected only for power-of-two moduli (evaluated for mod = 1..64)")
