"""Helpers shared by the rule packs."""

from __future__ import annotations

from typing import Callable, Iterable, Optional

from ..comp import (
    AV,
    RUN_GATED,
    TOP,
    Component,
    Table,
    Writer,
    bodies,
    calls_in_body,
    decision_table,
    domain_class,
    enclosing_body,
    facts_in_body,
    find_body,
    guard_of,
    is_sync,
    need_body,
    objs_in,
    relations,
    run_atom,
    strip_index,
    writers_of,
)
from ..front import AnalysisError
from ..logic import (
    NotEvaluable,
    Undecided,
    agree_bounded,
    atoms_of,
    equivalent,
    evalf,
    f_and,
    f_not,
    f_or,
    fstr,
    implies,
    lin_equal,
    lin_str,
    to_formula,
    to_lin,
    valuations,
    vstr,
)
from ..report import Ctx
from ..stage import BodyDef, Extraction, Helper, HwAssign, MethodCall, Relation, Return, Store, Submodule
from ..term import C, Term, attr, is_const, mentions, subterms, tstr

A = lambda t: ("atom", t)  # noqa: E731


def cfg_name(ex: Extraction) -> str:
    if not ex.config:
        return "default"
    return ",".join(f"{tstr(t)}={'T' if v else 'F'}" for t, v in ex.config)


def run_f(b: BodyDef):
    return A(run_atom(b))


def check_ready(ctx: Ctx, rule: str, comp: Component, ex: Extraction, b: BodyDef, required, what: str,
                constraint=None) -> bool:
    """Body's ready expression is propositionally equivalent to `required` (formula over role atoms)."""
    found = to_formula(b.ready)
    try:
        cex = equivalent(found, required, constraint)
    except Undecided as e:
        raise AnalysisError(rule, b.site, f"ready of {tstr(b.owner)} too large to decide: {e}")
    construct = f"{comp.clsname}.{_oname(b)}.ready[{cfg_name(ex)}]"
    return ctx.check(
        cex is None,
        rule,
        b.site,
        construct,
        found=fstr(found) + ("" if cex is None else f"  (differs at {vstr(cex)})"),
        required=f"{what}: {fstr(required)}",
    )


def _oname(b: BodyDef) -> str:
    o = strip_index(b.owner)
    if o[0] == "a":
        return o[2]
    return tstr(o)


def select_rows(table: Table, cond) -> list:
    """Rows of `table` compatible with `cond` (atoms of `cond` the table does not depend on are free)."""
    missing = [a for a in atoms_of(cond) if a not in table.atoms]
    out = []
    for v, w in table.rows:
        for mv in valuations(missing):
            vv = dict(v)
            vv.update(mv)
            if evalf(cond, vv):
                out.append((v, w))
                break
    return out


def is_value(w: Optional[Writer], pred: Callable[[Term], bool]) -> bool:
    return w is not None and pred(w.rhs)


def const_pred(v: int) -> Callable[[Term], bool]:
    def p(t: Term) -> bool:
        if t[0] == "c" and t[1] is not None and not isinstance(t[1], str) and int(t[1]) == v:
            return True
        if t[0] == "call" and t[1] in (("n", "C"), ("n", "Const")) and t[2] and t[2][0][0] == "c":
            return int(t[2][0][1]) == v
        return False

    return p


def term_pred(expected: Term) -> Callable[[Term], bool]:
    return lambda t: t == expected


def lin_pred(expected: Term) -> Callable[[Term], bool]:
    return lambda t: lin_equal(t, expected)


HOLD = "hold"


def check_table(ctx: Ctx, rule: str, site: str, construct: str, table: Table, cases: list, label: str = "") -> bool:
    """`cases` = [(cond formula, expectation, text)], expectation is HOLD or a predicate on the winning rhs.
    Every table row compatible with the condition must satisfy the expectation."""
    allok = True
    for cond, expect, text in cases:
        rows = select_rows(table, cond)
        bad = None
        for v, w in rows:
            good = (w is None) if expect == HOLD else is_value(w, expect)
            if not good:
                bad = (v, w)
                break
        cons = f"{construct}:{text}"
        if not rows:
            # the condition is unsatisfiable together with the table's atoms
            ctx.ok(rule, site, cons, "no row (vacuous)", text, nontrivial=False)
            continue
        if bad is None:
            ctx.ok(rule, site, cons, f"{len(rows)} rows agree", text)
        else:
            v, w = bad
            allok = False
            ctx.bad(
                rule,
                w.fact.site if w is not None else site,
                cons,
                found=f"under {vstr(v) or 'no guard'} the last writer gives {'hold' if w is None else tstr(w.rhs)}",
                required=text,
            )
    return allok


def no_effects(ctx: Ctx, rule: str, comp: Component, ex: Extraction, b: BodyDef, allow_calls: Iterable[Term] = ()):
    """F-EFF: the body has no register write, no run-gated combinational drive and no method call."""
    effs = []
    for f in facts_in_body(ex, b):
        if isinstance(f, HwAssign):
            if is_sync(f.domain) or domain_class(f.domain) == RUN_GATED:
                effs.append(f"{f.site} {tstr(f.domain)} += {tstr(f.lhs) if f.lhs else '?'}.eq(..)")
        elif isinstance(f, MethodCall):
            if f.callee not in allow_calls:
                effs.append(f"{f.site} call {tstr(f.callee)}")
    construct = f"{comp.clsname}.{_oname(b)}.effects[{cfg_name(ex)}]"
    ctx.check(not effs, rule, b.site, construct, found="; ".join(effs) or "none", required="no state change, no pulse, no call")


def flag_true(b: BodyDef, name: str) -> bool:
    v = b.kwargs.get(name)
    return v is not None and v[0] == "c" and v[1] is True


def has_relation(ex: Extraction, kind: str, subject: Term, obj: Term) -> bool:
    for r in ex.of(Relation):
        if r.kind == kind and r.subject == subject and obj in r.args:
            return True
    return False


def self_method(name: str) -> Term:
    return ("a", ("self",), name)


def one_config(comp: Component, rule: str) -> Extraction:
    if len(comp.configs) != 1:
        raise AnalysisError(rule, comp.site, f"{comp.clsname}: expected one static configuration, found {len(comp.configs)}")
    return comp.configs[0]


def returned_fields(b: BodyDef) -> dict:
    """Return value of a def_method body as {field: term}; a bare value is {'': term}."""
    r = b.ret
    if r is None:
        return {}
    if r[0] == "dict":
        out = {}
        for k, v in r[1]:
            if k[0] == "c":
                out[k[1]] = v
        return out
    return {"": r}


# ---------------------------------------------------------------------------
# bounded agreement of arithmetic / comparison normal forms

import itertools as _it


def box(params: dict, ranges: dict):
    """Valuation generator: `params` maps parameter atoms to candidate values; `ranges` maps variable atoms to
    (lo term, hi term) evaluated under the parameters (inclusive)."""

    def gen(atoms):
        pkeys = list(params)
        for pv in _it.product(*[params[k] for k in pkeys]):
            val = dict(zip(pkeys, pv))
            rkeys = list(ranges)
            spans = []
            ok = True
            for k in rkeys:
                lo, hi = ranges[k]
                lo_v = lo if isinstance(lo, int) else int(evalt(lo, val))
                hi_v = hi if isinstance(hi, int) else int(evalt(hi, val))
                if hi_v < lo_v:
                    ok = False
                    break
                spans.append(range(lo_v, hi_v + 1))
            if not ok:
                continue
            for rv in _it.product(*spans):
                v = dict(val)
                v.update(zip(rkeys, rv))
                missing = [a for a in atoms if a not in v]
                if missing:
                    raise NotEvaluable("free atoms " + ", ".join(tstr(a) for a in missing))
                yield v

    return gen


def check_agree(ctx: Ctx, rule: str, site: str, construct: str, found: Term, ref: Term, params: dict, ranges: dict, required: str) -> bool:
    """`found` and `ref` evaluate equally for every valuation of the declared ranges (bounded instantiation of the
    parameters).  An expression outside the evaluable fragment is an ANALYSIS-ERROR, never a pass."""
    from ..logic import evalt

    from ..logic import free_atoms

    known = list(params) + list(ranges)
    # atoms the reference does not know (other signals): they can certainly be 0 or 1.  A difference found with such
    # values is a genuine difference; agreement on {0, 1} alone decides nothing.
    extra = [a for a in free_atoms(found, known) if a not in known and a[0] != "c"]
    ranges2 = dict(ranges)
    params2 = dict(params)
    for a in extra:
        params2[a] = (False, True)  # one-bit signals: `~x` is their complement, not the integer complement
    try:
        cex = agree_bounded(found, ref, box(params2, ranges2), known + extra)
    except NotEvaluable as e:
        raise AnalysisError(rule, site, f"{construct}: cannot evaluate {tstr(found)[:120]} ({e})")
    if cex is None and extra:
        raise AnalysisError(rule, site, f"{construct}: {tstr(found)[:120]} depends on {', '.join(tstr(a) for a in extra)} which the reference does not constrain")
    return ctx.check(cex is None, rule, site, construct,
                     found=tstr(found)[:200] + ("" if cex is None else "  differs at " + ", ".join(f"{tstr(a)}={v}" for a, v in cex.items())),
                     required=required + f"  [= {tstr(ref)[:120]} on the declared ranges]")


from ..logic import evalt  # noqa: E402


def sole_writer_in_body(ctx: Ctx, rule: str, comp, ex, target: Term, body: BodyDef, what: str, rhs_pred=None, gated: bool = True, construct: str = "", sync=False):
    """All writers of `target` sit in `body`; when `gated`, in a domain that is guarded by the body's run.  By default the
    target is a wire: a writer in a clocked domain (same statement, one cycle late) does not count."""
    ws = writers_of(ex, target, sync)
    other = [w for w in writers_of(ex, target, "any") if w not in ws and all(w.fact is not x.fact for x in ws)]
    if other:
        ctx.bad(rule + ".domain", other[0].fact.site, (construct or f"{comp.clsname}.{tstr(target)}") + ".domain", found=f"{tstr(other[0].fact.domain)} += {tstr(other[0].fact.lhs)}.eq(...)",
                required=("a combinational pulse (same cycle as the call)" if not sync else "a registered update") + ": " + what)
    ok = bool(ws)
    detail = []
    for w in ws:
        inb = enclosing_body(ex, w.fact) is body
        dom_ok = (domain_class(w.fact.domain) == RUN_GATED) if gated else True
        rhs_ok = rhs_pred(w.rhs) if rhs_pred else True
        detail.append(f"{w.fact.site}: {tstr(w.fact.domain)} += {tstr(w.fact.lhs)}.eq({tstr(w.rhs)})")
        ok = ok and inb and dom_ok and rhs_ok and w.part is None
    ctx.check(ok, rule, ws[0].fact.site if ws else body.site, construct or f"{comp.clsname}.{tstr(target)}", found="; ".join(detail) or "no writer", required=what)
    return ws


def unguarded_call(ex, body: BodyDef, callee: Term):
    """The (single) call of `callee` made directly in `body`, not under any condition and without enable_call."""
    cs = [c for c in calls_in_body(ex, body) if c.callee == callee]
    if len(cs) != 1:
        return None, cs
    c = cs[0]
    extra = [fr for fr in c.frames if fr[0] in ("if", "elif", "else", "case", "default", "state", "switch", "for", "branch")]
    idx = [k for k, fr in enumerate(c.frames) if fr[0] == "body" and fr[1] == body.bodyid]
    inner = [fr for fr in c.frames[idx[0] + 1:] if fr[0] in ("if", "elif", "else", "case", "default", "state", "for", "branch", "avoid")] if idx else extra
    if inner or c.enable is not None:
        return None, cs
    return c, cs
