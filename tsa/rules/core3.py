"""Obligations on TModule / control paths / call-tree validation / rejection rules."""

from __future__ import annotations

import ast

from ..front import AnalysisError
from ..logic import atoms_of, conjuncts, equivalent, f_and, f_not, f_or, fstr, implies, lin_equal, to_formula, to_lin, vstr
from ..pm import find_all, has, pat, pmatch
from ..pyfacts import Fn, cname, is_call_to, loop_iters, loops, py_guard
from ..report import Ctx
from ..stage import BodyDef, Effect, Helper, HwAssign, Jump, MethodCall, Raise, Relation, Return, Store, Submodule
from ..term import Term, mentions, mk_op, subterms, tstr
from .core import A, BODY, MANAGER, METHOD, SCHED, SUGAR, TBASE, TMODULE, TRANSACTION, _cg, _edge_inserts, _fn, _implicit_loop_inserts

# semantic table: how each Amaranth control construct relates to the control tree
ENTER_TABLE = {
    "AvoidedIf": "PUSH",  # opens a new structure (a body's run guard)
    "If": "PUSH",  # opens a new structure
    "Switch": "PUSH",
    "FSM": "PUSH",
    "Elif": "ADD",  # continues the structure opened by the preceding If: next alternative
    "Else": "ADD",
    "Case": "ENTRY",  # alternative inside the enclosing Switch
    "Default": "ENTRY",
    "State": "ENTRY",  # alternative inside the enclosing FSM
}
# which amaranth construct must be opened on main_module / avoiding_module
MIRROR_TABLE = {
    "AvoidedIf": ("If", None),  # guards the main module only: av_comb ignores it
    "If": ("If", "If"),
    "Elif": ("Elif", "Elif"),
    "Else": ("Else", "Else"),
    "Switch": ("Switch", "Switch"),
    "Case": ("Case", "Case"),
    "Default": ("Default", "Default"),
    "FSM": ("FSM", None),
    "State": ("State", "If(ongoing)"),
}


def _guarded_managers(ctx: Ctx, rule: str) -> dict:
    ctx.use(TMODULE)
    ci = ctx.repo.cls(TMODULE, "TModule")
    out = {}
    for name, fi in ci.methods.items():
        for d in fi.node.decorator_list:
            if isinstance(d, ast.Call) and isinstance(d.func, ast.Name) and d.func.id == "_guardedcontextmanager":
                out[fi.node.name] = fi
    ctx.floor(rule, "guarded control managers", len(out), 9, ci.site)
    return out


def _frame_kind(fr) -> str:
    k = fr[0]
    return {"if": "If", "elif": "Elif", "else": "Else", "switch": "Switch", "case": "Case", "default": "Default", "fsm": "FSM", "state": "State", "avoid": "AvoidedIf"}.get(k, k)


def _frame_module(fr) -> str:
    # module name is the last element of control frames
    return fr[-1] if fr[0] in ("if", "elif", "else", "switch", "case", "default", "state", "avoid") else (fr[2] if fr[0] == "fsm" else "")


def tmodule_control_table(ctx: Ctx, pid: str, want_enter: bool, want_mirror: bool):
    """C01.a (enter types) / C06.b (mirroring of conditions into the avoiding module)."""
    rule_e = f"{pid}.enter-table"
    rule_m = f"{pid}.mirror-table"
    mgrs = _guarded_managers(ctx, rule_e if want_enter else rule_m)
    extra = set(mgrs) - set(ENTER_TABLE)
    missing = set(ENTER_TABLE) - set(mgrs)
    ctx.check(not extra and not missing, f"{pid}.control-managers-exhaustive", TMODULE, "TModule.control-managers",
              found=f"managers {sorted(mgrs)}", required=f"exactly {sorted(ENTER_TABLE)} (a manager outside the table has no path semantics)")
    for name, fi in sorted(mgrs.items()):
        if name not in ENTER_TABLE:
            continue
        fn = _fn(ctx, TMODULE, f"TModule.{name}", rule_e)
        ys = fn.facts(Effect, lambda e: is_call_to(e.call, "yield"))
        if len(ys) != 1:
            raise AnalysisError(rule_e, fn.site, f"TModule.{name}: expected exactly one yield, found {len(ys)}")
        ex, y = ys[0]
        enters = [fr for fr in y.frames if fr[0] == "with" and pmatch("self.path_builder.enter(Q_t)", fr[1])]
        if want_enter:
            found = [pmatch("self.path_builder.enter(Q_t)", fr[1])["t"] for fr in enters]
            ok = len(found) == 1 and found[0] == ("a", ("n", "EnterType"), ENTER_TABLE[name])
            ctx.check(ok, rule_e, y.site, f"TModule.{name}.enter", found=", ".join(tstr(t) for t in found) or "no path_builder.enter around the yield",
                      required=f"the yield is wrapped in path_builder.enter(EnterType.{ENTER_TABLE[name]})")
        if want_mirror:
            ctrl = [fr for fr in y.frames if fr[0] in ("if", "elif", "else", "switch", "case", "default", "fsm", "state", "avoid")]
            main = [fr for fr in ctrl if _frame_module(fr) == "self.main_module"]
            avoid = [fr for fr in ctrl if _frame_module(fr) == "self.avoiding_module"]
            other = [fr for fr in ctrl if fr not in main and fr not in avoid]
            want_main, want_av = MIRROR_TABLE[name]
            ok = len(main) == 1 and _frame_kind(main[0]) == want_main and not other
            detail = f"main: {[_frame_kind(f) for f in main]} avoiding: {[_frame_kind(f) for f in avoid]} other: {[_frame_kind(f) for f in other]}"
            params = [("p", fn.fi.qualname, k, a.arg) for k, a in enumerate(fn.fi.node.args.args)]
            if want_av is None:
                # the condition handed in reaches the main module unchanged
                ok = ok and not avoid
                if ok and main[0][0] in ("if", "avoid", "elif"):
                    ok = all(_is_param_or_star(x, fn) for x in _frame_args(main[0])) and bool(_frame_args(main[0]))
                    detail += f" args main={[tstr(x) for x in _frame_args(main[0])]}"
            elif want_av == "If(ongoing)":
                ok = ok and len(avoid) == 1 and avoid[0][0] == "if" and pmatch("self.fsm.ongoing(Q_n)", avoid[0][1]) is not None
                if ok:
                    ok = pmatch("self.fsm.ongoing(Q_n)", avoid[0][1])["n"] == main[0][2] == params[1]
            else:
                ok = ok and len(avoid) == 1 and _frame_kind(avoid[0]) == want_av
                if ok:
                    # same argument on both modules
                    ma, aa = _frame_args(main[0]), _frame_args(avoid[0])
                    ok = ma == aa and all(_is_param_or_star(x, fn) for x in ma)
                    detail += f" args main={[tstr(x) for x in ma]} avoiding={[tstr(x) for x in aa]}"
            ctx.check(ok, rule_m, y.site, f"TModule.{name}.mirror", found=detail,
                      required=f"main_module.{want_main} and " + ("nothing on avoiding_module" if want_av is None else f"avoiding_module.{want_av} with the same argument") + "; top_module untouched")


def _frame_args(fr) -> list:
    k = fr[0]
    if k in ("if", "elif", "avoid"):
        return [fr[1]]
    if k == "switch":
        return [fr[1]]
    if k in ("case", "default"):
        return list(fr[2])
    if k == "state":
        return [fr[2]]
    return []


def _is_param_or_star(t: Term, fn: Fn) -> bool:
    if t[0] == "p":
        return True
    if t[0] == "star" and t[1][0] == "p":
        return True
    return False


def tmodule_domains(ctx: Ctx, pid: str):
    """C06.a: av_comb -> avoiding_module.comb, top_comb -> top_module(m).comb, else main_module.<name>."""
    rule = f"{pid}.domain-map"
    fn = _fn(ctx, TMODULE, "_AvoidingModuleBuilderDomains.__getattr__", rule)
    name = fn.param(1)
    rets = fn.only(Return, lambda r: r.callid is None, rule, "returns")
    table = {}
    for ex, r in rets:
        g = py_guard(r)
        v = r.value
        m = pmatch("_AvoidingModuleBuilderDomain(Q_d)", v)
        d = m["d"] if m else v
        for key in ("av_comb", "top_comb"):
            atom = A(mk_op("==", ("c", key), name))
            if implies(g, atom) is None:
                table[key] = (d, r.site)
        if all(implies(g, f_not(A(mk_op("==", ("c", key), name)))) is None for key in ("av_comb", "top_comb")):
            table["*"] = (d, r.site)
    want = {
        "av_comb": pat("self._m.avoiding_module.d['comb']"),
        "top_comb": pat("top_module(self._m).d['comb']"),
        "*": ("i", pat("self._m.main_module.d"), name),
    }
    for key, w in want.items():
        got = table.get(key)
        ctx.check(got is not None and got[0] == w, rule, got[1] if got else fn.site, f"TModule.d.{key}", found=tstr(got[0]) if got else "no such arm", required=tstr(w))
    # the wrapper forwards `+=` to the wrapped Amaranth domain
    ia = _fn(ctx, TMODULE, "_AvoidingModuleBuilderDomain.__iadd__", rule)
    wi = _fn(ctx, TMODULE, "_AvoidingModuleBuilderDomain.__init__", rule)
    slot = [s.target for _, s in wi.facts(Store) if s.value == wi.param(1) and s.target[0] == "a" and s.target[1] == ("self",)]
    fw = [e for _, e in ia.facts(Effect) if pmatch("Q_d.__iadd__(Q_a)", e.call) is not None] + [s for _, s in ia.facts(Store) if s.aug == "+"]
    okf = False
    for f_ in fw:
        if isinstance(f_, Effect):
            mm_ = pmatch("Q_d.__iadd__(Q_a)", f_.call)
            okf = okf or (mm_["d"] in slot and mm_["a"] == ia.param(1) and py_guard(f_) is True)
        else:
            okf = okf or (f_.target in slot and f_.value == ia.param(1) and py_guard(f_) is True)
    rs_ = ia.facts(Return, lambda r: r.callid is None)
    ctx.check(okf and all(r.value == ("self",) for _, r in rs_) and bool(rs_), rule + ".forwarded", ia.site, "TModule.d.<domain> +=",
              found="; ".join(tstr(f_.call) if isinstance(f_, Effect) else f"{tstr(f_.target)} += {tstr(f_.value)}" for f_ in fw) or "the statements are not handed to the wrapped domain",
              required="`m.d.<domain> += stmts` adds the statements to the wrapped Amaranth domain and returns the wrapper")
    tm = _fn(ctx, "transactron/utils/amaranth_ext/functions.py", "top_module", rule) if "top_module" in ctx.repo.module("transactron/utils/amaranth_ext/functions.py").functions else None
    # submodule registration
    init = _fn(ctx, TMODULE, "TModule.__init__", rule)
    ok = True
    found = []
    ex0 = init.exs[0]
    main = ex0.self_alias.get("main_module")
    subs = [s for s in ex0.of(Submodule)]
    for attr_ in ("avoiding_module", "top_module"):
        alias = ex0.self_alias.get(attr_)
        hit = [s for s in subs if alias is not None and s.value == alias]
        found.append(f"{attr_}: {'submodule ' + tstr(hit[0].name) if hit else 'not registered'}")
        ok = ok and bool(hit) and main is not None and alias != main
    ctx.check(ok, f"{pid}.three-modules", init.site, "TModule.__init__.submodules", found=", ".join(found),
              required="avoiding_module and top_module are submodules of main_module (their statements reach the design)")
    el = _fn(ctx, TMODULE, "TModule.elaborate", rule)
    rets = el.only(Return, lambda r: r.callid is None, rule, "return")
    ctx.check(rets[0][1].value == pat("self.main_module"), f"{pid}.three-modules", el.site, "TModule.elaborate", found=tstr(rets[0][1].value), required="elaborates to main_module")


def _alias_of(fn: Fn, v: Term, attr_: str) -> bool:
    for ex in fn.exs:
        for s in ex.of(Store):
            if s.target == ("a", ("self",), attr_) and s.value == v:
                return True
    return False


def top_module_helper(ctx: Ctx, pid: str):
    rule = f"{pid}.top-module"
    for rel, mi in ctx.repo.modules.items():
        if "top_module" in mi.functions and rel.startswith("transactron/"):
            fn = _fn(ctx, rel, "top_module", rule)
            rets = fn.facts(Return, lambda r: r.callid is None)
            ok = any(has("Q_m.top_module", r.value) or has("Q_m._top_module", r.value) for _, r in rets)
            ctx.check(ok, rule, fn.site, "top_module()", found="; ".join(tstr(r.value) for _, r in rets), required="returns the TModule's top module for a TModule")
            return
    raise AnalysisError(rule, "transactron/utils/amaranth_ext", "top_module helper vanished")


# ---------------------------------------------------------------------------
# control path builder / exclusivity predicates


def ctrl_path_builder(ctx: Ctx, pid: str):
    """C01.b: transfer functions of CtrlPathBuilder.enter."""
    rule = f"{pid}.path-builder"
    fn = _fn(ctx, TMODULE, "CtrlPathBuilder.enter", rule)
    et = fn.param(1)

    def arm(kind):
        return A(("match", et, ("a", ("n", "EnterType"), kind)))

    apps = fn.facts(Effect, lambda e: pmatch("self.ctrl_path.append(Q_e)", e.call) is not None)
    stores = fn.facts(Store)
    by = {"ADD": [], "PUSH": [], "ENTRY": []}
    for ex, e in apps:
        g = py_guard(e)
        for k in by:
            if implies(g, arm(k)) is None:
                by[k].append((g, pmatch("self.ctrl_path.append(Q_e)", e.call)["e"], e))
    # ADD: previous with alt + 1
    ok = len(by["ADD"]) == 1
    if ok:
        g, v, e = by["ADD"][0]
        m = pmatch("replace(self.previous, alt=Q_x)", v)
        ok = m is not None and lin_equal(m["x"], pat("self.previous.alt + 1"))
    ctx.check(ok, rule + ".add", by["ADD"][0][2].site if by["ADD"] else fn.site, "CtrlPathBuilder.enter[ADD]", found="; ".join(tstr(v) for _, v, _ in by["ADD"]) or "no append",
              required="append(replace(previous, alt=previous.alt + 1)): next alternative of the same structure (same par)")
    # PUSH: new structure; par = previous.par + 1 if a sibling precedes else default
    ok = len(by["PUSH"]) == 2
    detail = "; ".join(f"{tstr(v)} if {fstr(g)}" for g, v, _ in by["PUSH"])
    if ok:
        prev_none = A(pat("self.previous is None"))
        got = {}
        for g, v, e in by["PUSH"]:
            if implies(g, prev_none) is None:
                got["first"] = v
            if implies(g, f_not(prev_none)) is None:
                got["next"] = v
        m = pmatch("PathEdge(par=Q_x)", got.get("next", ("c", None)))
        ok = got.get("first") == pat("PathEdge()") and m is not None and lin_equal(m["x"], pat("self.previous.par + 1"))
    ctx.check(ok, rule + ".push", by["PUSH"][0][2].site if by["PUSH"] else fn.site, "CtrlPathBuilder.enter[PUSH]", found=detail or "no append",
              required="append(PathEdge(par=previous.par + 1)) after a sibling structure, PathEdge() otherwise: parallel structures get distinct par")
    # ENTRY: replace last edge with alt + 1, no push
    ent = [(ex, s) for ex, s in stores if s.target == pat("self.ctrl_path[-1]") and implies(py_guard(s), arm("ENTRY")) is None]
    ok = len(ent) == 1 and not by["ENTRY"]
    if ok:
        m = pmatch("replace(self.ctrl_path[-1], alt=Q_x)", ent[0][1].value)
        ok = m is not None and lin_equal(m["x"], pat("self.ctrl_path[-1].alt + 1"))
    ctx.check(ok, rule + ".entry", ent[0][1].site if ent else fn.site, "CtrlPathBuilder.enter[ENTRY]", found="; ".join(tstr(s.value) for _, s in ent) or "no store",
              required="ctrl_path[-1] = replace(ctrl_path[-1], alt=alt + 1): next alternative inside the enclosing Switch/FSM, nothing pushed")
    # exit: PUSH/ADD pop what they pushed and remember it; ENTRY pops nothing
    pops = [(ex, s) for ex, s in stores if s.target == pat("self.previous") and pmatch("self.ctrl_path.pop()", s.value) is not None]
    ok = len(pops) >= 1
    detail = "; ".join(f"previous = pop() if {fstr(py_guard(s))} in {[fr[0] for fr in s.frames if fr[0] in ('finally', 'try')]}" for _, s in pops)
    if ok:
        ex, s = pops[0]
        g = py_guard(s)
        ats = atoms_of(g)
        ok = any(fr[0] == "finally" for fr in s.frames) and len(ats) == 1
        if ok:
            a = ats[0]
            m = pmatch("Q_t in Q_l", a)
            ok = m is not None and m["t"] == et and m["l"][0] in ("list", "tuple", "set") and set(m["l"][1:]) == {("a", ("n", "EnterType"), "PUSH"), ("a", ("n", "EnterType"), "ADD")}
            ok = ok and equivalent(g, A(a)) is None
    ctx.check(ok, rule + ".exit", pops[0][1].site if pops else fn.site, "CtrlPathBuilder.enter.exit", found=detail or "no pop",
              required="on every exit, PUSH and ADD (and only they) pop the edge they pushed and keep it as `previous`")
    # path snapshot
    bp = _fn(ctx, TMODULE, "CtrlPathBuilder.build_ctrl_path", rule)
    rets = bp.only(Return, lambda r: r.callid is None, rule, "return")
    ctx.check(rets[0][1].value == pat("CtrlPath(self.module, tuple(self.ctrl_path))"), rule + ".snapshot", bp.site, "CtrlPathBuilder.build_ctrl_path",
              found=tstr(rets[0][1].value), required="CtrlPath(module id, immutable copy of the current path)")
    ti = _fn(ctx, TMODULE, "TModule.__init__", rule)
    uid_ok = any(s.target == pat("self.path_builder") and pmatch("CtrlPathBuilder(self.uid)", _val(ex, s.value)) is not None for ex, s in ti.facts(Store))
    # self.uid is read from a counter stored on the *class* and that same class attribute is incremented
    src = [s.value for _, s in ti.facts(Store) if s.target == pat("self.uid")]
    counter = src[0] if src else None
    class_level = counter is not None and counter[0] == "a" and counter[1][0] == "n" and counter[1][1][:1].isupper()
    inc_ok = class_level and any(s.target == counter and s.aug == "+" and s.value == ("c", 1) and not [fr for fr in s.frames if fr[0] in ("py", "for")] for _, s in ti.facts(Store))
    ctx.check(uid_ok and inc_ok, rule + ".module-id", ti.site, "TModule.__init__.uid", found=f"builder gets uid: {uid_ok}; uid source {tstr(counter) if counter else None}; class-level counter incremented: {inc_ok}",
              required="every TModule has its own id: paths of different modules are never exclusive")


def _val(ex, t: Term) -> Term:
    o = ex.obj(t)
    if o is not None:
        return o.ctor
    return ex.vardef(t) or t


def exclusive_with(ctx: Ctx, pid: str):
    """C01.c: CtrlPath.exclusive_with."""
    rule = f"{pid}.exclusive-with"
    fn = _fn(ctx, TMODULE, "CtrlPath.exclusive_with", rule)
    other = fn.param(1)
    finals = fn.facts(Return, lambda r: r.callid is None and not loops(r))
    ctx.floor(rule, "final returns", len(finals), 1, fn.site)
    # the common prefix accumulator: object appended to in the loop
    acc = None
    for ex, e in fn.facts(Effect):
        m = pmatch("Q_l.append(Q_x)", e.call)
        if m and loops(e):
            acc = (ex, e, m)
    if acc is None:
        raise AnalysisError(rule, fn.site, "common-prefix accumulation loop not found", missing="common-prefix accumulation loop not found")
    ex_a, e_a, m_a = acc
    (b,), it = loops(e_a)[0]
    ok_zip = it == pat("zip(self.path, other.path)") or pmatch("zip(self.path, Q_o.path)", it) == {"o": other}
    ea, eb = ("i", pat("self.path"), b), ("i", ("a", other, "path"), b)
    same = A(mk_op("==", ea, eb))
    ctx.check(ok_zip and equivalent(py_guard(e_a), same) is None and m_a["x"] in (ea, eb), rule + ".prefix-scan", e_a.site, "CtrlPath.exclusive_with.scan",
              found=f"{tstr(e_a.call)} if {fstr(py_guard(e_a))} over {tstr(it)}", required="equal leading edges are collected pairwise from both paths")
    # a first difference with different `par` returns False inside the loop
    par_eq = A(mk_op("==", ("a", ea, "par"), ("a", eb, "par")))
    early = [(ex, r) for ex, r in fn.facts(Return, lambda r: r.callid is None and loops(r))]
    ok = any(to_formula(r.value) is False and equivalent(py_guard(r), f_and(f_not(same), f_not(par_eq))) is None for _, r in early)
    ctx.check(ok, rule + ".parallel-structures", early[0][1].site if early else fn.site, "CtrlPath.exclusive_with.par",
              found="; ".join(f"return {tstr(r.value)} if {fstr(py_guard(r))}" for _, r in early) or "no early return",
              required="first differing edges belonging to different parallel structures (par differs) => not exclusive")
    brk = fn.facts(Jump, lambda j: j.kind == "break")
    ok = any(equivalent(py_guard(j), f_and(f_not(same), par_eq)) is None for _, j in brk)
    ctx.check(ok, rule + ".stop-at-difference", brk[0][1].site if brk else fn.site, "CtrlPath.exclusive_with.break",
              found="; ".join(f"break if {fstr(py_guard(j))}" for _, j in brk) or "no break", required="the scan stops at the first differing edge of the same structure")
    # final: module equal, divergence strictly inside both paths
    objs = {m_a["l"]}
    okf = False
    detail = ""
    for ex, r in finals:
        f = to_formula(r.value)
        detail = fstr(f)
        cp_len = None
        for a in atoms_of(f):
            for mm in find_all("len(Q_x)", a):
                if mm["x"][0] in ("obj", "list"):
                    cp_len = ("call", ("n", "len"), (mm["x"],), ())
        if cp_len is None:
            continue
        want = f_and(
            A(mk_op("==", pat("self.module"), ("a", other, "module"))),
            f_not(A(mk_op("==", cp_len, pat("len(self.path)")))),
            f_not(A(mk_op("==", cp_len, ("call", ("n", "len"), (("a", other, "path"),), ())))),
        )
        if equivalent(f, want) is None:
            okf = True
    ctx.check(okf, rule + ".result", finals[0][1].site, "CtrlPath.exclusive_with.result", found=detail,
              required="same module and the common prefix is a proper prefix of both paths (neither path contains the other)")


HELPERS = "transactron/utils/transactron_helpers.py"


def longest_common_prefix_helper(ctx: Ctx, pid: str):
    """The helper both exclusivity predicates rest on: the result is a *common* prefix that stops at the first
    difference and is never longer than the shortest sequence."""
    rule = f"{pid}.longest-common-prefix"
    fn = _fn(ctx, HELPERS, "longest_common_prefix", rule)
    seqs = ("p", fn.fi.qualname, "*", "seqs")
    rets = fn.only(Return, lambda r: r.callid is None, rule, "returns")
    early = [(ex, r) for ex, r in rets if loops(r)]
    final = [(ex, r) for ex, r in rets if not loops(r)]
    ok = False
    detail = "; ".join(f"return {tstr(r.value)} if {fstr(py_guard(r))}" for _, r in early) or "no early return"
    for ex, r in early:
        lp = loops(r)
        m = pmatch("Q_s[Q_k][:Q_i]", r.value)
        g = py_guard(r)
        ats = atoms_of(g)
        if m and m["s"] == seqs and len(lp) == 1 and pmatch("enumerate(zip(*Q_s))", lp[0][1]) == {"s": seqs} and m["i"] == lp[0][0][0] and len(ats) == 1:
            diff = pmatch("1 < len(set(Q_g))", ats[0])
            ok = diff is not None and diff["g"] == ("i", ("call", ("n", "zip"), (("star", seqs),), ()), lp[0][0][0]) and equivalent(g, A(ats[0])) is None
    ctx.check(ok, rule + ".first-difference", early[0][1].site if early else fn.site, "longest_common_prefix.scan", found=detail,
              required="at the first position where the sequences differ, return the elements before it")
    okf = False
    shape = "none"
    for ex, r in final:
        v = r.value
        shape = tstr(v)
        m = pmatch("min(Q_s, key=Q_k)", v)
        if m and m["s"] == seqs and m["k"][0] == "lam":
            clo = ex.closures[m["k"][1]]
            src = ast.unparse(clo.node.body) if isinstance(clo.node, ast.Lambda) else ""
            argn = clo.node.args.args[0].arg if isinstance(clo.node, ast.Lambda) and clo.node.args.args else ""
            okf = src.replace(" ", "") == f"len({argn})"
        elif m and m["s"] == seqs and m["k"] == ("n", "len"):
            okf = True
        elif pmatch("Q_s[Q_c]", v) or pmatch("max(Q_s, key=Q_k)", v):
            okf = False  # an input sequence returned as is / the longest one: not a common prefix in general
        else:
            raise AnalysisError(rule, r.site, f"final return {shape} not in a recognised form")
    ctx.check(okf, rule + ".shortest", final[0][1].site if final else fn.site, "longest_common_prefix.no-difference", found=f"return {shape}",
              required="when no position differs the common prefix is the shortest sequence (min by length)")


def call_paths_exclusive(ctx: Ctx, pid: str):
    """C01.d."""
    longest_common_prefix_helper(ctx, pid)
    rule = f"{pid}.call-paths-exclusive"
    fn = _fn(ctx, MANAGER, "call_paths_exclusive", rule)
    p1, p2 = fn.param(0), fn.param(1)
    rets = fn.only(Return, lambda r: r.callid is None, rule, "returns")
    lcp = ("call", ("n", "len"), (("call", ("n", "longest_common_prefix"), (p1, p2), ()),), ())
    lcp_alt = ("call", ("n", "len"), (("call", ("n", "longest_common_prefix"), (p2, p1), ()),), ())
    ok_false = ok_deleg = False
    detail = []
    for ex, r in rets:
        g = py_guard(r)
        detail.append(f"return {tstr(r.value)} if {fstr(g)}")
        for L in (lcp, lcp_alt):
            pre = f_or(A(mk_op("==", L, ("call", ("n", "len"), (p1,), ()))), A(mk_op("==", L, ("call", ("n", "len"), (p2,), ()))))
            if to_formula(r.value) is False and equivalent(g, pre) is None:
                ok_false = True
            m = pmatch("Q_a[Q_n].exclusive_with(Q_b[Q_n])", r.value)
            if m and {m["a"], m["b"]} == {p1, p2} and m["n"] == L:
                gr = fn.reach(Return, lambda x, v=r.value: x.value == v)
                if equivalent(gr, f_not(pre)) is None:
                    ok_deleg = True
    ctx.check(ok_false, rule + ".prefix", fn.site, "call_paths_exclusive.prefix", found="; ".join(detail),
              required="False when one call path is a prefix of the other (a call made inside the other's body)")
    ctx.check(ok_deleg, rule + ".delegate", fn.site, "call_paths_exclusive.delegate", found="; ".join(detail),
              required="otherwise exclusive_with of the elements at the same index (the common-prefix length) of both paths")


# ---------------------------------------------------------------------------
# rejection rules (C11)


def _always_raises(ctx: Ctx, rel: str, qual: str, rule: str) -> bool:
    fn = _fn(ctx, rel, qual, rule)
    for ex in fn.exs:
        rs = ex.of(Raise)
        if not rs or any(fr[0] in ("for", "if") for fr in rs[-1].frames):
            return False
    return True


def mm_validate_call_tree(ctx: Ctx, pid: str):
    """C11.a/b/f: double call and recursion detection on every root."""
    rule = f"{pid}.call-tree-validation"
    fn = _fn(ctx, MANAGER, "MethodMap.__init__.validate_root_call_tree.rec_root", rule)
    names = [a.arg for a in fn.fi.node.args.args]
    if len(names) != 3:
        raise AnalysisError(rule, fn.site, "rec_root no longer has (source, ancestors, call_path)")
    source, ancestors, call_path = (fn.param(k) for k in range(3))
    cyc = fn.facts(Effect, lambda e: is_call_to(e.call, "report_cycle"))
    dbl = fn.facts(Effect, lambda e: is_call_to(e.call, "report_double_call"))
    ctx.check(_always_raises(ctx, MANAGER, "MethodMap.__init__.report_cycle", rule) and _always_raises(ctx, MANAGER, "MethodMap.__init__.report_double_call", rule),
              rule + ".reports-raise", fn.site, "MethodMap.report_*", found="report_cycle / report_double_call", required="both reports end in `raise`")
    ctx.floor(rule, "recursion reports", len(cyc), 1, fn.site)
    ctx.floor(rule, "double-call reports", len(dbl), 1, fn.site)
    for ex, e in cyc:
        g = py_guard(e)
        meth = e.call[2][0]
        md = ex.vardef(meth) or meth
        lp = loops(e)
        ok = len(lp) == 2 and pmatch("Q_s.method_calls.items()", lp[0][1]) == {"s": source} and pmatch("MBody(Q_x[0]._body)", md) == {"x": lp[0][0][0]}
        want = A(("op", "in", meth, ancestors))
        ctx.check(ok and equivalent(g, want) is None, f"{pid}.recursion", e.site, "rec_root.report_cycle", found=f"if {fstr(g)} over {' / '.join(tstr(i) for i in loop_iters(e))}",
                  required="raise exactly when the called method is already among the ancestors of this call, for every call of the body")
    for ex, e in dbl:
        g = py_guard(e)
        meth = e.call[2][1]
        lp = loops(e)
        ok_dom = len(lp) == 3 and pmatch("Q_cs[Q_m]", lp[2][1]) is not None and pmatch("Q_cs[Q_m]", lp[2][1])["m"] == meth
        ok = False
        detail = fstr(g)
        if ok_dom:
            (ob,), _ = lp[2]
            (cb,), _ = lp[1]
            sights = pmatch("Q_cs[Q_m]", lp[2][1])["cs"]
            new_path = ("tuple", ("star", call_path), ("i", cb, ("c", 0)))
            excl = [a for a in atoms_of(g) if is_call_to(a, "call_paths_exclusive")]
            # The two sightings are one call when a nonexclusive method occurs in both ancestor chains (the called method
            # included): its body runs once however often it is reached (F26).  The acceptance clause of C11 needs that
            # test; for the safety properties the stricter test of the called method alone is enough.
            new_chain = ("tuple", meth, ("star", ancestors))
            old_chain = ("i", ob, ("c", 0))
            nonex = None
            for a in atoms_of(g):
                ma = pmatch("any(Q_g)", a)
                if ma is not None and ma["g"][0] == "lc" and len(ma["g"][3]) == 1:
                    b, it, conds = ma["g"][3][0]
                    it = ex.vardef(it) or it
                    mc = [pmatch("Q_x in Q_c", c) for c in conds]
                    if ma["g"][2] == ("a", b, "nonexclusive") and len(mc) == 1 and mc[0] is not None and mc[0]["x"] == b:
                        other = ex.vardef(mc[0]["c"]) or mc[0]["c"]
                        if {it, other} == {new_chain, old_chain}:
                            nonex = A(a)
                elif a == ("a", meth, "nonexclusive") and pid != "C11":
                    nonex = A(a)
            if len(excl) == 1 and nonex is not None:
                args = set(excl[0][2])
                ok = equivalent(g, f_and(f_not(nonex), f_not(A(excl[0])))) is None and args == {("i", ob, ("c", 1)), new_path}
            # every sighting is recorded: call_sights[method].append((new_ancestors, new_call_path)) unconditionally
            recs = fn.facts(Effect, lambda x: pmatch("Q_cs[Q_m].append((Q_a, Q_p))", x.call) is not None)
            ok_rec = any(pmatch("Q_cs[Q_m].append((Q_a, Q_p))", x.call)["cs"] == sights and pmatch("Q_cs[Q_m].append((Q_a, Q_p))", x.call)["m"] == meth
                         and pmatch("Q_cs[Q_m].append((Q_a, Q_p))", x.call)["p"] == new_path and py_guard(x) is True and len(loops(x)) == 2 for _, x in recs)
            ctx.check(ok_rec, f"{pid}.double-call.sightings", fn.site, "rec_root.call_sights", found="; ".join(tstr(x.call)[:160] for _, x in recs),
                      required="every call is recorded as a sighting of its method (unconditionally), with its own call path")
        ctx.check(ok_dom and ok, f"{pid}.double-call", e.site, "rec_root.report_double_call", found=detail,
                  required="raise exactly when the call path is not exclusive with an earlier sighting of the same method and no nonexclusive method (the called one included) occurs in the ancestor chains of both sightings")
    # descent after the checks, for every call
    desc = fn.facts(Effect, lambda e: is_call_to(e.call, "rec_root"))
    ok = any(py_guard(e) is True and len(loops(e)) == 2 and e.call[2][2] == ("tuple", ("star", call_path), ("i", loops(e)[1][0][0], ("c", 0))) for _, e in desc)
    ctx.check(ok, rule + ".descent", fn.site, "rec_root.descent", found="; ".join(tstr(e.call)[:160] for _, e in desc), required="the whole call tree below every call is visited")
    # applied to every method and transaction
    init = _fn(ctx, MANAGER, "MethodMap.__init__", rule)
    apps = init.facts(Effect, lambda e: is_call_to(e.call, "rec_root") or is_call_to(e.call, "validate_root_call_tree"))
    ok = False
    for ex, e in apps:
        lp = loops(e)
        if lp and is_call_to(lp[0][1], "chain") and {init.param(1), init.param(2)} <= set(lp[0][1][2]) and py_guard(e) is True:
            ok = True
    ctx.check(ok, f"{pid}.validation-applied", init.site, "MethodMap.__init__.validate-all", found="; ".join(f"{tstr(e.call)[:80]} over {[tstr(i) for i in loop_iters(e)]}" for _, e in apps) or "none",
              required="validate_root_call_tree for every method and every transaction")


def mgr_rejections(ctx: Ctx, pid: str):
    """C11.c,d,e: cyclic priorities, single_caller, ready-dependency deadlock."""
    rule = f"{pid}.rejections"
    fn = _fn(ctx, MANAGER, "TransactionManager.elaborate", rule)
    raises = fn.facts(Raise)
    sc = dl = None
    for ex, r in raises:
        g = py_guard(r)
        for a in atoms_of(g):
            if pmatch("Q_m.single_caller", a):
                sc = (ex, r, g)
            if pmatch("Q_d in Q_g[Q_t]", a):
                dl = (ex, r, g)
    ok = False
    if sc:
        ex, r, g = sc
        lp = loops(r)
        meth = lp[-1][0][0] if lp else None
        lens = [a for a in atoms_of(g) if has("len(Q_x)", a)]
        ok = len(lp) == 1 and pmatch("Q_mm.called_methods", lp[0][1]) is not None and len(lens) == 1
        if ok:
            a = lens[0]
            m = pmatch("1 < len(Q_x[Q_m])", a)
            ok = m is not None and m["m"] == meth and equivalent(g, f_and(A(("a", meth, "single_caller")), A(a))) is None
    ctx.check(ok, f"{pid}.single-caller", sc[1].site if sc else fn.site, "TransactionManager.elaborate.single_caller", found=fstr(sc[2]) if sc else "no such raise",
              required="raise exactly when a single_caller method has more than one recorded call")
    # ... "called from two transactions" also when there is a single call site inside a method that two transactions
    # call: the transactions reaching the method are counted, before simultaneous transactions are merged (F13)
    sim = _fn(ctx, MANAGER, "TransactionManager._simultaneous", rule)
    ok2 = False
    det2 = "no rejection by the number of transactions reaching the method"
    for ex2, r2 in sim.facts(Raise):
        g2 = py_guard(r2)
        lp2 = loops(r2)
        if len(lp2) != 1 or pmatch("Q_mm.methods", lp2[0][1]) is None:
            continue
        meth2 = lp2[0][0][0]
        at2 = atoms_of(g2)
        cnt = [a for a in at2 if pmatch("1 < len(Q_mm.transactions_for(Q_m))", a) is not None or pmatch("1 < len(Q_mm.transactions_by_method[Q_m])", a) is not None]
        det2 = fstr(g2)[:160]
        if len(cnt) == 1 and ("a", meth2, "single_caller") in at2 and equivalent(g2, f_and(A(("a", meth2, "single_caller")), A(cnt[0]))) is None:
            mm_ = pmatch("1 < len(Q_mm.transactions_for(Q_m))", cnt[0]) or pmatch("1 < len(Q_mm.transactions_by_method[Q_m])", cnt[0])
            mmd = sim.exs[0].vardef(mm_["mm"]) or mm_["mm"]
            ok2 = mm_["m"] == meth2 and pmatch("MethodMap(self.transactions, self.methods)", mmd) is not None
    ctx.check(ok2, f"{pid}.single-caller.transactions", sim.site, "TransactionManager._simultaneous.single_caller", found=det2,
              required="raise when more than one transaction reaches a single_caller method (counted on the method map of the design as written, before merging)")
    ok = False
    if dl:
        ex, r, g = dl
        lp = loops(r)
        ok = len(lp) == 2 and pmatch("Q_mm.transactions", lp[0][1]) is not None
        if ok:
            (tb,), _ = lp[0]
            (db,), dit = lp[1]
            md = pmatch("Q_rd[Q_t]", dit)
            a = atoms_of(g)
            m = pmatch("Q_d in Q_g[Q_t]", a[0]) if len(a) == 1 else None
            ok = (md is not None and md["t"] == tb and m is not None and m["d"] == db and m["t"] == tb
                  and pmatch("TransactionManager._conflict_graph(Q_mm)[0]", m["g"]) is not None and equivalent(g, A(a[0])) is None)
    ctx.check(ok, f"{pid}.deadlock", dl[1].site if dl else fn.site, "TransactionManager.elaborate.deadlock", found=fstr(dl[2]) if dl else "no such raise",
              required="raise exactly when a transaction conflicts with a transaction it is ready-dependent on")
    # cyclic priorities: order = topological sort of the priority graph (raises on cycles); all prioritised relations reach it
    cg, cgr, pgr, porder = _cg(ctx, rule)
    g = ctx.__dict__["_topo_arg"]
    ctx.check(pgr is not None and mentions(g, pgr), f"{pid}.cyclic-priorities", cg.site, "_conflict_graph.toposort", found=tstr(g),
              required="the order is a topological sort of the priority graph (networkx raises NetworkXUnfeasible on a cycle)")
    # def order warning raise for schedule_before defined afterwards (documented rejection)
    # (not part of the property; no obligation)


def cg_self_pair(ctx: Ctx, pid: str):
    """C02.e (contradiction rule): the implicit-edge loop excludes `t1 is t2`; the relation loop must neutralise or
    reject the case where one transaction is on both sides of a *conflict* relation, because schedulers only ever
    look at other transactions."""
    rule = f"{pid}.self-conflict"
    fn, cgr, pgr, _ = _cg(ctx, rule)
    impl = _implicit_loop_inserts(fn, cgr)
    rel = [x for x in _edge_inserts(fn, cgr) if x not in impl and len(loops(x[1])) == 3]
    if not impl or not rel:
        raise AnalysisError(rule, fn.site, "conflict edge sites not found", missing="conflict edge sites not found")
    ex, e, x, y = impl[0]
    (b1,), _ = loops(e)[1]
    (b2,), _ = loops(e)[2]
    sibling_guards_self = implies(py_guard(e), f_not(A(mk_op("is", b1, b2)))) is None
    ex2, e2, x2, y2 = rel[0]
    (bs,), _ = loops(e2)[1]
    (be,), _ = loops(e2)[2]
    g2 = py_guard(e2)
    handles = implies(g2, f_not(A(mk_op("is", bs, be)))) is None or implies(g2, f_not(A(mk_op("==", bs, be)))) is None
    # alternatively a raise for the self pair
    rejects = False
    for _, r in fn.facts(Raise):
        gr = py_guard(r)
        if any(pmatch("Q_a is Q_b", a) or pmatch("Q_a == Q_b", a) for a in atoms_of(gr)) and len(loops(r)) == 3:
            rejects = True
    ctx.check((not sibling_guards_self) or handles or rejects, rule, e2.site, "_conflict_graph.relation-loop.self-pair",
              found=f"implicit loop guards t1 is not t2: {sibling_guards_self}; relation loop guard: {fstr(g2)}; rejects self pair: {rejects}",
              required="a transaction that calls both sides of an add_conflict relation must not run both (edge to itself is ignored by every scheduler)")
