"""C14 - FIFO and BasicFifo behave as bounded queues (wrapper pulses; BasicFifo <-> allocator/memory wiring;
readiness and clear semantics through the CircularAllocator obligations of C27)."""

from .common import *
from . import excl
from ..pm import pmatch, pat
from . import C27

CONN = "transactron/lib/connectors.py"
FIFO = "transactron/lib/fifo.py"


def check_fifo_wrapper(ctx):
    ctx.use(CONN)
    comp = Component(ctx.repo, CONN, "FIFO", rule="C14")
    comp.require_modelled("C14")
    ex = one_config(comp, "C14")
    w, r = need_body(ex, "write", "C14", comp.site), need_body(ex, "read", "C14", comp.site)
    excl.exclusive(ctx, "C14", "FIFO", w, r)
    subs = [s for s in ex.of(Submodule)]
    fifo = subs[0].value if subs else None
    o = ex.obj(fifo) if fifo else None
    ok = o is not None and pmatch("self.fifoType(depth=self.depth, width=self.width)", o.ctor) is not None
    ctx.check(ok, "C14.fifo-instance", comp.site, "FIFO.fifo", found=tstr(o.ctor) if o else "none", required="the wrapped FIFO has the requested width and depth and is a submodule")
    if fifo is None:
        return
    for body, rdy, en, nm in ((w, "w_rdy", "w_en", "write"), (r, "r_rdy", "r_en", "read")):
        check_ready(ctx, f"C14.fifo-{nm}-ready", comp, ex, body, A(("a", fifo, rdy)), f"{nm} ready iff the FIFO reports {rdy}")
        sole_writer_in_body(ctx, f"C14.fifo-{nm}-pulse", comp, ex, ("a", fifo, en), body, f"{en} pulsed (1) only while {nm} runs (run-gated comb)", rhs_pred=const_pred(1), construct=f"FIFO.{en}")
    ws = writers_of(ex, ("a", fifo, "w_data"))
    ctx.check(len(ws) == 1 and ws[0].rhs == ("arg", w.bodyid), "C14.fifo-data-in", ws[0].fact.site if ws else w.site, "FIFO.w_data", found="; ".join(tstr(x.rhs) for x in ws), required="w_data is the write argument")
    rv = returned_fields(r).get("")
    ok = rv is not None and (rv == ("a", fifo, "r_data") or pmatch("View(self.layout, Q_x)", rv) == {"x": ("a", fifo, "r_data")})
    ctx.check(ok, "C14.fifo-data-out", r.site, "FIFO.read.ret", found=tstr(rv) if rv else "none", required="read returns r_data")
    extra = [f for f in facts_in_body(ex, r, HwAssign) if f.lhs != ("a", fifo, "r_en")] + [f for f in facts_in_body(ex, w, HwAssign) if f.lhs not in (("a", fifo, "w_en"), ("a", fifo, "w_data"))]
    ctx.check(not extra, "C14.fifo-no-other-effects", comp.site, "FIFO.effects", found="; ".join(f.site for f in extra) or "none", required="no other drive inside the bodies")


def check_basic_fifo(ctx):
    ctx.use(FIFO)
    comp = Component(ctx.repo, FIFO, "BasicFifo", rule="C14")
    comp.require_modelled("C14")
    ex = one_config(comp, "C14")
    w, r, p, c = (need_body(ex, n, "C14", comp.site) for n in ("write", "read", "peek", "clear"))
    excl.exclusive(ctx, "C14", "BasicFifo", w, r)
    # roles: allocator submodule, memory ports
    alloc = None
    for s in ex.of(Submodule):
        o = ex.obj(s.value)
        if o is not None and pmatch("CircularAllocator(Q_n)", o.ctor):
            alloc = s.value
            ctx.check(pmatch("CircularAllocator(Q_n)", o.ctor)["n"] == pat("self.depth"), "C14.allocator-size", o.site, "BasicFifo.allocator", found=tstr(o.ctor), required="CircularAllocator(depth): as many identifiers as memory rows")
    if alloc is None:
        raise AnalysisError("C14", comp.site, "BasicFifo: CircularAllocator submodule not found", missing="BasicFifo: CircularAllocator submodule not found")
    mem_decl = comp.init_attr("data")
    ok = mem_decl is not None and (dict(mem_decl[3]).get("depth") == pat("self.depth")) and any(s.value == pat("self.data") for s in ex.of(Submodule))
    ctx.check(ok, "C14.memory-size", comp.site, "BasicFifo.data", found=tstr(mem_decl) if mem_decl else "none", required="memory of `depth` rows, registered as submodule")
    wr = rd = None
    for oid, o in ex.objects.items():
        if pmatch("self.data.write_port()", o.ctor):
            wr = ("obj", oid)
        if o.ctor[0] == "call" and o.ctor[1] == pat("self.data.read_port"):
            rd = ("obj", oid)
            kw = dict(o.ctor[3])
            rd_m = {"d": kw.get("domain", ("c", "sync")), "t": kw.get("transparent_for", ("list",))}
    if wr is None or rd is None:
        raise AnalysisError("C14", comp.site, "BasicFifo: memory ports not found", missing="BasicFifo: memory ports not found")
    # the read port is enabled in every cycle (initial value 1, or driven with the constant 1): the head follows the read index
    ens = writers_of(ex, ("a", rd, "en"), "any")
    ctx.check(all(w.rhs in (("c", 1), ("c", True), ("call", ("n", "C"), (("c", 1),), ())) and w.guard is True for w in ens), "C14.read-port-always-enabled", ens[0].fact.site if ens else comp.site, "BasicFifo.read_port.en",
              found="; ".join(f"{tstr(w.fact.domain)} += en.eq({tstr(w.rhs)[:80]})" for w in ens) or "never assigned (initial value 1)", required="the read port is enabled in every cycle")
    ctx.check(rd_m["d"] == ("c", "sync") and rd_m["t"][0] == "list" and wr in rd_m["t"][1:], "C14.read-port-transparent", ex.obj(rd).site, "BasicFifo.read_port",
              found=tstr(ex.obj(rd).ctor), required="synchronous read port, transparent for the write port (an element written this cycle can be read next cycle)")
    # declared ranges of the mirrors: the level can equal depth, the pointers address depth rows
    for attr_, want in (("level", "self.depth + 1"), ("read_idx", "self.depth"), ("write_idx", "self.depth")):
        d = comp.init_attr(attr_)
        mm = pmatch("Signal(range(Q_n))", d) if d else None
        ctx.check(mm is not None and lin_equal(mm["n"], pat(want)), "C14.mirror-range", comp.site, f"BasicFifo.{attr_}.shape", found=tstr(d) if d else "not declared", required=f"Signal(range({want}))")
    # mirrors of the allocator state
    for attr_, src in (("read_idx", "start_idx"), ("write_idx", "end_idx"), ("level", "allocated")):
        ws = writers_of(ex, ("a", ("self",), attr_))
        ok = len(ws) == 1 and ws[0].guard is True and ws[0].rhs == ("a", alloc, src)
        ctx.check(ok, "C14.pointer-mirrors", ws[0].fact.site if ws else comp.site, f"BasicFifo.{attr_}", found="; ".join(tstr(x.rhs) for x in ws), required=f"{attr_} mirrors allocator.{src}")
    # write
    ws = writers_of(ex, ("a", wr, "addr"))
    ctx.check(len(ws) == 1 and ws[0].rhs == pat("self.write_idx"), "C14.write-address", ws[0].fact.site if ws else w.site, "BasicFifo.write_port.addr", found="; ".join(tstr(x.rhs) for x in ws),
              required="the element is written at the end pointer")
    ws = writers_of(ex, ("a", wr, "data"))
    ctx.check(len(ws) == 1 and ws[0].rhs == ("arg", w.bodyid), "C14.write-data", ws[0].fact.site if ws else w.site, "BasicFifo.write_port.data", found="; ".join(tstr(x.rhs) for x in ws), required="the written element is the argument")
    sole_writer_in_body(ctx, "C14.write-enable", comp, ex, ("a", wr, "en"), w, "memory write enable pulsed only while write runs (run-gated comb)", rhs_pred=const_pred(1), construct="BasicFifo.write_port.en")
    call, all_ = unguarded_call(ex, w, ("a", alloc, "alloc"))
    ok = call is not None and dict(call.kwargs).get("count") == ("c", 1)
    ctx.check(ok, "C14.write-allocates", w.site, "BasicFifo.write.alloc", found="; ".join(f"{tstr(x.callee)}({dict(x.kwargs)}) under {[fr[0] for fr in x.guards()]}" for x in all_) or "no call",
              required="write unconditionally calls allocator.alloc(count=1): ready iff not full, end pointer advances by one")
    # read
    call, all_ = unguarded_call(ex, r, ("a", alloc, "free"))
    ok = call is not None and dict(call.kwargs).get("count") == ("c", 1)
    ctx.check(ok, "C14.read-frees", r.site, "BasicFifo.read.free", found="; ".join(f"{tstr(x.callee)}({dict(x.kwargs)})" for x in all_) or "no call",
              required="read unconditionally calls allocator.free(count=1): ready iff not empty, start pointer advances by one")
    t = decision_table(ex, ("a", rd, "addr"), sync=False)
    nxt = ("a", ("ret", call.callid), "new_start_idx") if call is not None else None
    check_table(ctx, "C14.read-address", comp.site, "BasicFifo.read_port.addr", t, [
        (run_f(r), lambda x: x == nxt, "while read runs the port is addressed with the *next* start pointer (override emitted after the default)"),
        (f_not(run_f(r)), term_pred(pat("self.read_idx")), "otherwise with the start pointer"),
    ])
    hs = writers_of(ex, pat("self.head"))
    ctx.check(len(hs) == 1 and hs[0].guard is True and hs[0].rhs == ("a", rd, "data"), "C14.head", hs[0].fact.site if hs else comp.site, "BasicFifo.head", found="; ".join(tstr(x.rhs) for x in hs), required="head is the read port's data")
    for b in (r, p):
        ctx.check(returned_fields(b).get("") == pat("self.head"), "C14.returns-head", b.site, f"BasicFifo.{b.owner[2]}.ret", found=tstr(b.ret) if b.ret else "none", required="returns the head element")
    no_effects(ctx, "C14.peek-effect-free", comp, ex, p)
    ctx.check(flag_true(p, "nonexclusive"), "C14.peek-nonexclusive", p.site, "BasicFifo.peek.nonexclusive", found=str(sorted(p.kwargs)), required="nonexclusive", nontrivial=False)
    check_ready(ctx, "C14.peek-ready", comp, ex, p, A(("a", ("a", alloc, "free"), "ready")), "peek ready iff the allocator could free (non-empty)")
    call, all_ = unguarded_call(ex, c, ("a", alloc, "clear"))
    ctx.check(call is not None, "C14.clear", c.site, "BasicFifo.clear", found=f"{len(all_)} call(s) of allocator.clear", required="clear unconditionally clears the allocator (which wins over a simultaneous alloc, C27)")


def check(ctx):
    check_fifo_wrapper(ctx)
    check_basic_fifo(ctx)
    C27.check_allocator(ctx, "C14.allocator")
    C27.check_mod_add(ctx, "C14")


MUTANTS = [
    ("fifo-write-ready-always", CONN, "@def_method(m, self.write, ready=fifo.w_rdy)", "@def_method(m, self.write)"),
    ("fifo-r-en-ungated", CONN, "            m.d.comb += fifo.r_en.eq(1)", "            m.d.av_comb += fifo.r_en.eq(1)"),
    ("fifo-read-ready-wrong", CONN, "@def_method(m, self.read, ready=fifo.r_rdy)", "@def_method(m, self.read, ready=fifo.w_rdy)"),
    ("basic-not-transparent", FIFO, 'data_rdport = self.data.read_port(domain="sync", transparent_for=[data_wrport])\n\n        m.d.comb += data_rdport.addr.eq(self.read_idx)', 'data_rdport = self.data.read_port(domain="sync")\n\n        m.d.comb += data_rdport.addr.eq(self.read_idx)'),
    ("basic-read-old-address", FIFO, "            m.d.comb += data_rdport.addr.eq(ret.new_start_idx)\n", ""),
    ("basic-write-at-start", FIFO, "m.d.top_comb += data_wrport.addr.eq(self.write_idx)", "m.d.top_comb += data_wrport.addr.eq(self.read_idx)"),
    ("basic-wr-en-top", FIFO, "            m.d.comb += data_wrport.en.eq(1)\n\n            allocator.alloc(m, count=1)", "            m.d.top_comb += data_wrport.en.eq(1)\n\n            allocator.alloc(m, count=1)"),
    ("basic-peek-frees", FIFO, "        @def_method(m, self.peek, allocator.free.ready, nonexclusive=True)\n        def _() -> ValueLike:\n            return self.head", "        @def_method(m, self.peek, allocator.free.ready, nonexclusive=True)\n        def _() -> ValueLike:\n            allocator.free(m, count=1)\n            return self.head"),
    ("basic-peek-always-ready", FIFO, "@def_method(m, self.peek, allocator.free.ready, nonexclusive=True)", "@def_method(m, self.peek, nonexclusive=True)"),
    ("basic-clear-noop", FIFO, "        def _() -> None:\n            allocator.clear(m)", "        def _() -> None:\n            pass"),
    ("basic-conditional-alloc", FIFO, "            allocator.alloc(m, count=1)", "            allocator.alloc(m, count=1, enable_call=self.level != 0)"),
    ("allocator-too-small", FIFO, "CircularAllocator(self.depth)", "CircularAllocator(self.depth - 1)"),
    ("allocator-clear-loses", "transactron/lib/allocators.py", """        m.d.sync += self.allocated.eq(self.allocated + alloc_count - free_count)

        kwargs = {}
        if self.with_validate_arguments and self.max_alloc > 1:""", """        kwargs = {}
        if self.with_validate_arguments and self.max_alloc > 1:"""),
]
