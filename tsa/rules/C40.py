"""C40 - structured assignment: python-level path facts of `assign` (field selection table, missing-field and empty-
selection rejections dominate the recursion, the recursion descends into the same field on both sides, the leaf emits
exactly one `lhs.eq(rhs)` in that direction after the shape comparison of lhs with rhs) and of `assign_arg_fields`.
NOT decided: equality of every selected field after the statements for every nested layout (needs the recursion to be
unfolded over the layout; the per-level obligations are its induction step)."""

from .common import *
from ..logic import atoms_of
from ..pm import find_all, has, pat, pmatch
from ..pyfacts import Fn, loops, py_guard
from ..stage import Effect, Raise
from ..term import mentions, mk_op, subterms

REL = "transactron/utils/assign.py"


def _yield_arg(e):
    c = e.call
    if c[0] == "call" and c[1] == ("n", "yield") and len(c[2]) == 1:
        return c[2][0]
    if c[0] == "call" and c[1] == ("n", "yield_from") and len(c[2]) == 1:
        return c[2][0]
    return None


def _cfg_formula(ex):
    parts = []
    for t, v in ex.config:
        g = to_formula(t)
        parts.append(g if v else f_not(g))
    return f_and(*parts)


def _decided(ex, atom) -> bool:
    """the static configuration decides `atom` as true"""
    return any(v is True and t == atom for t, v in ex.config)


def _item_kind(t, root, name):
    """'plain' for root[name]; 'shaped' for Const(root[name], const_item_shape(root, name)); None otherwise"""
    if t == ("i", root, name):
        return "plain"
    m = pmatch("Const(Q_v, const_item_shape(Q_c, Q_n))", t)
    if m is not None and m["v"] == ("i", root, name) and m["c"] == root and m["n"] == name:
        return "shaped"
    return None


def const_item_shape_rule(ctx):
    """the declared shape of item `name` of a constant: the element shape of an ArrayLayout, the member's shape otherwise"""
    try:
        fn = Fn(ctx.repo, REL, "const_item_shape", "C40")
    except AnalysisError:
        return  # no such helper: `C40.const-items-shaped` / `C40.recursion-arguments` say whether items are shaped at all
    const, name = fn.param(0), fn.param(1)
    ok = True
    kinds = set()
    for ex in fn.exs:
        rets = [r for r in ex.of(Return) if r.callid is None]
        if len(rets) != 1:
            ok = False
            continue
        v = rets[0].value
        lay = None
        for x in subterms(v):
            if isinstance(x, tuple) and x and x[0] in ("v", "call"):
                d = ex.vardef(x) if x[0] == "v" else x
                if d == ("call", ("a", const, "shape"), (), ()):
                    lay = x
        if lay is None:
            ok = False
            continue
        if v == ("ife", ("call", ("n", "isinstance"), (lay, ("a", ("n", "data"), "ArrayLayout")), ()), ("a", lay, "elem_shape"), ("i", ("a", lay, "members"), name)):
            kinds |= {"array", "struct"}
        elif v == ("a", lay, "elem_shape") and _decided(ex, ("call", ("n", "isinstance"), (lay, ("a", ("n", "data"), "ArrayLayout")), ())):
            kinds.add("array")
        elif v == ("i", ("a", lay, "members"), name):
            kinds.add("struct")
        else:
            ok = False
    ctx.check(ok and kinds == {"array", "struct"}, "C40.const-item-shape", fn.site, "const_item_shape", found="; ".join(tstr(r.value)[:120] for ex in fn.exs for r in ex.of(Return)) or "not found",
              required="layout.elem_shape for an ArrayLayout constant, layout.members[name] otherwise")


def selection(ctx):
    fn = Fn(ctx.repo, REL, "assign", "C40")
    LHS, RHS, FIELDS = fn.param(0), fn.param(1), ("p", fn.fi.qualname, "kw:fields", "fields")
    AT = lambda n: ("a", ("n", "AssignType"), n)  # noqa: E731
    rows = {"COMMON": 0, "LHS": 0, "RHS": 0, "ALL": 0, "explicit": 0}
    n_rec = 0
    shaped_seen = [False]
    for ex in fn.exs:
        ys = [e for e in ex.of(Effect) if _yield_arg(e) is not None and loops(e)]
        if not ys:
            continue
        # the two field-set variables, found by their definition (not by their local names)
        vts = {x for t, _ in ex.config for x in subterms(t) if x[0] == "v"} | {x for e in ex.facts for f_ in (getattr(e, "call", None), getattr(e, "exc", None), getattr(e, "value", None)) if f_ is not None for x in subterms(f_) if x[0] == "v"}
        vts |= {x for e in ex.facts for fr in e.frames for y in fr[1:] if isinstance(y, tuple) for x in subterms(y) if isinstance(x, tuple) and x and x[0] == "v"}
        lfs = sorted(x for x in vts if ex.vardefs.get(x[2]) == ("call", ("n", "assign_arg_fields"), (LHS,), ()))
        rf = sorted(x for x in vts if ex.vardefs.get(x[2]) == ("call", ("n", "assign_arg_fields"), (RHS,), ()))
        if len(lfs) != 1 or len(rf) != 1:
            raise AnalysisError("C40.selection", fn.site, "lhs_fields / rhs_fields = assign_arg_fields(lhs / rhs) not found", missing="lhs_fields / rhs_fields = assign_arg_fields(lhs / rhs) not found")
        LF, RF = lfs[0], rf[0]
        cfg = {t: v for t, v in ex.config}
        decided = None
        for name in ("COMMON", "LHS", "RHS", "ALL"):
            v = cfg.get(mk_op("is", AT(name), FIELDS))
            if v is True:
                decided = name
                break
        if decided is None:
            decided = "explicit"
        want = {"COMMON": mk_op("&", LF, RF), "LHS": LF, "RHS": RF, "ALL": mk_op("|", LF, RF), "explicit": ("call", ("n", "set"), (FIELDS,), ())}[decided]
        for e in ys:
            n_rec += 1
            (b,), it = loops(e)[0]
            rows[decided] += 1
            ctx.check(it == want and len(loops(e)) == 1, "C40.selection-table", e.site, f"assign.names[{decided}]", found=f"for name in {tstr(it)}", required=f"fields={decided}: the selected names are {tstr(want)}")
            # the recursion is reached only for names present on both sides
            g = _cfg_formula(ex)
            need = f_and(A(mk_op("in", b, LF)), A(mk_op("in", b, RF)))
            ctx.check(implies(g, need) is None, "C40.missing-field-rejected", e.site, f"assign.recursion.guard[{decided}]", found=fstr(g)[:200],
                      required="the recursion for a name is reached only when the name is in lhs_fields and in rhs_fields (the KeyError raises come first)")
            # same name on both sides, lhs stays left
            call = _yield_arg(e)
            if call[0] == "v":
                call = ex.vardefs.get(call[2], call)
            # ... where an item of a constant of a layout (a plain int) is given the shape the layout declares (F22):
            # exactly in the configurations decided "rhs is a data.Const and the item is an int"
            ritem = call[2][1] if call[0] == "call" and len(call[2]) == 2 else None
            kind = _item_kind(ritem, RHS, b) if ritem is not None else None
            const_int = _decided(ex, ("call", ("n", "isinstance"), (RHS, ("a", ("n", "data"), "Const")), ())) and _decided(ex, ("call", ("n", "isinstance"), (("i", RHS, b), ("n", "int")), ()))
            shaped_seen[0] = shaped_seen[0] or kind == "shaped"
            ok = call[0] == "call" and call[1] == ("n", "assign") and len(call[2]) == 2 and call[2][0] == ("i", LHS, b) and kind == ("shaped" if const_int else "plain")
            ctx.check(ok, "C40.recursion-arguments", e.site, f"assign.recursion[{decided}]", found=tstr(call)[:160], required="assign(lhs[name], rhs[name], ...): the same field of both sides, left stays left; an int item of a data.Const carries its declared shape")
            if ok:
                # strictness of a side: it is a value (View) and the selected field is not a plain python int
                kws = dict(call[3])
                for side, root in (("lhs_strict", LHS), ("rhs_strict", RHS)):
                    want_s = to_formula(pat_with("isinstance(ROOT, ValueLike) and not isinstance(ROOT[NAME], int)", root, b))
                    if side == "rhs_strict" and kind == "shaped":
                        want_s = to_formula(("op", "and", ("call", ("n", "isinstance"), (root, ("n", "ValueLike")), ()), ("op", "not", ("call", ("n", "isinstance"), (ritem, ("n", "int")), ()))))
                    got_s = to_formula(kws[side]) if side in kws else False
                    ctx.check(side in kws and equivalent(got_s, want_s) is None, "C40.recursion-strictness", e.site, f"assign.recursion.{side}[{decided}]", found=tstr(kws.get(side, ("c", None)))[:120],
                              required=f"{side} = the side is a value and its field of the same name is not a python int (fields of a View have explicit shapes)")
            # the structured branch is entered only when both operands have fields
            both = f_and(f_not(A(mk_op("is", ("c", None), LF))), f_not(A(mk_op("is", ("c", None), RF))))
            ctx.check(implies(_cfg_formula(ex), both) is None, "C40.structured-branch", e.site, f"assign.structured-branch[{decided}]", found=fstr(_cfg_formula(ex))[:160],
                      required="fields are matched only when both lhs_fields and rhs_fields are not None", nontrivial=False)
            if ok:
                kw = dict(call[3])
                sub = kw.get("fields")
                is_map = cfg.get(("call", ("n", "isinstance"), (FIELDS, ("n", "Mapping")), ()))
                is_it = cfg.get(("call", ("n", "isinstance"), (FIELDS, ("n", "Iterable")), ()))
                want_sub = ("i", FIELDS, b) if is_map else (AT("ALL") if is_it else FIELDS)
                ctx.check(sub == want_sub, "C40.subfields", e.site, f"assign.recursion.fields[{decided}]", found=tstr(sub) if sub else "none",
                          required="nested selection: fields[name] for a mapping, ALL below an explicit list of names, the same mode otherwise")
    for k, v in rows.items():
        ctx.floor("C40", f"recursive yields for fields={k}", v, 1, fn.site)
    ctx.check(shaped_seen[0], "C40.const-items-shaped", fn.site, "assign.recursion.const-items", found="an int item of a data.Const is given its declared shape" if shaped_seen[0] else "an item of a data.Const is passed on as a bare int (never shape-checked)",
              required="an item taken out of a data.Const is a bare python int: it is wrapped with the shape its layout declares before the recursive assign, so that the shape check applies")
    # missing-field raises and the empty-selection raise exist for the structured branch
    rs = fn.facts(Raise)
    key = [(ex, r) for ex, r in rs if loops(r) and pmatch("KeyError(Q_m)", r.exc)]
    sides = set()
    for ex, r in key:
        (b,), it = loops(r)[0]
        for a in atoms_of(py_guard(r)):
            m = pmatch("Q_n in Q_s", a)
            if m and m["n"] == b and m["s"][0] == "v":
                d = ex.vardefs.get(m["s"][2])
                if d == ("call", ("n", "assign_arg_fields"), (LHS,), ()):
                    sides.add("lhs")
                if d == ("call", ("n", "assign_arg_fields"), (RHS,), ()):
                    sides.add("rhs")
    ctx.check(sides == {"lhs", "rhs"}, "C40.missing-field-raises", key[0][1].site if key else fn.site, "assign.KeyError", found=f"{len(key)} KeyError raise(s) on sides {sorted(sides)}",
              required="a selected name missing in lhs_fields raises, and one missing in rhs_fields raises")
    emp = [(ex, r) for ex, r in rs if not loops(r) and pmatch("ValueError(Q_m)", r.exc) and "no common fields" in tstr(r.exc)]
    ok = bool(emp)
    for ex, r in emp:
        g = f_and(py_guard(r), _cfg_formula(ex))
        ats = atoms_of(g)
        # raised exactly for an empty selection over operands that do have fields
        fs = [a for a in ats if a[0] == "v" and ex.vardefs.get(a[2], ("x",))[0] == "call" and ex.vardefs[a[2]][1] == ("n", "assign_arg_fields")]
        nonempty = f_or(*[A(a) for a in fs]) if fs else False
        # the selected-names term: the atom whose negation the guard requires (an operation over the field sets, or set(fields))
        cand = [a for a in ats if a not in fs and (a[0] == "op" and a[1] in ("&", "|") or pmatch("set(Q_f)", a) is not None)]
        sel_empty = f_and(*[f_not(A(a)) for a in cand]) if cand else True
        ok = ok and len(fs) == 2 and implies(g, nonempty) is None and (implies(g, sel_empty) is None) and (bool(cand) or any(implies(g, f_not(A(a))) is None for a in fs))
    ctx.check(ok, "C40.empty-selection-raises", emp[0][1].site if emp else fn.site, "assign.empty-selection", found=f"{len(emp)} raise(s)", required="an empty selection over non-empty structures raises", nontrivial=False)


def _explicit_shape_helper(ctx, fn, ex):
    """The nested explicit-shape test: Signal / ArrayProxy / Slice / ValueCastable have one - and so has the sign conversion
    of a value that has one (a signed field of a View is `Slice(..).as_signed()`: F21)."""
    from ..lam import closure_cases

    if ctx.__dict__.get("_c40_helper_done"):
        return
    ctx.__dict__["_c40_helper_done"] = True
    ok = False
    detail = "no nested helper"
    for clo in ex.closures.values():
        cs = closure_cases(clo)
        if cs is None or cs[0] != 1:
            continue
        cases = cs[1]
        detail = "; ".join((tstr(c) + " -> " if c is not None else "") + tstr(v) for c, v in cases)[:300]
        base = [v for c, v in cases if c is None]
        conv = [(c, v) for c, v in cases if c is not None]
        mb = pmatch("isinstance(Q_v, Q_t)", base[0]) if len(base) == 1 else None
        okb = mb is not None and mb["v"] == ("lp", 0) and mb["t"][0] == "tuple" and {tstr(x) for x in mb["t"][1:]} == {"Signal", "ArrayProxy", "Slice", "ValueCastable"}
        okc = False
        for c, v in conv:
            # isinstance(val, Operator) and val.operator in ("s", "u")  ->  helper(val.operands[0])
            from ..logic import atoms_of as _ao

            ats_ = _ao(to_formula(c))
            is_op = any(pmatch("isinstance(Q_v, Operator)", a) == {"v": ("lp", 0)} for a in ats_)
            sign = any(a[0] == "op" and a[1] == "in" and a[2] == ("a", ("lp", 0), "operator") and a[3][0] in ("tuple", "list", "set") and {x[1] for x in a[3][1:]} == {"s", "u"} for a in ats_)
            rec = v[0] == "call" and v[2] == (("i", ("a", ("lp", 0), "operands"), ("c", 0)),) and (v[1] == ("n", clo.name) or v[1][0] in ("lam", "obj", "v", "n"))
            both = len(ats_) == 2 and equivalent(to_formula(c), f_and(*[A(a) for a in ats_])) is None  # both tests hold, not their negations
            okc = okc or (is_op and sign and rec and both)
        ok = ok or (okb and okc)
    ctx.check(ok, "C40.explicit-shape", fn.site, "assign.has_explicit_shape", found=detail,
              required="explicit shape: Signal, ArrayProxy, Slice, ValueCastable - and a sign conversion (Operator 's' / 'u') of a value that has one")


def leaf(ctx):
    fn = Fn(ctx.repo, REL, "assign", "C40")
    LHS, RHS = fn.param(0), fn.param(1)
    n = 0

    def derived(t, root, ex, depth=0):
        """t is `root` possibly unwrapped through the singleton-field loop."""
        if t == root:
            return True
        if t[0] == "loopvar" and depth < 4:
            d = ex.loopdefs.get((t[1], t[2]))
            if d is None:
                return False
            init, step = d
            return derived(init, root, ex, depth + 1) and (step is None or any(x == t for x in subterms(step)))
        return False

    for ex in fn.exs:
        ys = [e for e in ex.of(Effect) if _yield_arg(e) is not None and pmatch("Q_l.eq(Q_r)", _yield_arg(e))]
        if not ys:
            continue
        n += 1
        all_y = [e for e in ex.of(Effect) if _yield_arg(e) is not None]
        m = pmatch("Q_l.eq(Q_r)", _yield_arg(ys[0]))
        lv, rv = m["l"], m["r"]
        ld = ex.vardefs.get(lv[2]) if lv[0] == "v" else lv
        rd = ex.vardefs.get(rv[2]) if rv[0] == "v" else rv
        ml, mr = pmatch("Value.cast(Q_x)", ld) if ld else None, pmatch("Value.cast(Q_x)", rd) if rd else None
        ok = len(all_y) == 1 and ml is not None and mr is not None and derived(ml["x"], LHS, ex) and derived(mr["x"], RHS, ex)
        ctx.check(ok, "C40.leaf-statement", ys[0].site, "assign.leaf", found=f"{len(all_y)} yield(s): {tstr(ld) if ld else '?'} .eq( {tstr(rd) if rd else '?'} )",
                  required="exactly one statement Value.cast(lhs).eq(Value.cast(rhs)): left side assigned from right side, nothing else")
        if not ok:
            continue
        # singleton unwrapping only through single-field structures
        for root, val in ((LHS, ml["x"]), (RHS, mr["x"])):
            if val[0] == "loopvar":
                test = ex.loopdefs.get(("while", val[2]), (None, None))[0]
                init, step = ex.loopdefs[(val[1], val[2])]
                # the step takes the only field (an int item of a data.Const with its declared shape)
                def only_field(st):
                    if st is None:
                        return False
                    mc = pmatch("Const(Q_x, const_item_shape(Q_c, Q_n))", st)
                    if mc is not None:
                        return mc["c"] == val and only_field(mc["x"]) and (ex.vardef(mc["n"]) or mc["n"]) == (ex.vardef(mc["x"][2]) or mc["x"][2])
                    if st[0] == "i" and st[1] == val:
                        nm_ = ex.vardef(st[2]) or st[2]
                        return pmatch("next(iter(Q_f))", nm_) is not None
                    return False

                okw = test is not None and has("1 == len(Q_f)", test) and all(implies(to_formula(test), f_not(A(mk_op("is", ("c", None), m_["f"])))) is None for m_ in find_all("1 == len(Q_f)", test)) and only_field(step)
                ctx.check(okw, "C40.singleton-unwrapping", ys[0].site, f"assign.leaf.unwrap[{tstr(root)}]", found=f"while {tstr(test) if test else '?'}: {tstr(step) if step else '?'}",
                          required="only a structure with exactly one field is replaced by that field", nontrivial=False)
        # the shape comparison is lhs against rhs, and the statement is not reached when it fails under the strict condition
        cfgd = {t: v for t, v in ex.config}
        cmp_ = [t for t in cfgd if pmatch("shape_of(Q_a) == shape_of(Q_b)", t)]
        if cmp_:
            mm = pmatch("shape_of(Q_a) == shape_of(Q_b)", cmp_[0])
            sides_ok = {mm["a"], mm["b"]} == {ml["x"], mr["x"]}
            ctx.check(sides_ok and cfgd[cmp_[0]] is True, "C40.shape-check", ys[0].site, "assign.leaf.shape-check", found=f"{tstr(cmp_[0])} = {cfgd[cmp_[0]]}",
                      required="when shapes are compared, the statement is emitted only for shape_of(lhs) == shape_of(rhs) of the two assigned values")
    ctx.floor("C40", "leaf configurations", n, 2, fn.site)
    rs = [(ex, r) for ex, r in fn.facts(Raise) if "Shapes not matching" in tstr(r.exc)]
    ok = bool(rs)
    for ex, r in rs:
        ats = atoms_of(py_guard(r))
        S_L, S_R = ("p", fn.fi.qualname, "kw:lhs_strict", "lhs_strict"), ("p", fn.fi.qualname, "kw:rhs_strict", "rhs_strict")
        # a strict flag may have gone through the unwrapping loop (set when a data.Const item was given its shape)
        def flag_of(a, param):
            if a == param:
                return True
            if a[0] == "loopvar":
                d_ = ex.loopdefs.get((a[1], a[2]))
                return d_ is not None and d_[0] == param and d_[1] in (None, ("c", True), a)
            return False

        sl = [a for a in ats if flag_of(a, S_L)]
        sr = [a for a in ats if flag_of(a, S_R)]
        strict = sl + sr
        if len(sl) == 1 and len(sr) == 1:
            S_L, S_R = sl[0], sr[0]
        vc = [a for a in ats if pmatch("isinstance(Q_x, ValueCastable)", a)]
        ex_ = [a for a in ats if pmatch("isinstance(Q_x, Q_types)", a) and pmatch("isinstance(Q_x, Q_types)", a)["types"][0] in ("tuple", "list") and a not in vc]
        # ... or the explicit-shape test is a nested helper applied to the side's value
        nested = {("n", c_.name) for c_ in ex.closures.values()} | {("lam", cid_) for cid_ in ex.closures}
        helper_calls = [a for a in ats if a[0] == "call" and a[1] in nested and len(a[2]) == 1 and not a[3]]
        if not ex_ and len(helper_calls) == 2:
            ex_ = helper_calls
            _explicit_shape_helper(ctx, fn, ex)
        elif ex_ and not ctx.__dict__.get("_c40_helper_done"):
            # a bare isinstance test cannot see through the sign conversion of a signed View field (F21)
            ctx.__dict__["_c40_helper_done"] = True
            ctx.bad("C40.explicit-shape", r.site, "assign.has_explicit_shape", found="; ".join(tstr(a)[:100] for a in ex_[:2]),
                    required="explicit shape: Signal, ArrayProxy, Slice, ValueCastable - and a sign conversion (Operator 's' / 'u') of a value that has one")
        eqs = [a for a in ats if pmatch("shape_of(Q_a) == shape_of(Q_b)", a)]
        ok = ok and len(strict) == 2 and len(vc) == 2 and len(ex_) == 2 and len(eqs) == 1
        if ok:
            # documented condition of the width check: either side is a View/ValueCastable, or both sides have an explicitly
            # defined shape (strict = field of a View, or a Signal / ArrayProxy / Slice / ValueCastable).  Compared as the
            # projection of the raise guard onto these seven atoms (the branch-selection atoms are independent of them).
            from ..logic import evalf, valuations

            side = lambda a: "l" if any(x[0] == "loopvar" and x[1] == "lhs" or x == LHS for x in subterms(a)) else "r"  # noqa: E731
            vl = [a for a in vc if side(a) == "l"]
            vr = [a for a in vc if side(a) == "r"]
            el = [a for a in ex_ if side(a) == "l"]
            er = [a for a in ex_ if side(a) == "r"]
            ok = len(vl) == len(vr) == len(el) == len(er) == 1
            if ok:
                key = [vl[0], vr[0], S_L, S_R, el[0], er[0], eqs[0]]
                others = [a for a in ats if a not in key]
                g = py_guard(r)
                for val in valuations(key):
                    ref = (val[vl[0]] or val[vr[0]] or ((val[S_L] or val[el[0]]) and (val[S_R] or val[er[0]]))) and not val[eqs[0]]
                    got = any(evalf(g, {**val, **v2}) for v2 in valuations(others))
                    if got != ref:
                        ok = False
                        break
    ctx.check(ok, "C40.shape-mismatch-raises", rs[0][1].site if rs else fn.site, "assign.shape-mismatch", found=f"{len(rs)} raise(s)", required="a shape mismatch raises when either side is a ValueCastable or both sides are strict / have explicit shapes")
    for text, what in (("Fields on assigning non-structures", "an explicit field selection on non-structures"), ("Unsupported assignment", "a non-value operand")):
        rr = [(ex, r) for ex, r in fn.facts(Raise) if text in tstr(r.exc)]
        FIELDS = ("p", fn.fi.qualname, "kw:fields", "fields")
        for ex, r in rr:
            g = f_and(py_guard(r), _cfg_formula(ex))
            if text.startswith("Fields"):
                need = f_not(A(("call", ("n", "isinstance"), (FIELDS, ("n", "AssignType")), ())))
            else:
                need = f_or(f_not(A(("call", ("n", "isinstance"), (LHS, ("n", "ValueLike")), ()))), f_not(A(("call", ("n", "isinstance"), (RHS, ("n", "ValueLike")), ()))))
            ctx.check(implies(g, need) is None, "C40.leaf-rejections", r.site, f"assign.leaf.reject-guard[{text[:20]}]", found=fstr(g)[:200], required=f"raised only for {what}", nontrivial=False)
        ctx.check(bool(rr), "C40.leaf-rejections", rr[0][1].site if rr else fn.site, f"assign.leaf.reject[{text[:20]}]", found=f"{len(rr)} raise(s)", required=f"{what} is rejected", nontrivial=False)


def union(ctx):
    fn = Fn(ctx.repo, REL, "assign", "C40")
    LHS, RHS = fn.param(0), fn.param(1)
    ys = [(ex, e) for ex, e in fn.facts(Effect) if _yield_arg(e) is not None and not loops(e) and not pmatch("Q_l.eq(Q_r)", _yield_arg(e))]
    ctx.floor("C40", "union recursion yields", len(ys), 1, fn.site)
    for ex, e in ys:
        call = _yield_arg(e)
        if call[0] == "v":
            call = ex.vardefs.get(call[2], call)
        ok = call[0] == "call" and call[1] == ("n", "assign") and len(call[2]) == 2
        if ok:
            r_arg = call[2][1]
            mcs = pmatch("Const(Q_x, const_item_shape(Q_c, Q_n))", r_arg)
            if mcs is not None and mcs["c"] == RHS:
                r_arg = mcs["x"]  # an int item of a data.Const, given its declared shape
            ml, mr = pmatch("Q_l[Q_n]", call[2][0]), pmatch("Q_r[Q_n]", r_arg)
            ok = ml is not None and mr is not None and ml["l"] == LHS and mr["r"] == RHS and ml["n"] == mr["n"]
            if ok:
                nm = ml["n"]
                d = ex.vardefs.get(nm[2]) if nm[0] == "v" else nm
                ok = d is not None and pmatch("next(iter(Q_m))", d) is not None and pmatch("next(iter(Q_m))", d)["m"] in (LHS, RHS)
        g = _cfg_formula(ex)
        single = [t for t, v in ex.config if pmatch("1 == len(Q_m)", t) and v is True]
        member = [t for t, v in ex.config if pmatch("Q_n in Q_u.shape().members", t) and v is True]
        ctx.check(ok and bool(single) and bool(member), "C40.union", e.site, "assign.union", found=tstr(call)[:160] + f" under {fstr(g)[:120]}",
                  required="a union is assigned from a singleton mapping only: the mapping's one key must be a member of the union, and that member is assigned (same name both sides)")
    # ... and the other outcomes of those two tests are rejections, not silent acceptance
    for what, p in (("non-singleton mapping", "1 == len(Q_m)"), ("key that is not a member of the union", "Q_n in Q_u.shape().members")):
        neg = [ex for ex in fn.exs if any(pmatch(p, t) and v is False for t, v in ex.config)]
        ctx.floor("C40", f"configurations with a {what}", len(neg), 1, fn.site)
        bad = [ex for ex in neg if not [r for r in ex.of(Raise)] or [e for e in ex.of(Effect) if _yield_arg(e) is not None]]
        ctx.check(not bad, "C40.union-rejects", fn.site, f"assign.union[{what}]", found=f"{len(neg) - len(bad)} of {len(neg)} such configurations raise",
                  required=f"assigning a union from a {what} raises (nothing is assigned)")


def arg_fields(ctx):
    fn = Fn(ctx.repo, REL, "assign_arg_fields", "C40")
    val = fn.param(0)
    table = {
        "isinstance(val.shape(), data.StructLayout)": lambda r: r[0] == "call" and r[1] == ("n", "set") and r[2][0][0] == "lc" and r[2][0][2] == r[2][0][3][0][0] and r[2][0][3][0][1] == pat_sub("val.shape().members", val) and not r[2][0][3][0][2],
        "isinstance(val.shape(), data.ArrayLayout)": lambda r: r == ("call", ("n", "set"), (("call", ("n", "range"), (pat_sub("val.shape().length", val),), ()),), ()),
        "isinstance(val, dict)": lambda r: r == ("call", ("n", "set"), (("call", ("a", val, "keys"), (), ()),), ()),
        "isinstance(val, list)": lambda r: r == ("call", ("n", "set"), (("call", ("n", "range"), (("call", ("n", "len"), (val,), ()),), ()),), ()),
        "isinstance(val, ArrayProxy)": lambda r: r == ("call", ("n", "arrayproxy_fields"), (val,), ()),
    }
    seen = set()
    for ex in fn.exs:
        rets = [r for r in ex.of(Return) if r.callid is None]
        true_tests = [tstr(t) for t, v in ex.config if v]
        if not rets:
            continue
        last = true_tests[-1] if true_tests else None
        ok = last in table and table[last](rets[0].value)
        seen.add(last)
        ctx.check(bool(ok), "C40.field-sets", rets[0].site, f"assign_arg_fields[{last}]", found=tstr(rets[0].value), required="struct -> member names, array -> range(length), dict -> keys, list -> range(len)")
    ctx.check(set(table) <= seen, "C40.field-sets-total", fn.site, "assign_arg_fields.cases", found=f"{sorted(x for x in seen if x)}", required="all five kinds of structured operands are recognised")


def pat_with(text, root, name):
    from ..term import subst

    return subst(pat(text), {("n", "ROOT"): root, ("n", "NAME"): name})


def enum_and_defaults(ctx):
    """AssignType members are distinct (an alias would merge two selection modes); documented defaults of assign()."""
    import ast

    mod = ctx.repo.modules[REL]
    vals = {}
    for cls in [n for n in mod.tree.body if isinstance(n, ast.ClassDef) and n.name == "AssignType"]:
        for st in cls.body:
            if isinstance(st, ast.Assign) and len(st.targets) == 1 and isinstance(st.targets[0], ast.Name) and isinstance(st.value, ast.Constant):
                vals[st.targets[0].id] = st.value.value
    ok = set(vals) >= {"COMMON", "LHS", "RHS", "ALL"} and len(set(vals.values())) == len(vals)
    ctx.check(ok, "C40.modes-distinct", REL, "AssignType", found=str(vals), required="COMMON, LHS, RHS, ALL are four distinct enum members")
    fn = Fn(ctx.repo, REL, "assign", "C40")
    a = fn.fi.node.args
    d = {k.arg: ast.unparse(v) for k, v in zip(a.kwonlyargs, a.kw_defaults) if v is not None}
    ok = d.get("fields") == "AssignType.RHS" and d.get("lhs_strict") == "False" and d.get("rhs_strict") == "False"
    ctx.check(ok, "C40.defaults", fn.site, "assign.defaults", found=str(d), required="fields=AssignType.RHS, lhs_strict=False, rhs_strict=False", nontrivial=False)


def pat_sub(text, val):
    from ..term import subst

    return subst(pat(text), {("n", "val"): val})


def proxy_fields(ctx):
    """The fields of an Array proxy are the fields common to its elements, each computed as for a single view (so that
    elements whose layout has no `.members` - an ArrayLayout - work, F20), and there are none if an element has none."""
    fn = Fn(ctx.repo, REL, "arrayproxy_fields", "C40")
    ok = False
    detail = "no result"
    for ex in fn.exs:
        for r in ex.of(Return):
            if r.callid is not None:
                continue
            v = r.value
            detail = tstr(v)[:200]
            m = pmatch("set.intersection(*Q_l)", v)
            if m is None:
                continue
            lst = m["l"]
            mc = pmatch("cast(Q_t, Q_x)", lst)
            if mc is not None:
                lst = mc["x"]
            d = ex.vardef(lst) or lst
            if d[0] == "lc" and len(d[3]) == 1 and d[2] == ("call", ("n", "assign_arg_fields"), (d[3][0][0],), ()):
                g = py_guard(r)
                # ... under `all(f is not None for f in <that list>)`
                for a in atoms_of(g):
                    ma = pmatch("all(Q_g)", a)
                    if ma is None or ma["g"][0] != "lc" or len(ma["g"][3]) != 1:
                        continue
                    b, it, conds = ma["g"][3][0]
                    it = ex.vardef(it) or it
                    if it == d and not conds and ma["g"][2] in (mk_op("not", mk_op("is", b, ("c", None))), mk_op("is not", b, ("c", None))):
                        ok = ok or implies(g, A(a)) is None
    ctx.check(ok, "C40.proxy-fields", fn.site, "arrayproxy_fields", found=detail,
              required="set.intersection of assign_arg_fields(element) over all elements, only when every element has fields")


def proxy_flattening(ctx):
    """The elements an Array proxy stands for are found by flattening nested proxies to ANY depth (arr[i][j][k] is a proxy of
    proxies of proxies): the helper that flattens recurses on itself for every element that is a proxy and yields the others.
    One level of `yield from elem.elems` leaves proxies in the list for three or more levels of indexing; the field set is then
    None and the whole word is assigned."""
    import ast

    fi = ctx.repo.func(REL, "arrayproxy_fields")
    helpers = [n for n in ast.walk(fi.node) if isinstance(n, ast.FunctionDef) and n is not fi.node and any(isinstance(y, (ast.Yield, ast.YieldFrom)) for y in ast.walk(n))]
    ctx.floor("C40", "flattening helpers in arrayproxy_fields", len(helpers), 1, fi.site)
    for h in helpers:
        ok = False
        detail = "no loop over the proxy's elements"
        param = h.args.args[0].arg if h.args.args else None
        for loop in [n for n in ast.walk(h) if isinstance(n, ast.For) and isinstance(n.target, ast.Name)]:
            el = loop.target.id
            over = isinstance(loop.iter, ast.Attribute) and loop.iter.attr == "elems" and isinstance(loop.iter.value, ast.Name) and loop.iter.value.id == param
            rec = plain = False

            def proxy_test(t):
                """polarity of `isinstance(el, ArrayProxy)` in the test t (None: another test)"""
                if isinstance(t, ast.UnaryOp) and isinstance(t.op, ast.Not):
                    p = proxy_test(t.operand)
                    return None if p is None else not p
                if isinstance(t, ast.Call) and isinstance(t.func, ast.Name) and t.func.id == "isinstance" and len(t.args) == 2 \
                        and isinstance(t.args[0], ast.Name) and t.args[0].id == el and ast.unparse(t.args[1]) == "ArrayProxy":
                    return True
                return None

            yields = []  # (node, the element is a proxy: True / False / None = not decided here)

            def walk(stmts, pol):
                for s_ in stmts:
                    if isinstance(s_, ast.If) and proxy_test(s_.test) is not None:
                        p = proxy_test(s_.test)
                        walk(s_.body, p)
                        walk(s_.orelse, not p)
                        if not s_.orelse and s_.body and isinstance(s_.body[-1], (ast.Continue, ast.Return)):
                            pol = not p  # guard clause: the rest of the block is the other arm
                    else:
                        for y in ast.walk(s_):
                            if isinstance(y, (ast.Yield, ast.YieldFrom)):
                                yields.append((y, pol))

            walk(loop.body, None)
            rec = any(isinstance(y, ast.YieldFrom) and p is True and isinstance(y.value, ast.Call) and isinstance(y.value.func, ast.Name) and y.value.func.id == h.name
                      and len(y.value.args) == 1 and isinstance(y.value.args[0], ast.Name) and y.value.args[0].id == el for y, p in yields)
            plain = any(isinstance(y, ast.Yield) and p is False and isinstance(y.value, ast.Name) and y.value.id == el for y, p in yields)
            # nothing else is yielded for a proxy element (a one-level `yield from elem.elems` would be)
            rec = rec and not any(p is True and not (isinstance(y, ast.YieldFrom) and isinstance(y.value, ast.Call) and isinstance(y.value.func, ast.Name) and y.value.func.id == h.name) for y, p in yields)
            detail = f"loop over {ast.unparse(loop.iter)}: recursion on nested proxies {rec}, other elements yielded {plain}"
            ok = ok or (over and rec and plain)
        ctx.check(ok, "C40.proxy-flattening", f"{REL}:{h.lineno}", f"arrayproxy_fields.{h.name}", found=detail,
                  required="for every element of the proxy: a nested proxy is flattened by the same helper (any depth), any other element is yielded")


def check(ctx):
    ctx.use(REL)
    proxy_flattening(ctx)
    enum_and_defaults(ctx)
    selection(ctx)
    const_item_shape_rule(ctx)
    leaf(ctx)
    union(ctx)
    arg_fields(ctx)
    proxy_fields(ctx)


MUTANTS = [
    ("common-is-union", REL, "            names = lhs_fields & rhs_fields", "            names = lhs_fields | rhs_fields"),
    ("lhs-mode-uses-rhs", REL, "        elif fields is AssignType.LHS:\n            names = lhs_fields", "        elif fields is AssignType.LHS:\n            names = rhs_fields"),
    ("all-is-intersection", REL, "            names = lhs_fields | rhs_fields", "            names = lhs_fields & rhs_fields"),
    ("missing-lhs-skipped", REL, "            if name not in lhs_fields:\n                raise KeyError(\"Field {} not present in lhs\".format(name))", "            if name not in lhs_fields:\n                continue"),
    ("missing-rhs-check-dropped", REL, "            if name not in rhs_fields:\n                raise KeyError(\"Field {} not present in rhs\".format(name))\n", ""),
    ("recursion-swapped", REL, "            lhs[name],  # type: ignore\n            rhs_item,  # type: ignore", "            rhs_item,  # type: ignore\n            lhs[name],  # type: ignore"),
    ("leaf-direction", REL, "        yield lhs_val.eq(rhs_val)", "        yield rhs_val.eq(lhs_val)"),
    ("leaf-shape-compares-self", REL, "            if shape_of(lhs) != shape_of(rhs):", "            if shape_of(lhs) != shape_of(lhs):"),
    ("leaf-shape-check-inverted", REL, "            if shape_of(lhs) != shape_of(rhs):", "            if shape_of(lhs) == shape_of(rhs):"),
    ("subfields-list-keeps-mode", REL, "        elif isinstance(fields, Iterable):\n            subfields = AssignType.ALL", "        elif isinstance(fields, Iterable):\n            subfields = AssignType.COMMON"),
    ("array-fields-off-by-one", REL, "            return set(range(layout.length))", "            return set(range(layout.length - 1))"),
    ("list-fields-keys", REL, "        return set(range(len(val)))", "        return set(range(1, len(val)))"),
    ("union-any-mapping", REL, "        if len(mapping) != 1:\n            raise ValueError(f\"Non-singleton mapping on union assignment lhs: {lhs} rhs: {rhs}\")\n", ""),
    ("leaf-yields-twice", REL, "        yield lhs_val.eq(rhs_val)", "        yield lhs_val.eq(rhs_val)\n        yield lhs_val.eq(rhs_val)"),
    ("unwrap-multi-field", REL, "        while lhs_fields is not None and len(lhs_fields) == 1:", "        while lhs_fields is not None and len(lhs_fields) >= 1:"),
]
