"""C30 - InputSampler and OutputBuffer follow their trigger: the trigger logic is evaluated to a symbolic normal
form over all 8 static configurations and compared with the reference (complete at this level)."""

from .common import *
from ..pm import pmatch, pat
from ..term import rewrite, mk_op

REL = "transactron/lib/basicio.py"
TRIG = pat("self.trigger")


def delay_form(ex, t, depth=6):
    """Expand local signals: a single unconditional comb driver is substituted; a single unconditional sync
    driver becomes prev(<driver>).  prev is pushed through boolean operators so that it only wraps leaves."""
    if depth == 0:
        return t

    def f(x):
        if x[0] == "obj":
            ws = writers_of(ex, x, "any")
            if len(ws) == 1 and ws[0].guard is True and ws[0].part is None:
                inner = delay_form(ex, ws[0].rhs, depth - 1)
                return ("prev", inner) if is_sync(ws[0].fact.domain) else inner
        return None

    return push_prev(rewrite(t, f))


def push_prev(t):
    def f(x):
        if x[0] == "prev":
            a = x[1]
            if a[0] == "op" and a[1] in ("&", "|", "~", "^"):
                return mk_op(a[1], *[push_prev(("prev", y)) for y in a[2:]])
        return None

    return rewrite(t, f)


def cfgv(ex, key):
    for t, v in ex.config:
        if tstr(t) == key:
            return v
    return None


def reference(sync, pol, edge):
    t0 = ("prev", TRIG) if sync else TRIG
    t1 = t0 if pol else mk_op("~", t0)
    if edge:
        return mk_op("&", t1, mk_op("~", push_prev(("prev", t1))))
    return t1


def check_class(ctx, cls, method, role):
    comp = Component(ctx.repo, REL, cls, rule="C30")
    comp.require_modelled("C30")
    ctx.floor("C30", f"{cls} configurations", len(comp.configs), 8, comp.site)
    seen = set()
    for ex in comp.configs:
        sync, pol, edge = (bool(cfgv(ex, k)) for k in ("self._synchronize", "self._polarity", "self._edge"))
        seen.add((sync, pol, edge))
        cn = f"synchronize={int(sync)},polarity={int(pol)},edge={int(edge)}"
        b = need_body(ex, method, "C30", comp.site)
        found = delay_form(ex, b.ready)
        ref = reference(sync, pol, edge)
        cex = equivalent(to_formula(found), to_formula(ref))
        ctx.check(cex is None, "C30.trigger", b.site, f"{cls}.{method}.ready[{cn}]", found=tstr(found) + ("" if cex is None else "  differs at " + vstr(cex)), required=tstr(ref) + "  (optionally synchronised trigger, inverted for active-low, rising edge of the active level when edge)")
        if role == "in":
            rv = returned_fields(b).get("")
            fd = delay_form(ex, rv) if rv is not None else None
            want = ("prev", pat("self.data")) if sync else pat("self.data")
            ctx.check(fd == want, "C30.sampled-data", b.site, f"{cls}.get.ret[{cn}]", found=tstr(fd) if fd else "none", required=tstr(want) + "  (data synchronised exactly when the trigger is)")
            no_effects(ctx, "C30.get-effect-free", comp, ex, b)
        else:
            ws = writers_of(ex, pat("self.data"), "any")
            ok = len(ws) == 1 and enclosing_body(ex, ws[0].fact) is b and is_sync(ws[0].fact.domain) and ws[0].rhs == ("arg", b.bodyid) and equivalent(ws[0].guard, run_f(b)) is None
            ctx.check(ok, "C30.output-data", ws[0].fact.site if ws else b.site, f"{cls}.data[{cn}]", found="; ".join(f"{tstr(w.fact.domain)} += data.eq({tstr(w.rhs)}) if {fstr(w.guard)}" for w in ws) or "no driver",
                      required="data <- argument in sync, only when put runs: driven from the next cycle and held")
    ctx.check(len(seen) == 8, "C30.all-configurations", comp.site, f"{cls}.configurations", found=f"{len(seen)} of 8 edge/polarity/synchronize settings", required="all 8 settings analysed", nontrivial=False)


def port_directions(ctx):
    """`data` is an input of InputSampler (get samples it) and an output of OutputBuffer (put drives it): the component
    signature says so, otherwise wiring.connect leaves the port unconnected and converting the component fails (F17)."""
    from ..pyfacts import Fn
    from ..stage import Effect

    base = Fn(ctx.repo, REL, "BasicIOBase.__init__", "C30")
    direction = base.param(2)
    flows = {}
    for ex in base.exs:
        dec = [v for t, v in ex.config if t == direction]
        for e in ex.of(Effect):
            m = pmatch("super().__init__(Q_d)", e.call)
            if m is not None and dec and m["d"][0] == "dict":
                items = m["d"][1] if len(m["d"]) == 2 and isinstance(m["d"][1], tuple) and (not m["d"][1] or isinstance(m["d"][1][0], tuple) and isinstance(m["d"][1][0][0], tuple)) else m["d"][1:]
                for kv in items:
                    k, v = (kv[0], kv[1]) if len(kv) == 2 else (kv[1], kv[2])
                    if k == ("c", "data") and v[0] == "call":
                        flows[dec[0]] = tstr(v[1])
    ctx.check(flows == {True: "Out", False: "In"}, "C30.data-direction", base.site, "BasicIOBase.signature", found=str(flows), required="data: Out(layout) when direction is true, In(layout) otherwise")
    for cls, want in (("InputSampler", False), ("OutputBuffer", True)):
        fn = Fn(ctx.repo, REL, f"{cls}.__init__", "C30")
        calls = [e.call for _, e in fn.facts(Effect) if e.call[0] == "call" and e.call[1] == ("a", ("call", ("n", "super"), (), ()), "__init__") and len(e.call[2]) >= 2]
        ok = len(calls) == 1 and calls[0][2][1] == ("c", want)
        ctx.check(ok, "C30.data-direction", fn.site, f"{cls}.direction", found="; ".join(tstr(c)[:120] for c in calls) or "no base constructor call",
                  required=f"direction={want}: data is an {'output driven by put' if want else 'input sampled by get'}")


def check(ctx):
    ctx.use(REL)
    port_directions(ctx)
    check_class(ctx, "InputSampler", "get", "in")
    check_class(ctx, "OutputBuffer", "put", "out")


MUTANTS = [
    ("polarity-not-inverted", REL, "        if not self._polarity:\n            trigger = ~trigger\n", "        if not self._polarity and not self._edge:\n            trigger = ~trigger\n"),
    ("edge-falling", REL, "m.d.comb += trigger.eq(new_trigger & ~old_trigger)", "m.d.comb += trigger.eq(~new_trigger & old_trigger)"),
    ("edge-level", REL, "m.d.comb += trigger.eq(new_trigger & ~old_trigger)", "m.d.comb += trigger.eq(new_trigger)"),
    ("old-trigger-not-delayed", REL, "m.d.sync += old_trigger.eq(new_trigger)", "m.d.comb += old_trigger.eq(new_trigger)"),
    ("sync-only-with-edge", REL, "        if self._synchronize:\n            trigger = Signal()\n            m.d.sync += trigger.eq(self.trigger)", "        if self._synchronize and self._edge:\n            trigger = Signal()\n            m.d.sync += trigger.eq(self.trigger)"),
    ("data-never-synchronized", REL, "        if self._synchronize:\n            data = Signal.like(self.data)\n            m.d.sync += data.eq(self.data)\n        else:\n            data = self.data", "        data = self.data"),
    ("put-comb", REL, "            m.d.sync += self.data.eq(arg)", "            m.d.top_comb += self.data.eq(arg)"),
    ("invert-after-edge", REL, """        if not self._polarity:
            trigger = ~trigger

        if self._edge:
            old_trigger = Signal(init=not self._polarity)
            new_trigger = trigger
            m.d.sync += old_trigger.eq(new_trigger)
            trigger = Signal()
            m.d.comb += trigger.eq(new_trigger & ~old_trigger)
""", """        if self._edge:
            old_trigger = Signal(init=not self._polarity)
            new_trigger = trigger
            m.d.sync += old_trigger.eq(new_trigger)
            trigger = Signal()
            m.d.comb += trigger.eq(new_trigger & ~old_trigger)

        if not self._polarity:
            trigger = ~trigger
"""),
]
