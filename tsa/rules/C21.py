"""C21 - MemoryBank: request/response protocol layer, port wiring, delay-register shapes, granularity consistency.

Decides the protocol layer and well-formedness over all 8 static configurations; does not decide that the
returned data equals the contents of an ideal memory (history + timing of the overflow buffer)."""

from .common import *
from ..comp import IDX, binders_of
from ..pm import pmatch, pat, find_all, has
from ..term import subst

REL = "transactron/lib/storage.py"


def cfgv(ex, key):
    for t, v in ex.config:
        if tstr(t) == key:
            return v
    return None


def _unify_idx(ex, body):
    """The def_methods index binder of `body`."""
    return body.binder


def check_bank(ctx, pid="C21"):
    ctx.use(REL)
    comp = Component(ctx.repo, REL, "MemoryBank", rule=pid)
    comp.require_modelled(pid)
    ctx.floor(pid, "MemoryBank configurations", len(comp.configs), 6, comp.site)
    from . import kinds

    ctx.floor(pid, "MemoryBank reset_less registers", kinds.register_wire_discipline(ctx, pid, comp, "MemoryBank"), 2, comp.site)
    from . import c21x

    c21x.data_path_indices(ctx, comp, pid)
    ctx.floor(pid, "MemoryBank local signals read", kinds.read_locals_driven(ctx, pid, comp, "MemoryBank"), 4, comp.site)
    ctx.floor(pid, "MemoryBank per-port loops", kinds.index_space_agreement(ctx, pid, comp, "MemoryBank"), 6, comp.site)
    ctx.floor(pid, "MemoryBank address fields", kinds.address_fields(ctx, pid, REL, "MemoryBank"), 1, comp.site)
    for ex in comp.configs:
        cn = cfg_name(ex)
        req, resp, wr = (need_body(ex, n, pid, comp.site) for n in ("read_req", "read_resp", "write"))
        ror, transp, gnone = cfgv(ex, "self.read_on_resp"), cfgv(ex, "self.transparent"), cfgv(ex, "(self.granularity is None)")
        # ---- roles from the ready expressions
        fq = to_formula(req.ready)
        ats = atoms_of(fq)
        if len(ats) != 1 or equivalent(fq, f_not(A(ats[0]))) is not None:
            ctx.bad(f"{pid}.req-ready", req.site, f"MemoryBank.read_req.ready[{cn}]", found=fstr(fq), required="read_req ready iff the overflow buffer is empty (fewer than two responses pending)")
            continue
        ovf_i = ats[0]  # overflow_valid[i] with the binder of read_req
        if not (ovf_i[0] == "i" and ovf_i[2] == req.binder):
            ctx.bad(f"{pid}.req-ready", req.site, f"MemoryBank.read_req.ready[{cn}]", found=fstr(fq), required="flag of the same port index")
            continue
        ctx.ok(f"{pid}.req-ready", req.site, f"MemoryBank.read_req.ready[{cn}]", found=fstr(fq), required="read_req[i] ready iff ~overflow_valid[i]")
        ovf = ovf_i[1]
        fr = to_formula(resp.ready)
        ats_r = atoms_of(fr)
        outv = [a for a in ats_r if not (a[0] == "i" and a[1] == ovf)]
        ok = len(ats_r) == 2 and len(outv) == 1 and outv[0][0] == "i" and outv[0][2] == resp.binder and equivalent(fr, f_or(A(outv[0]), A(("i", ovf, resp.binder)))) is None
        ctx.check(ok, f"{pid}.resp-ready", resp.site, f"MemoryBank.read_resp.ready[{cn}]", found=fstr(fr), required="read_resp[i] ready iff output_valid[i] | overflow_valid[i] (a response is pending)")
        if not ok:
            continue
        outvalid = outv[0][1]
        OV = ("i", ovf, IDX)
        OUT = ("i", outvalid, IDX)
        REQ = A(("a", ("i", strip_index(req.owner), IDX), "run"))
        RESP = A(("a", ("i", strip_index(resp.owner), IDX), "run"))
        # ---- valid flags next-state tables
        t_out = decision_table(ex, OUT, sync=True)
        check_table(ctx, f"{pid}.output-valid-next", comp.site, f"MemoryBank.output_valid'[{cn}]", t_out, [
            (REQ, const_pred(1), "a request makes the memory output valid (set after the response clears it: request wins)"),
            (f_and(f_not(REQ), RESP, f_not(A(OV))), const_pred(0), "a response served from the memory output (no overflow) invalidates it"),
            (f_and(f_not(REQ), RESP, A(OV)), HOLD, "a response served from the overflow buffer leaves the memory output valid"),
            (f_and(f_not(REQ), f_not(RESP)), HOLD, "no call: holds"),
        ])
        t_ov = decision_table(ex, OV, sync=True)
        spill = f_and(A(OUT), f_not(A(OV)), REQ, f_not(RESP))
        check_table(ctx, f"{pid}.overflow-valid-next", comp.site, f"MemoryBank.overflow_valid'[{cn}]", t_ov, [
            (spill, const_pred(1), "second request while the first response is unread: the pending value moves to the overflow buffer"),
            (f_and(RESP, A(OV)), const_pred(0), "a response drains the overflow buffer first"),
            (f_and(f_not(spill), f_not(f_and(RESP, A(OV)))), HOLD, "otherwise holds"),
        ])
        # everything that happens on a spill is a register update (address and data of the pending response are captured
        # together with the flag; a combinational assignment there would not be held until the response is read)
        setters = [w for _, w in t_ov.rows if w is not None and w.rhs == ("c", 1)]
        if setters:
            fr0 = setters[0].fact.frames
            mates = [h for h in ex.of(HwAssign) if h.frames == fr0]
            wrong = [h for h in mates if not is_sync(h.domain)]
            ctx.check(len(mates) >= 3 and not wrong, f"{pid}.spill-captures-registers", setters[0].fact.site, f"MemoryBank.spill[{cn}]", found=f"{len(mates)} assignment(s) on spill" + (f"; combinational: {tstr(wrong[0].lhs)}" if wrong else ""),
                      required="on a spill the overflow flag, address and data are all captured in registers (clocked assignments)")
        # ---- response value: overflow first
        rv = returned_fields(resp).get("data")
        if rv is None:
            ctx.bad(f"{pid}.resp-value", resp.site, f"MemoryBank.read_resp.ret[{cn}]", found="none", required="returns data")
            continue
        tv = decision_table(ex, rv, sync=False)
        srcs = {id(w): w for _, w in tv.rows if w is not None}
        ovrows = select_rows(tv, A(("i", ovf, resp.binder)))
        norows = select_rows(tv, f_not(A(("i", ovf, resp.binder))))
        ov_src = {w.rhs for _, w in ovrows if w is not None}
        no_src = {w.rhs for _, w in norows if w is not None}
        ok = len(ov_src) == 1 and len(no_src) == 1 and all(w is not None for _, w in ovrows + norows) and ov_src != no_src
        ctx.check(ok, f"{pid}.resp-selects-overflow-first", resp.site, f"MemoryBank.read_resp.value[{cn}]", found=f"overflow_valid: {[tstr(x) for x in ov_src]}; else: {[tstr(x) for x in no_src]}",
                  required="the response is taken from the overflow buffer when it is valid, else from the memory output (request order per port)")
        # data sources per configuration
        if ok:
            osrc, nsrc = next(iter(ov_src)), next(iter(no_src))
            fresh = bool(ror) and bool(transp)
            # overflow data register: the sync register written on spill
            spill_regs = [w for w in ex.of(HwAssign) if is_sync(w.domain) and w.lhs is not None and w.lhs[0] == "i" and w.lhs[1] not in (ovf, outvalid)
                          and any(fr[0] == "if" for fr in w.frames) and not enclosing_body(ex, w)]
            ctx.__dict__.setdefault("_c21", {})[cn] = (osrc, nsrc)
            is_port_data = nsrc[0] == "a" and nsrc[2] == "data"

            def forwarded_default(x):
                """x is combinationally driven by a forwarding mux: return the mux default, else None."""
                if x[0] != "i":
                    return None
                for h in ex.of(HwAssign):
                    if h.lhs is not None and h.lhs[0] == "i" and h.lhs[1] == x[1] and not is_sync(h.domain):
                        mm = pmatch("OneHotMux.create(Q_m, Q_pairs, Q_dflt)", h.rhs)
                        if mm:
                            return mm["dflt"]
                return None

            def is_register(x):
                return x[0] == "i" and any(h.lhs is not None and h.lhs[0] == "i" and h.lhs[1] == x[1] and is_sync(h.domain) for h in ex.of(HwAssign))

            if fresh:
                od, nd = forwarded_default(osrc), forwarded_default(nsrc)
                ok_src = od is not None and nd is not None and is_register(od) and nd[0] == "a" and nd[2] == "data"
            else:
                ok_src = is_port_data and is_register(osrc) and forwarded_default(osrc) is None
            ctx.check(ok_src, f"{pid}.resp-source", resp.site, f"MemoryBank.read_resp.source[{cn}]", found=f"{tstr(osrc)} / {tstr(nsrc)}",
                      required="transparent read_on_resp returns the forwarded (next) values of the overflow data and of the port data; otherwise the stored overflow data / the read port's data")
        # ---- ports
        wports = rports = None
        for oid, o in ex.objects.items():
            if o.ctor[0] == "lc" and ex.obj(o.ctor[2]) is not None:
                pc = ex.obj(o.ctor[2]).ctor
                if pmatch("Q_m.write_port(granularity=self.granularity)", pc):
                    wports = ("obj", oid)
                    ctx.check(o.ctor[3][0][1] == pat("range(self.writes_ports)"), f"{pid}.port-count", o.site, f"MemoryBank.write_ports[{cn}]", found=tstr(o.ctor[3][0][1]), required="one write port per write method")
                mm = pmatch("Q_m.read_port(transparent_for=Q_t)", pc)
                if mm:
                    rports = ("obj", oid)
                    rp_tf = mm["t"]
                    ctx.check(o.ctor[3][0][1] == pat("range(self.reads_ports)"), f"{pid}.port-count", o.site, f"MemoryBank.read_ports[{cn}]", found=tstr(o.ctor[3][0][1]), required="one read port per read method pair")
        if wports is None or rports is None:
            raise AnalysisError(pid, comp.site, f"MemoryBank[{cn}]: memory ports not found", missing=f"MemoryBank[{cn}]: memory ports not found")
        want_tf = bool(transp) or bool(ror)
        is_all = rp_tf == wports
        is_none = rp_tf == ("list",)
        ctx.check(is_all if want_tf else is_none, f"{pid}.port-transparency", ex.obj(rports).site, f"MemoryBank.read_port.transparent_for[{cn}]", found=tstr(rp_tf),
                  required="read ports transparent for all write ports iff transparent or read_on_resp")
        # write wiring
        for fld, src in (("addr", "addr"), ("data", "data")):
            ws = writers_of(ex, ("a", ("i", wports, IDX), fld))
            ok = len(ws) == 1 and enclosing_body(ex, ws[0].fact) is wr and ws[0].rhs == ("a", ("arg", wr.bodyid), src) and ws[0].fact.lhs[1][2] == wr.binder
            ctx.check(ok, f"{pid}.write-wiring", ws[0].fact.site if ws else wr.site, f"MemoryBank.write_port.{fld}[{cn}]", found="; ".join(f"{tstr(x.fact.lhs)} <- {tstr(x.rhs)}" for x in ws),
                      required=f"write[i] drives write_port[i].{fld} from its {src} argument (same index)")
        ws = writers_of(ex, ("a", ("i", wports, IDX), "en"))
        want_en = const_pred(1) if gnone else (lambda x: x == ("a", ("arg", wr.bodyid), "mask"))
        ok = len(ws) == 1 and enclosing_body(ex, ws[0].fact) is wr and domain_class(ws[0].fact.domain) == RUN_GATED and want_en(ws[0].rhs) and ws[0].fact.lhs[1][2] == wr.binder
        ctx.check(ok, f"{pid}.write-enable", ws[0].fact.site if ws else wr.site, f"MemoryBank.write_port.en[{cn}]", found="; ".join(f"{tstr(x.fact.domain)} += {tstr(x.fact.lhs)}.eq({tstr(x.rhs)})" for x in ws),
                  required="write enable driven only while write[i] runs: 1 without granularity, the mask argument with granularity")
        # read enable / address
        t_en = decision_table(ex, ("a", ("i", rports, IDX), "en"), sync=False)
        if ror:
            check_table(ctx, f"{pid}.read-enable", comp.site, f"MemoryBank.read_port.en[{cn}]", t_en, [(REQ, const_pred(1), "enabled by a request"), (f_not(REQ), HOLD, "otherwise left at its default (1): the port keeps re-reading the tracked address")])
        else:
            check_table(ctx, f"{pid}.read-enable", comp.site, f"MemoryBank.read_port.en[{cn}]", t_en, [(REQ, const_pred(1), "enabled by a request"), (f_not(REQ), const_pred(0), "otherwise 0: the output register keeps the last read value")])
        t_ad = decision_table(ex, ("a", ("i", rports, IDX), "addr"), sync=False)
        arg_addr = lambda x: x == ("a", ("arg", req.bodyid), "addr")  # noqa: E731
        cases = [(REQ, arg_addr, "a request addresses the port with its argument")]
        out_addr = None
        for w in ex.of(HwAssign):
            if is_sync(w.domain) and enclosing_body(ex, w) is req and w.rhs == ("a", ("arg", req.bodyid), "addr"):
                out_addr = w.lhs[1] if w.lhs[0] == "i" else None
        if ror:
            cases.append((f_not(REQ), lambda x: out_addr is not None and x == ("i", out_addr, IDX), "otherwise the tracked address of the pending response (re-read every cycle)"))
        check_table(ctx, f"{pid}.read-address", comp.site, f"MemoryBank.read_port.addr[{cn}]", t_ad, cases)
        ctx.check(out_addr is not None, f"{pid}.address-tracking", req.site, f"MemoryBank.read_output_addr[{cn}]", found=tstr(out_addr) if out_addr else "not stored", required="the request stores its address (needed by read_on_resp forwarding)")
        from . import c21y

        ctx.count(f"{pid}:data-path-transfers", c21y.transfers(ctx, comp, ex, cn, req, bool(ror), pid))
        # ---- shapes of delay registers (F-SHAPE)
        depth_shape = pat("range(self.depth)")
        for oid, o in ex.objects.items():
            if o.ctor[0] != "lc":
                continue
            eo = ex.obj(o.ctor[2])
            if eo is None or not is_call_named(eo.ctor, "Signal"):
                continue
            tgt = ("obj", oid)
            for w in ex.of(HwAssign):
                if w.lhs is not None and w.lhs[0] == "i" and w.lhs[1] == tgt and is_sync(w.domain):
                    shape = eo.ctor[2][0] if eo.ctor[2] else ("c", 1)
                    if w.rhs == ("a", ("arg", req.bodyid), "addr") or (out_addr is not None and w.rhs[0] == "i" and w.rhs[1] == out_addr):
                        ctx.check(shape == depth_shape, f"{pid}.delay-shape", eo.site, f"MemoryBank.{o.name}.shape[{cn}]", found=tstr(shape), required="an address delay register has the address shape range(depth)")
                    elif has("Q_p.data", w.rhs) or (w.rhs[0] == "i" and ex.obj(w.rhs[1]) is not None and shape_of(ex, w.rhs[1]) == pat("self.shape")):
                        ctx.check(shape == pat("self.shape"), f"{pid}.delay-shape", eo.site, f"MemoryBank.{o.name}.shape[{cn}]", found=tstr(shape), required="a data delay register has the data shape")
        # ---- F-GRAN: forwarding network under granularity
        if ror:
            _gran_forwarding(ctx, pid, comp, ex, cn, wports, gnone)


def is_call_named(t, name):
    return t[0] == "call" and t[1] == ("n", name)


def shape_of(ex, obj):
    o = ex.obj(obj)
    if o is None or o.ctor[0] != "lc":
        return None
    eo = ex.obj(o.ctor[2])
    if eo is None or not eo.ctor[2]:
        return None
    return eo.ctor[2][0]


def _gran_forwarding(ctx, pid, comp, ex, cn, wports, gnone):
    """Wherever the write enable may be a multi-bit granule mask, a consumer must treat it granule-wise.  The
    read_on_resp forwarding selects `write_port[j].data` (the whole word) by `write_port[j].en & (addr == ...)`."""
    sels = []
    for h in ex.of(HwAssign):
        if h.rhs is None:
            continue
        for m in find_all("OneHotMux.create(Q_m, Q_pairs, Q_dflt)", h.rhs):
            pairs = m["pairs"]
            if pairs[0] == "lc" and pairs[2][0] == "tuple":
                sel, val = pairs[2][1], pairs[2][2]
                if any(s[0] == "a" and s[2] == "en" and s[1][0] == "i" and s[1][1] == wports for s in subterms(sel)):
                    sels.append((h, sel, val))
    ctx.check(bool(sels), f"{pid}.forwarding-present", comp.site, f"MemoryBank.forwarding[{cn}]", found=f"{len(sels)} forwarding mux(es)", required="read_on_resp forwards same-cycle writes to the pending responses")
    for h, sel, val in sels:
        # the mask is used granule-wise only if every occurrence of `<port>.en` is subscripted (en[g]); an unsubscripted
        # occurrence combined with a 1-bit term / any() / bool() collapses it to a row-level choice
        en_terms = [s for s in subterms(sel) if s[0] == "a" and s[2] == "en"]
        indexed = [s for s in subterms(sel) if s[0] == "i" and s[1][0] == "a" and s[1][2] == "en"]
        collapsed = len(en_terms) > len(indexed)
        whole_word = val[0] == "a" and val[2] == "data"
        cons = f"MemoryBank.read_on_resp.forwarding-select[{cn}]"
        if gnone:
            ctx.ok(f"{pid}.granular-forwarding", h.site, cons, found=f"select {tstr(sel)[:100]} (en is one bit without granularity)", required="row-level forwarding is exact when the enable is a single bit")
        else:
            ctx.check(not (collapsed and whole_word), f"{pid}.granular-forwarding", h.site, "MemoryBank.read_on_resp.forwarding-select",
                      found=f"with granularity: select = {tstr(sel)[:120]} (mask collapsed to its bit 0 / any), forwards the whole word {tstr(val)}",
                      required="with a granule mask only the written granules may be forwarded; unwritten granules must come from the memory")


def check(ctx):
    check_bank(ctx)
    from . import masklay

    masklay.mask_layout(ctx, "C21", REL, "MemoryBank")
    # MemoryBank is parametrised by the memory type; the well-formedness of the ILVT of the multiport memories it may be
    # instantiated with is part of its mechanism (a too narrow bank index makes reads return another bank's contents)
    from . import c23y

    MEM = "transactron/utils/amaranth_ext/memory.py"
    ctx.use(MEM)
    comp = Component(ctx.repo, MEM, "MultiportILVTMemory", rule="C21")
    n = sum(c23y.ilvt_entry_width(ctx, ex, "C21") for ex in comp.configs)
    ctx.floor("C21", "ILVT instances", n, 2, comp.site)
    # ... and so are the port objects, the option plumbing (granularity!) and the timing coherence of every memory type the
    # bank can be built on: the same obligations as C23, reported under this property (known finding F4 belongs to C23's
    # own granularity rule, which is not repeated here)
    from . import c23w, c23z
    from .C23 import CLASSES as _MEMS

    nt = c23w.ports(ctx)
    for cls in _MEMS:
        mc = Component(ctx.repo, MEM, cls, rule="C21")
        for ex in mc.configs:
            nt += c23z.timing(ctx, mc, ex, cls, cfg_name(ex))
    ctx.floor("C21", "memory-type obligations", nt, 40, MEM)


MUTANTS = [
    ("req-ready-output-valid", REL, "@def_methods(m, self.read_req, lambda i: ~overflow_valid[i])", "@def_methods(m, self.read_req, lambda i: ~read_output_valid[i])"),
    ("resp-ready-and", REL, "lambda i: read_output_valid[i] | overflow_valid[i])", "lambda i: read_output_valid[i] & overflow_valid[i])"),
    ("spill-ignores-resp", REL, "with m.If(read_output_valid[i] & ~overflow_valid[i] & self.read_req[i].run & ~self.read_resp[i].run):", "with m.If(read_output_valid[i] & ~overflow_valid[i] & self.read_req[i].run):"),
    ("resp-clears-output-first", REL, "            with m.If(overflow_valid[i]):\n                m.d.sync += overflow_valid[i].eq(0)\n            with m.Else():\n                m.d.sync += read_output_valid[i].eq(0)", "            with m.If(read_output_valid[i]):\n                m.d.sync += read_output_valid[i].eq(0)\n            with m.Else():\n                m.d.sync += overflow_valid[i].eq(0)"),
    ("resp-value-memory-first", REL, "                with m.If(overflow_valid[i]):\n                    m.d.av_comb += ret.eq(overflow_data[i])\n                with m.Else():\n                    m.d.av_comb += ret.eq(read_port[i].data)", "                with m.If(read_output_valid[i]):\n                    m.d.av_comb += ret.eq(read_port[i].data)\n                with m.Else():\n                    m.d.av_comb += ret.eq(overflow_data[i])"),
    ("not-transparent-when-read-on-resp", REL, "transparent_for=write_port if self.transparent or self.read_on_resp else []", "transparent_for=write_port if self.transparent else []"),
    ("write-wrong-port", REL, "m.d.av_comb += write_port[i].addr.eq(arg.addr)", "m.d.av_comb += write_port[0].addr.eq(arg.addr)"),
    ("write-en-ungated", REL, "            if self.granularity is None:\n                m.d.comb += write_port[i].en.eq(1)\n            else:\n                m.d.comb += write_port[i].en.eq(arg.mask)\n\n        return m\n\n\nclass ContentAddressableMemory", "            if self.granularity is None:\n                m.d.av_comb += write_port[i].en.eq(1)\n            else:\n                m.d.comb += write_port[i].en.eq(arg.mask)\n\n        return m\n\n\nclass ContentAddressableMemory"),
    ("read-en-default-missing", REL, "                m.d.comb += read_port[i].en.eq(0)  # because the init value is 1\n", "                pass\n"),
    ("addr-reg-data-shape", REL, "read_output_addr = [Signal(range(self.depth), reset_less=True) for _ in range(self.reads_ports)]", "read_output_addr = [Signal(self.shape, reset_less=True) for _ in range(self.reads_ports)]"),
    ("req-after-resp-order", REL, """        @def_methods(m, self.read_req, lambda i: ~overflow_valid[i])
        def _(i: int, addr):
            m.d.sync += read_output_valid[i].eq(1)
""", """        @def_methods(m, self.read_req, lambda i: ~overflow_valid[i])
        def _(i: int, addr):
            with m.If(~self.read_resp[i].run):
                m.d.sync += read_output_valid[i].eq(1)
"""),
    ("transparent-resp-returns-stale", REL, "                with m.If(overflow_valid[i]):\n                    m.d.av_comb += ret.eq(overflow_next[i])\n                with m.Else():\n                    m.d.av_comb += ret.eq(read_output_next[i])", "                with m.If(overflow_valid[i]):\n                    m.d.av_comb += ret.eq(overflow_data[i])\n                with m.Else():\n                    m.d.av_comb += ret.eq(read_output_next[i])"),
]
