"""C31: the `tag` argument of TaggedCounter.incr can represent every configured tag (a too narrow shape truncates the
largest tag onto another counter)."""

from __future__ import annotations

from ..front import AnalysisError
from ..logic import NotEvaluable, evalt
from ..pm import pat, pmatch
from ..pyfacts import Fn
from ..stage import Store
from ..term import tstr

REL = "transactron/lib/metrics.py"


def tag_shape_covers_tags(ctx, pid="C31"):
    fn = Fn(ctx.repo, REL, "TaggedCounter.__init__", pid)
    tags = ("p", fn.fi.qualname, 2, "tags")
    names = [a.arg for a in fn.fi.node.args.args]
    if "tags" in names:
        tags = fn.param(names.index("tags"))
    MIN, MAX = ("call", ("n", "min"), (tags,), ()), ("call", ("n", "max"), (tags,), ())
    seen = {}
    for ex in fn.exs:
        is_list = dict(ex.config).get(("call", ("n", "isinstance"), (tags, ("n", "list")), ()))
        for s in ex.of(Store):
            if s.target != pat("self.tag_shape"):
                continue
            key = (s.site, tstr(s.value))
            if key in seen:
                continue
            seen[key] = True
            if s.value[0] == "p" and s.value[1] == fn.fi.qualname and s.value[-1] == "tags":
                ctx.ok(f"{pid}.tag-shape", s.site, "TaggedCounter.tag_shape[range/enum]", found=tstr(s.value), required="a range or Enum is its own shape", nontrivial=False)
                continue
            m = pmatch("range(Q_lo, Q_hi)", s.value)
            bad = None
            from ..term import subterms

            mins = [x for x in subterms(s.value) if x[0] == "call" and x[1] == ("n", "min") and len(x[2]) == 1]
            maxs = [x for x in subterms(s.value) if x[0] == "call" and x[1] == ("n", "max") and len(x[2]) == 1]
            if mins and maxs and mins[0][2] == maxs[0][2]:
                MIN, MAX = mins[0], maxs[0]
            if m is None:
                bad = "not a range over the listed tags"
            else:
                try:
                    for lo_, hi_ in ((0, 1), (0, 4), (1, 8), (-3, 16), (2, 7), (5, 5)):
                        lo, hi = evalt(m["lo"], {MIN: lo_, MAX: hi_}), evalt(m["hi"], {MIN: lo_, MAX: hi_})
                        if not (lo <= lo_ and hi_ < hi):
                            bad = f"tags with min {lo_} and max {hi_}: range({lo}, {hi}) does not contain {hi_ if hi_ >= hi else lo_}"
                            break
                except NotEvaluable as e:
                    raise AnalysisError(pid, s.site, f"tag shape {tstr(s.value)} outside the evaluable fragment ({e})")
            ctx.check(bad is None, f"{pid}.tag-shape", s.site, "TaggedCounter.tag_shape[list]", found=tstr(s.value) + ("" if bad is None else "  " + bad),
                      required="for a list of tags the argument shape is a range containing every listed tag: range(min(tags), max(tags) + 1)")
    ctx.floor(pid, "TaggedCounter tag shapes", len(seen), 2, fn.site)
