"""Conditional-call infection (C12): which bodies count as conditionally called when merged transactions are built."""

from __future__ import annotations

from ..front import AnalysisError
from ..logic import atoms_of, equivalent, f_and, f_not, f_or, fstr, implies, to_formula
from ..pm import find_all, has, pat, pmatch
from ..pyfacts import Fn, loops, py_guard
from ..report import Ctx
from ..stage import Effect, Jump, Raise, Return
from ..term import mk_op, subterms, tstr
from .core import A, MANAGER, _fn


def conditionally_called(ctx: Ctx, pid: str):
    rule = f"{pid}.conditionally-called"
    fn = _fn(ctx, MANAGER, "TransactionManager._conditionally_called", rule)
    rets = fn.only(Return, lambda r: r.callid is None, rule, "return")
    ret = rets[0][1].value
    adds = fn.facts(Effect, lambda e: pmatch("Q_s.add(Q_x)", e.call) is not None and pmatch("Q_s.add(Q_x)", e.call)["s"] == ret)
    scan = [(ex, e) for ex, e in adds if loops(e) and pmatch("Q_mm.info_by_call.items()", loops(e)[0][1])]
    # (a) chain scan: the *method at the end of the call chain* is marked when any link of the chain is conditional
    ok = False
    detail = "; ".join(f"{tstr(e.call)} if {fstr(py_guard(e))[:140]}" for _, e in scan) or "no marking in the chain scan"
    for ex, e in scan:
        lp = loops(e)
        if len(lp) != 3:
            continue
        item, call, link = lp[0][0][0], lp[1][0][0], lp[2][0][0]
        trans, meth = ("i", ("i", item, ("c", 0)), ("c", 0)), ("i", ("i", item, ("c", 0)), ("c", 1))
        x = pmatch("Q_s.add(Q_x)", e.call)["x"]
        z = pmatch("zip(Q_a, Q_b)", lp[2][1])
        okz = (lp[1][1] == ("i", item, ("c", 1)) and z is not None and z["a"] == ("a", call, "ancestors")
               and z["b"] == ("tuple", ("star", ("i", ("a", call, "ancestors"), ("slice", ("c", 1), ("c", None), ("c", None)))), trans))
        g = py_guard(e)
        ats = atoms_of(g)
        okg = False
        if len(ats) == 1:
            m = pmatch("Q_callee in Q_lst", ats[0])
            if m and m["lst"][0] == "lc":
                lc = m["lst"]
                callee = ("i", z["a"], link) if z else None
                caller = ("i", z["b"], link) if z else None
                okg = (m["callee"] == callee and lc[2] == ("a", lc[3][0][0], "_body") and lc[3][0][1] == ("a", caller, "conditional_calls") and equivalent(g, A(ats[0])) is None)
        ok = ok or (okz and okg and x == meth)
        ctx.check(x == meth, rule + ".marks-chain-end", e.site, "_conditionally_called.scan.marked", found=f"marks {tstr(x)}", required="the method the call chain leads to (the key of info_by_call) is marked, not an intermediate link")
    ctx.check(ok, rule + ".chain-scan", scan[0][1].site if scan else fn.site, "_conditionally_called.scan", found=detail,
              required="for every call record: if any (callee, caller) link of the chain ancestors[i] <- ancestors[i+1] / root transaction is a conditional call, the called method is conditionally called")
    # (b) infection through simultaneous + ready-dependent transactions
    inf = [(ex, e) for ex, e in adds if any(fr[0] == "while" for fr in e.frames)]
    dep_add = [(ex, e) for ex, e in inf if len(loops(e)) == 1]
    sub_add = [(ex, e) for ex, e in inf if len(loops(e)) == 2]
    okd = False
    okv = False
    for ex, e in dep_add:
        dep = loops(e)[0][0][0]
        g = py_guard(e)
        ats = atoms_of(g)
        in_tr = [a for a in ats if pmatch("Q_d in Q_mm.transactions", a) and pmatch("Q_d in Q_mm.transactions", a)["d"] == dep]
        in_rd = [a for a in ats if a not in in_tr and pmatch("Q_d in Q_s", a) and pmatch("Q_d in Q_s", a)["d"] == dep and "ready_dependent" in tstr(a)]
        # allowed besides: "not marked yet", and "dep is not the body this one is nested in" (that one is never a dependent, the
        # test only keeps the loop from rejecting the parent of a branch that is being visited)
        marked = [a for a in ats if a == ("op", "in", dep, ret)]
        # exactly: some ready-dependent relation of dep ENDS IN the body being visited (the element the worklist loop took, whose
        # simultaneous_list is iterated).  Without "ends in" every partner that has any nested body would be skipped instead of
        # being rejected / marked.
        visited = pmatch("Q_m.simultaneous_list", loops(e)[0][1])
        visited = visited["m"] if visited else None

        def _is_parent_test(a):
            ma = pmatch("any(Q_g)", a)
            if ma is None or ma["g"][0] != "lc" or len(ma["g"][3]) != 1 or visited is None:
                return False
            rb, rit, rc = ma["g"][3][0]
            rb = rb[0] if isinstance(rb, tuple) and rb and isinstance(rb[0], tuple) else rb
            f = to_formula(ma["g"][2])
            want_p = f_and(A(("a", rb, "ready_dependent")), A(mk_op("is", ("a", rb, "end"), visited)))
            return not rc and rit == ("a", dep, "relations") and equivalent(f, want_p) is None

        parent = [a for a in ats if a not in in_rd and _is_parent_test(a)]
        rest = [a for a in ats if a not in in_tr + in_rd + marked + parent]
        want = f_and(*[A(a) for a in in_tr + in_rd], *[f_not(A(a)) for a in marked + parent])
        this = (pmatch("Q_s.add(Q_x)", e.call)["x"] == dep and not rest and len(in_tr) == 1 and len(in_rd) == 1 and equivalent(g, want) is None
                and pmatch("Q_m.simultaneous_list", loops(e)[0][1]) is not None)
        okd = okd or this
        if this:
            # F31: the marked transaction is visited in turn (the bodies nested in it are conditional too)
            for _, q in [(qx, qe) for qx in fn.exs for qe in qx.of(Effect) if pmatch("Q_l.append(Q_x)", qe.call) and any(fr[0] == "while" for fr in qe.frames)]:
                if len(loops(q)) == 1 and pmatch("Q_l.append(Q_x)", q.call)["x"] == loops(q)[0][0][0] and loops(q)[0][1] == loops(e)[0][1] and equivalent(py_guard(q), g) is None:
                    okv = True
    ctx.check(okd, rule + ".infects-simultaneous-dependents", dep_add[0][1].site if dep_add else fn.site, "_conditionally_called.infection.dep",
              found="; ".join(f"{tstr(e.call)} if {fstr(py_guard(e))[:160]} in {len(loops(e))} loop(s)" for _, e in dep_add) or "the simultaneous transaction itself is never marked at that nesting level",
              required="every transaction that is simultaneous with and ready-dependent on a conditionally called method is itself marked (for each such transaction, not only when it calls a new method)")
    ctx.check(okv, rule + ".visits-marked-dependents", dep_add[0][1].site if dep_add else fn.site, "_conditionally_called.infection.dep-worklist",
              found="a newly marked transaction is " + ("queued" if okv else "not queued"),
              required="a newly marked transaction is put on the worklist under the same condition: the bodies nested in it (deeper condition() levels) are conditionally called too")
    oks = False
    for ex, e in sub_add:
        lp = loops(e)
        dep, cm = lp[0][0][0], lp[1][0][0]
        g = py_guard(e)
        # the only test on the called method itself is "not yet marked"
        about_cm = [a for a in atoms_of(g) if any(x == cm for x in subterms(a))]
        fresh = not about_cm or (about_cm == [("op", "in", cm, ret)] and implies(g, f_not(A(about_cm[0]))) is None and g is not False)
        oks = oks or (fresh and pmatch("Q_s.add(Q_x)", e.call)["x"] == cm and pmatch("Q_mm.methods_by_transaction[TBody(Q_d)]", lp[1][1]) is not None and pmatch("Q_mm.methods_by_transaction[TBody(Q_d)]", lp[1][1])["d"] == dep)
    ctx.check(oks, rule + ".infects-called-methods", sub_add[0][1].site if sub_add else fn.site, "_conditionally_called.infection.methods", found="; ".join(f"{tstr(e.call)} if {fstr(py_guard(e))[:200]}" for _, e in sub_add) or "none",
              required="all methods called by such a transaction are marked too unless already marked (and queued for further infection)")
    q = [(ex, e) for ex in fn.exs for e in ex.of(Effect) if pmatch("Q_l.append(Q_x)", e.call) and any(fr[0] == "while" for fr in e.frames)]
    okq = any(len(loops(e)) == 2 and pmatch("Q_l.append(Q_x)", e.call)["x"] == loops(e)[1][0][0] and any(py_guard(e) == py_guard(e2) for _, e2 in sub_add) for _, e in q)
    ctx.check(okq, rule + ".worklist", q[0][1].site if q else fn.site, "_conditionally_called.infection.worklist", found=f"{len(q)} append(s) to the worklist", required="newly marked methods are queued so the infection is transitive")
    rs = fn.facts(Raise)
    ctx.check(bool(rs), rule + ".unsupported-rejected", fn.site, "_conditionally_called.infection.reject", found=f"{len(rs)} raise(s)", required="a simultaneity constraint on a conditionally called method that is not ready-dependent is rejected", nontrivial=False)
