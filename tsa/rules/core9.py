"""Obligations added after the audit of the core properties (F23, F24).

  scheduler-consults-order   every connected-component scheduler (a function with the TransactionScheduler signature
                             (method_map, gr, cc, porder)) decides who runs from the priority order it is handed; a scheduler that
                             never reads `porder` cannot honour add_conflict priorities (C08)
"""

from __future__ import annotations

import ast

from ..front import AnalysisError
from ..report import Ctx
from .core import MANAGER, SCHED


def _module_functions(ctx: Ctx, rel: str):
    ctx.use(rel)
    try:
        mi = ctx.repo.module(rel)
    except OSError as e:
        raise AnalysisError("C08.scheduler-consults-order", rel, f"cannot read: {e}")
    return [fi.node for fi in mi.functions.values() if isinstance(fi.node, ast.FunctionDef)]


def validated_arguments_run_independent(ctx: Ctx, pid: str):
    """F30: `runnable` of a transaction must not depend on any `run` (the scheduler computes run from runnable).  The
    arguments handed to validate_arguments come from the CallInfo records of the transaction; MethodMap.rec records one
    for every call at every depth of the call tree, and the argument of a call made *inside a method body* is computed from
    that method's data_in, which the manager multiplexes by the callers' run bits.  So the records used for validation have
    to be restricted to direct calls of the transaction (depth 1), or deeper validated calls have to be refused.
    Decided on the nested function that builds the validator term: every comprehension over info_by_call[...] that reads
    `.arg` carries a condition on the record's ancestors, or the function raises under a condition on them."""
    rule = f"{pid}.validated-arguments-run-independent"
    ctx.use(MANAGER)
    try:
        fi = ctx.repo.cls(MANAGER, "TransactionManager").methods["elaborate"]
    except (KeyError, OSError) as e:
        raise AnalysisError(rule, MANAGER, f"TransactionManager.elaborate not found: {e}", missing="TransactionManager.elaborate")
    helpers = [n for n in ast.walk(fi.node) if isinstance(n, ast.FunctionDef) and n is not fi.node
               and any(isinstance(c, ast.Attribute) and c.attr == "_validate_arguments" for c in ast.walk(n))]
    ctx.floor(rule, "validator-building helpers in elaborate", len(helpers), 1, f"{MANAGER}:{fi.node.lineno}")
    for h in helpers:
        comps = []
        for n in ast.walk(h):
            if isinstance(n, (ast.GeneratorExp, ast.ListComp)):
                for g in n.generators:
                    reads_records = any(isinstance(c, ast.Attribute) and c.attr == "info_by_call" for c in ast.walk(g.iter))
                    reads_arg = isinstance(g.target, ast.Name) and any(
                        isinstance(c, ast.Attribute) and c.attr == "arg" and isinstance(c.value, ast.Name) and c.value.id == g.target.id for c in ast.walk(n.elt))
                    if reads_records and reads_arg:
                        comps.append((n, g))
        # a local bound to info_by_call[...] and iterated later counts as the records too
        aliases = {t.id for s in ast.walk(h) if isinstance(s, ast.Assign) and any(isinstance(c, ast.Attribute) and c.attr == "info_by_call" for c in ast.walk(s.value))
                   for t in s.targets if isinstance(t, ast.Name)}
        for n in ast.walk(h):
            if isinstance(n, (ast.GeneratorExp, ast.ListComp)):
                for g in n.generators:
                    if isinstance(g.iter, ast.Name) and g.iter.id in aliases and isinstance(g.target, ast.Name) and any(
                            isinstance(c, ast.Attribute) and c.attr == "arg" and isinstance(c.value, ast.Name) and c.value.id == g.target.id for c in ast.walk(n.elt)):
                        comps.append((n, g))

        def on_depth(e):
            return any(isinstance(c, ast.Attribute) and c.attr == "ancestors" for c in ast.walk(e))

        unrestricted = [(n, g) for n, g in comps if not any(on_depth(c) for c in g.ifs)]
        alias_filtered = any(isinstance(s, ast.Assign) and any(isinstance(t, ast.Name) and t.id in aliases for t in s.targets) and on_depth(s.value) for s in ast.walk(h))
        refuses = any(isinstance(s, ast.If) and on_depth(s.test) and any(isinstance(r, ast.Raise) for r in ast.walk(s)) for s in ast.walk(h))
        ctx.floor(rule, "argument reads of call records", len(comps), 1, f"{MANAGER}:{h.lineno}")
        ok = not unrestricted or alias_filtered or refuses
        ctx.check(ok, rule, f"{MANAGER}:{h.lineno}", f"elaborate.{h.name}",
                  found=f"{len(unrestricted)} of {len(comps)} reads of CallInfo.arg range over the records of every depth; refusal of deeper validated calls: {refuses}",
                  required="the arguments validated for a transaction are those of its own (depth 1) calls, or a validated method reached through another method "
                           "is refused: an argument computed inside a method body depends on that method's run-multiplexed input, and runnable must not depend on run")


def enable_call_defaults(ctx: Ctx, pid: str):
    """A call without enable_call is an enabled call: every `enable_call` parameter of the call entry points (Method.__call__,
    Methods.__call__) defaults to the constant 1, and Methods.__call__ hands its own value on."""
    from .core import METHOD

    rule = f"{pid}.enable-call-default"
    ctx.use(METHOD)
    try:
        mi = ctx.repo.module(METHOD)
    except OSError as e:
        raise AnalysisError(rule, METHOD, f"cannot read: {e}")
    found = []
    for cls in [n for n in mi.tree.body if isinstance(n, ast.ClassDef)]:
        for f in [n for n in cls.body if isinstance(n, ast.FunctionDef)]:
            a = f.args
            pos = a.posonlyargs + a.args
            defaults = dict(zip([x.arg for x in pos[len(pos) - len(a.defaults):]], a.defaults))
            defaults.update({k.arg: d for k, d in zip(a.kwonlyargs, a.kw_defaults) if d is not None})
            names = [x.arg for x in pos + a.kwonlyargs]
            if "enable_call" in names:
                d = defaults.get("enable_call")
                txt = ast.unparse(d) if d is not None else "<no default>"
                one = d is not None and (
                    (isinstance(d, ast.Constant) and d.value in (1, True))
                    or (isinstance(d, ast.Call) and isinstance(d.func, ast.Name) and d.func.id in ("C", "Const") and d.args and isinstance(d.args[0], ast.Constant)
                        and d.args[0].value == 1 and all(isinstance(x, ast.Constant) and x.value == 1 for x in d.args[1:]) and not d.keywords))
                found.append((f"{cls.name}.{f.name}", txt, one, f.lineno))
    ctx.floor(rule, "call entry points with an enable_call parameter", len(found), 2, METHOD)
    for name, txt, one, ln in found:
        ctx.check(one, rule, f"{METHOD}:{ln}", name, found=f"enable_call = {txt}", required="enable_call defaults to the constant 1 (a plain call is an enabled call)")
    # the collection hands the caller's enable_call to the single method it wraps
    for cls in [n for n in mi.tree.body if isinstance(n, ast.ClassDef) and n.name == "Methods"]:
        for f in [n for n in cls.body if isinstance(n, ast.FunctionDef) and n.name == "__call__"]:
            # by keyword, or at the position the parameter has in Method.__call__ (self not counted)
            pos_of = None
            for mc in [n for n in mi.tree.body if isinstance(n, ast.ClassDef) and n.name == "Method"]:
                for mf in [n for n in mc.body if isinstance(n, ast.FunctionDef) and n.name == "__call__"]:
                    pn = [x.arg for x in mf.args.posonlyargs + mf.args.args][1:]
                    pos_of = pn.index("enable_call") if "enable_call" in pn else None
            fwd = [c for c in ast.walk(f) if isinstance(c, ast.Call) and (
                any(k.arg == "enable_call" and isinstance(k.value, ast.Name) and k.value.id == "enable_call" for k in c.keywords)
                or (pos_of is not None and len(c.args) > pos_of and isinstance(c.args[pos_of], ast.Name) and c.args[pos_of].id == "enable_call"
                    and not any(isinstance(x, ast.Starred) for x in c.args[:pos_of + 1])))]
            ctx.check(bool(fwd), rule + ".forwarded", f"{METHOD}:{f.lineno}", "Methods.__call__", found=f"{len(fwd)} call(s) passing enable_call=enable_call",
                      required="Methods.__call__ forwards its enable_call to the method it calls")


def module_connector(ctx: Ctx, pid: str):
    """The schedulers of all conflict components (and the per-stage modules of several library components) are handed to the
    design through ModuleConnector: it must add EVERY positional and EVERY named argument as a submodule, unconditionally - a
    scheduler that is not elaborated leaves the run signals of its component undriven (its transactions never run)."""
    from ..comp import Component
    from ..pyfacts import loops, py_guard
    from ..stage import Submodule
    from ..term import tstr

    rel = "transactron/utils/amaranth_ext/elaboratables.py"
    rule = f"{pid}.module-connector"
    ctx.use(rel)
    comp = Component(ctx.repo, rel, "ModuleConnector", rule=rule)
    ok = len(comp.configs) == 1
    detail = []
    for ex in comp.configs:
        subs = ex.of(Submodule)
        pos = [s for s in subs if len(loops(s)) == 1 and loops(s)[0][1] == ("a", ("self",), "args") and s.value == loops(s)[0][0][0] and py_guard(s) is True]
        named = [s for s in subs if len(loops(s)) == 1 and loops(s)[0][1] == ("call", ("a", ("a", ("self",), "kwargs"), "items"), (), ())
                 and ((len(loops(s)[0][0]) == 2 and s.value == loops(s)[0][0][1] and s.name == loops(s)[0][0][0])
                      or (len(loops(s)[0][0]) == 1 and s.value == ("i", loops(s)[0][0][0], ("c", 1)) and s.name == ("i", loops(s)[0][0][0], ("c", 0))))
                 and py_guard(s) is True]
        ok = ok and len(pos) == 1 and len(named) == 1 and len(subs) == 2
        detail.append("; ".join(f"submodules[{tstr(s.name)}] = {tstr(s.value)} over {[tstr(l[1]) for l in loops(s)]}" for s in subs))
    ctx.check(ok, rule, comp.site if hasattr(comp, "site") else rel, "ModuleConnector.elaborate", found=" | ".join(detail)[:300],
              required="every element of args becomes an anonymous submodule and every item of kwargs a named one, unconditionally")


def scheduler_consults_order(ctx: Ctx, pid: str):
    rule = f"{pid}.scheduler-consults-order"
    fns = [f for f in _module_functions(ctx, SCHED) if len(f.args.posonlyargs + f.args.args) == 4 and not f.args.vararg]
    ctx.floor(rule, "scheduler functions (method_map, gr, cc, porder)", len(fns), 1, SCHED)
    for f in fns:
        order = (f.args.posonlyargs + f.args.args)[3].arg
        # a read of the parameter anywhere in the body, nested lambdas / comprehensions included; stores do not count
        reads = [n for n in ast.walk(f) if isinstance(n, ast.Name) and n.id == order and isinstance(n.ctx, ast.Load)]
        rebinds = [n for n in ast.walk(f) if isinstance(n, ast.Name) and n.id == order and isinstance(n.ctx, ast.Store)]
        ctx.check(bool(reads) and not rebinds, rule, f"{SCHED}:{f.lineno}", f.name,
                  found=f"the priority order parameter `{order}` is " + ("rebound" if rebinds else f"read {len(reads)} time(s)"),
                  required="the scheduler reads the priority order it is given (the grant cannot follow add_conflict priorities otherwise)")
