"""Obligations added after the audit of the core properties (F23, F24).

  scheduler-consults-order   every connected-component scheduler (a function with the TransactionScheduler signature
                             (method_map, gr, cc, porder)) decides who runs from the priority order it is handed; a scheduler that
                             never reads `porder` cannot honour add_conflict priorities (C08)
"""

from __future__ import annotations

import ast

from ..front import AnalysisError
from ..report import Ctx
from .core import SCHED


def _module_functions(ctx: Ctx, rel: str):
    ctx.use(rel)
    try:
        mi = ctx.repo.module(rel)
    except OSError as e:
        raise AnalysisError("C08.scheduler-consults-order", rel, f"cannot read: {e}")
    return [fi.node for fi in mi.functions.values() if isinstance(fi.node, ast.FunctionDef)]


def scheduler_consults_order(ctx: Ctx, pid: str):
    rule = f"{pid}.scheduler-consults-order"
    fns = [f for f in _module_functions(ctx, SCHED) if len(f.args.posonlyargs + f.args.args) == 4 and not f.args.vararg]
    ctx.floor(rule, "scheduler functions (method_map, gr, cc, porder)", len(fns), 1, SCHED)
    for f in fns:
        order = (f.args.posonlyargs + f.args.args)[3].arg
        # a read of the parameter anywhere in the body, nested lambdas / comprehensions included; stores do not count
        reads = [n for n in ast.walk(f) if isinstance(n, ast.Name) and n.id == order and isinstance(n.ctx, ast.Load)]
        rebinds = [n for n in ast.walk(f) if isinstance(n, ast.Name) and n.id == order and isinstance(n.ctx, ast.Store)]
        ctx.check(bool(reads) and not rebinds, rule, f"{SCHED}:{f.lineno}", f.name,
                  found=f"the priority order parameter `{order}` is " + ("rebound" if rebinds else f"read {len(reads)} time(s)"),
                  required="the scheduler reads the priority order it is given (the grant cannot follow add_conflict priorities otherwise)")
