"""C01 - an exclusive method serves at most one active call per cycle.

Mechanism chain: control-path recording -> path exclusivity -> implicit conflict edges -> symmetric
insertion -> scheduler suppression (+ the double-call rejection inside one transaction).
"""

from . import core, core2, core3

M = core.MANAGER
S = core.SCHED
T = core.TMODULE


def check(ctx):
    from . import core8

    core8.body_flag_defaults(ctx, "C01", flags=("nonexclusive",))
    core3.tmodule_control_table(ctx, "C01", want_enter=True, want_mirror=False)
    core3.ctrl_path_builder(ctx, "C01")
    core3.exclusive_with(ctx, "C01")
    core3.call_paths_exclusive(ctx, "C01")
    core.cg_implicit_edges(ctx, "C01")
    core.cg_symmetric_insertion(ctx, "C01")
    core2.sched_run_definitions(ctx, "C01", want_equiv=False)
    core2.mgr_scheduler_per_component(ctx, "C01")
    core3.mm_validate_call_tree(ctx, "C01")
    core2.method_call_lowering(ctx, "C01")


MUTANTS = [
    ("if-adds-instead-of-push", T, """            with self.avoiding_module.If(cond):
                with self.path_builder.enter(EnterType.PUSH):""", """            with self.avoiding_module.If(cond):
                with self.path_builder.enter(EnterType.ADD):"""),
    ("push-same-par", T, "self.ctrl_path.append(PathEdge(par=self.previous.par + 1))", "self.ctrl_path.append(PathEdge(par=self.previous.par))"),
    ("exclusive-ignores-module", T, """            self.module == other.module
            and len(common_prefix) != len(self.path)""", """            len(common_prefix) != len(self.path)"""),
    ("exclusive-par-polarity", T, "            elif a.par != b.par:\n                return False", "            elif a.par == b.par:\n                return False"),
    ("exclusive-prefix-ok", T, "            and len(common_prefix) != len(other.path)\n", "\n"),
    ("call-paths-wrong-index", M, "return path1[common_prefix_len].exclusive_with(path2[common_prefix_len])", "return path1[common_prefix_len].exclusive_with(path2[-1])"),
    ("call-paths-prefix-dropped", M, "if common_prefix_len == len(path1) or common_prefix_len == len(path2):", "if common_prefix_len == len(path1) and common_prefix_len == len(path2):"),
    ("exempt-any", M, "            return all(\n                any(ancestor.nonexclusive", "            return any(\n                any(ancestor.nonexclusive"),
    ("exempt-ancestor-of-one-chain", M, "any(ancestor.nonexclusive for ancestor in call1.ancestors if ancestor in call2.ancestors)", "any(ancestor.nonexclusive for ancestor in call1.ancestors)"),
    ("exempt-wrong-paths", M, "call_paths_exclusive(call1.call_path, call2.call_path)", "call_paths_exclusive(call1.call_path, call1.call_path)"),
    ("asymmetric-edge", M, "                cgr[begin].add(end)\n                cgr[end].add(begin)", "                cgr[begin].add(end)"),
    ("implicit-loop-one-sided", M, "                for transaction2 in method_map.transactions_for(method):\n                    if transaction1", "                for transaction2 in method_map.transactions:\n                    if transaction1"),
    ("eager-skips-first-conflict", S, "for j in range(k) if ccl[j] in gr[transaction]", "for j in range(1, k) if ccl[j] in gr[transaction]"),
    ("eager-no-suppression", S, "transaction.run.eq(transaction.ready & transaction.runnable & noconflict)", "transaction.run.eq(transaction.ready & transaction.runnable)"),
    ("eager-wrong-graph-row", S, "if ccl[j] in gr[transaction]]", "if ccl[j] in gr[ccl[0]]]"),
    ("rr-run-ignores-valid-index", S, "transaction.run.eq(rr.grant[k] & rr.valid)", "transaction.run.eq(rr.grant[0] & rr.valid)"),
    ("double-call-accepts-nonexclusive-paths", M, "if not through_nonexclusive and not call_paths_exclusive(old_call_path, new_call_path):", "if not through_nonexclusive and call_paths_exclusive(old_call_path, new_call_path):"),
    ("sightings-only-first", M, "                        call_sights[method].append((new_ancestors, new_call_path))\n", "                        if not call_sights[method]:\n                            call_sights[method].append((new_ancestors, new_call_path))\n"),
    ("enable-sig-in-top-comb", core.METHOD, "m.d.av_comb += enable_sig.eq(1)", "m.d.top_comb += enable_sig.eq(1)"),
]
