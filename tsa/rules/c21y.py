"""C21 - MemoryBank: the value transfers of the response data path, stated on roles.

Roles are found from what the registers are used for (never from names):
  ROA  the register a request stores its address in          OV   the flag set when a pending response is spilled
  OA / OD  the other two registers written on a spill: the one that receives ROA is the overflow address, the other
           the overflow data; what OD receives is RON, the value the pending response would have next cycle
  ON   the next value of the overflow data

  spill            OA' = ROA,  OD' = RON               (address and data of the same pending response)
  next values      RON = the memory port's data, ON = OD; with read_on_resp both are a forwarding multiplexer over EVERY
                   write port whose default is that value, and OD' = ON every cycle (a later spill overrides it)
The forwarding lists cover exactly the write ports that exist (`range(n)` of the list the ports were created with)."""

from __future__ import annotations

from ..comp import is_sync
from ..pm import pmatch
from ..stage import HwAssign
from ..term import subterms, tstr


def _list_root(t):
    return t[1] if t is not None and t[0] == "i" and t[1][0] == "obj" else None


def transfers(ctx, comp, ex, cn, req, ror: bool, pid="C21") -> int:
    hs = list(ex.of(HwAssign))
    # ROA
    roa = None
    for h in hs:
        if is_sync(h.domain) and h.rhs == ("a", ("arg", req.bodyid), "addr") and _list_root(h.lhs) is not None:
            roa = _list_root(h.lhs)
    if roa is None:
        return 0
    # spill group: the If block in which some flag list is set to 1 outside any method body and ROA is copied
    groups = {}
    for h in hs:
        if is_sync(h.domain) and any(fr[0] == "if" for fr in h.frames) and not any(fr[0] == "body" for fr in h.frames):
            groups.setdefault(h.frames, []).append(h)
    spill = [g for g in groups.values() if any(h.rhs == ("c", 1) for h in g) and any(_list_root(h.rhs) == roa for h in g)]
    n = 1
    ctx.check(len(spill) == 1 and len(spill[0]) == 3, f"{pid}.spill-transfers", spill[0][0].site if spill else comp.site, f"MemoryBank.spill[{cn}]",
              found="; ".join(f"{tstr(h.lhs)} <- {tstr(h.rhs)}" for g in spill for h in g) or "no block that sets a flag and captures the tracked address",
              required="on a spill exactly: flag := 1, overflow address := tracked address, overflow data := next value of the pending response")
    if len(spill) != 1 or len(spill[0]) != 3:
        return n
    g = spill[0]
    oa_h = next(h for h in g if _list_root(h.rhs) == roa)
    od_h = next((h for h in g if h is not oa_h and h.rhs != ("c", 1)), None)
    idx = oa_h.lhs[2]
    ok = od_h is not None and oa_h.rhs == ("i", roa, idx) and oa_h.lhs[0] == "i" and od_h.lhs[0] == "i" and od_h.lhs[2] == idx and od_h.rhs[0] == "i" and od_h.rhs[2] == idx and _list_root(od_h.rhs) is not None
    n += 1
    ctx.check(ok, f"{pid}.spill-transfers.index", oa_h.site, f"MemoryBank.spill.index[{cn}]", found="; ".join(f"{tstr(h.lhs)} <- {tstr(h.rhs)}" for h in g),
              required="address and data captured for the same read port i")
    if not ok:
        return n
    OA, OD, RON = _list_root(oa_h.lhs), _list_root(od_h.lhs), _list_root(od_h.rhs)
    ON = None
    # RON and ON definitions
    rports = None
    wports = None
    for oid, o in ex.objects.items():
        c = o.ctor
        if c[0] == "lc" and ex.obj(c[2]) is not None and ex.obj(c[2]).ctor[0] == "call" and ex.obj(c[2]).ctor[1][0] == "a":
            if ex.obj(c[2]).ctor[1][2] == "read_port":
                rports = ("obj", oid)
            if ex.obj(c[2]).ctor[1][2] == "write_port":
                wports = ("obj", oid)
    if rports is None or wports is None:
        return n
    wspace = ex.obj(wports).ctor[3][0][1]

    def comb_defs(lst):
        return [h for h in hs if not is_sync(h.domain) and _list_root(h.lhs) == lst and not any(fr[0] == "body" for fr in h.frames)]

    def fwd_ok(rhs, default, cmp_list, i):
        """OneHotMux.create(m, [(en_j & (addr_j == cmp_list[i]), data_j) for j in <all write ports>], default)"""
        m = pmatch("OneHotMux.create(Q_m, Q_p, Q_d)", rhs)
        if m is None or m["d"] != default or m["p"][0] != "lc" or len(m["p"][3]) != 1:
            return False, "not a forwarding multiplexer with that default"
        b, it, conds = m["p"][3][0]
        if it != wspace or conds:
            return False, f"forwarding inputs over {tstr(it)}, write ports over {tstr(wspace)}"
        elt = m["p"][2]
        if elt[0] != "tuple" or len(elt) != 3 or elt[2] != ("a", ("i", wports, b), "data"):
            return False, "forwarded value is not the data of write port j"
        sel = elt[1]
        # selector may be an element of a separately built list: [f(j') for j' in range][j]
        if sel[0] == "i" and sel[1][0] == "lc" and sel[2] == b and len(sel[1][3]) == 1:
            b2, it2, c2 = sel[1][3][0]
            if it2 != wspace or c2:
                return False, f"match list over {tstr(it2)}"
            from ..term import subst

            sel = subst(sel[1][2], {b2: b})
        want_eq = ("i", cmp_list, i)
        ok_sel = any(x == want_eq for x in subterms(sel)) and any(x == ("a", ("i", wports, b), "en") for x in subterms(sel)) and any(x == ("a", ("i", wports, b), "addr") for x in subterms(sel))
        return ok_sel, tstr(sel)[:120]

    for lst, what, default_of, cmp_list in ((RON, "next value of the pending response", lambda i: ("a", ("i", rports, i), "data"), roa), (None, "next value of the overflow data", lambda i: ("i", OD, i), OA)):
        if lst is None:
            # ON: the comb list whose value (or forwarding default) is OD[i]
            cands = []
            for h in hs:
                if not is_sync(h.domain) and _list_root(h.lhs) is not None and _list_root(h.lhs) not in (RON,) and h.lhs[0] == "i":
                    i = h.lhs[2]
                    if h.rhs == ("i", OD, i) or (pmatch("OneHotMux.create(Q_m, Q_p, Q_d)", h.rhs) or {}).get("d") == ("i", OD, i):
                        cands.append(_list_root(h.lhs))
            lst = cands[0] if cands else None
            ON = lst
        ds = comb_defs(lst) if lst is not None else []
        n += 1
        if len(ds) != 1:
            ctx.bad(f"{pid}.next-values", comp.site, f"MemoryBank.{what}[{cn}]", found=f"{len(ds)} combinational definition(s)", required="one definition per configuration")
            continue
        h = ds[0]
        i = h.lhs[2]
        if ror:
            ok_, det = fwd_ok(h.rhs, default_of(i), cmp_list, i)
        else:
            ok_, det = h.rhs == default_of(i), tstr(h.rhs)[:120]
        ctx.check(ok_, f"{pid}.next-values", h.site, f"MemoryBank.{what}[{cn}]", found=det,
                  required=("forwarding over every write port (enable & address match with the tracked address of this read port), default " if ror else "") + tstr(default_of(i)))
    if ror and ON is not None:
        upd = [h for h in hs if is_sync(h.domain) and _list_root(h.lhs) == OD and h not in g]
        n += 1
        ok_ = len(upd) == 1 and upd[0].rhs == ("i", ON, upd[0].lhs[2]) and not any(fr[0] in ("if", "elif", "else", "switch") for fr in upd[0].frames) and upd[0].seq < od_h.seq
        ctx.check(ok_, f"{pid}.overflow-data-follows", upd[0].site if upd else comp.site, f"MemoryBank.overflow_data'[{cn}]", found="; ".join(f"{tstr(h.lhs)} <- {tstr(h.rhs)}" for h in upd) or "no update",
                  required="the overflow data takes its next value every cycle (so that writes keep being forwarded into it); a spill, placed later, overrides")
    return n
