"""C10 - well-formed designs elaborate without combinational loops.

Library rule (a ready that reads another body's run needs a declared order) + the core's ordering links.
The absence of cycles in arbitrary user designs is a netlist property and is not decided.
"""

from . import core, core2, core3, core4

EXTRA_DIRS_THOROUGH = ("docs/_code", "test")


def check(ctx):
    core4.library_ordering_rule(ctx, "C10")
    from . import core10

    core10.library_result_rule(ctx, "C10")
    core10.merged_enable_run_free(ctx, "C10")
    # a readiness that depends on another body's run through a *foreign* module (invisible to the ordering rule above)
    from . import C29 as _c29

    ctx.use(_c29.REL)
    _c29.wrapper_order(ctx, "C10")
    core.cg_priority_edges(ctx, "C10")
    core.cg_priority_passthrough(ctx, "C10")
    core.cg_relation_lifting(ctx, "C10")  # every relation (also between exclusive transactions) reaches add_edge: the priority edge orders ready dependencies
    core.mgr_relation_copy(ctx, "C10")
    core2.mgr_ready_dependencies(ctx, "C10")
    core2.mgr_runnable(ctx, "C10")
    core2.sched_run_definitions(ctx, "C10", want_equiv=False)
    core2.method_call_lowering(ctx, "C10")


def thorough(ctx):
    # the same library rule over the documentation examples (designs meant to elaborate)
    core4.library_ordering_rule(ctx, "C10.docs", dirs=("docs/_code/",), floor=0)


MUTANTS = [
    ("membank-no-order", "transactron/lib/storage.py", "                    write.schedule_before(read_resp)  # to avoid combinational loops\n", "                    pass\n"),
    ("membank-order-reversed", "transactron/lib/storage.py", "                    write.schedule_before(read_resp)  # to avoid combinational loops\n", "                    read_resp.schedule_before(write)\n"),
    ("forwarder-no-order", "transactron/lib/connectors.py", "        self.write.schedule_before(self.read)  # to avoid combinational loops\n", ""),
    ("forwarder-peek-no-order", "transactron/lib/connectors.py", "        self.write.schedule_before(self.peek)\n", ""),
    ("pipe-order-reversed", "transactron/lib/connectors.py", "        self.read.schedule_before(self.write)  # to avoid combinational loops", "        self.write.schedule_before(self.read)  # to avoid combinational loops"),
    ("schedule-before-no-priority", core.TBASE, "                priority=Priority.LEFT,\n                conflict=False,", "                priority=Priority.UNDEFINED,\n                conflict=False,"),
    ("eager-reads-later-run", core.SCHED, "for j in range(k) if ccl[j] in gr[transaction]", "for j in range(len(ccl)) if ccl[j] in gr[transaction]"),
    ("order-not-reversed", core.MANAGER, "networkx.DiGraph(pgr).reverse(), key=lambda t: len(cgr[t])", "networkx.DiGraph(pgr), key=lambda t: len(cgr[t])"),
    ("enable-sig-run-gated", core.METHOD, "m.d.av_comb += enable_sig.eq(1)", "m.d.comb += enable_sig.eq(1)"),
    ("runnable-reads-all-runs", core.MANAGER, "body.ready & Cat(dep.run for dep in ready_dependencies[body]).all()", "body.ready & Cat(dep.run for dep in method_map.transactions).all()"),
]
