"""C19 - Serializer and ArgumentsToResultsZipper keep requests and responses matched (id tagging, head match,
label pairing; matching over interleavings follows from C14/C17 on paper)."""

from .common import *
from ..pm import pmatch, pat, has
from .C18 import _inner_guards

REL = "transactron/lib/reqres.py"


def serializer(ctx):
    comp = Component(ctx.repo, REL, "Serializer", rule="C19")
    comp.require_modelled("C19")
    ex = one_config(comp, "C19")
    fifo = None
    for s in ex.of(Submodule):
        o = ex.obj(s.value)
        if o is not None and pmatch("BasicFifo(self.id_layout, self.depth, src_loc=Q_s)", o.ctor):
            fifo = s.value
    ctx.check(fifo is not None, "C19.serializer-id-fifo", comp.site, "Serializer.pending_requests", found="BasicFifo(id_layout, depth)" if fifo else "not found", required="a FIFO of pending request ids (FIFO order = request order, C14)")
    if fifo is None:
        return
    idl = comp.init_attr("id_layout")
    ctx.check(idl is not None and has("range(self.port_count)", idl), "C19.serializer-id-range", comp.site, "Serializer.id_layout", found=tstr(idl) if idl else "none", required="ids range over the ports")
    sin, sout = need_body(ex, "serialize_in", "C19", comp.site), need_body(ex, "serialize_out", "C19", comp.site)

    def port_index(b):
        o = b.owner
        return o[2] if o[0] == "i" else None

    i_in, i_out = port_index(sin), port_index(sout)
    for b, i in ((sin, i_in), (sout, i_out)):
        fl = [fr for fr in b.frames if fr[0] == "for"]
        ok = i is not None and i[0] == "b" and len(fl) == 1 and fl[0][2] == pat("range(self.port_count)") and fl[0][1][0] == i
        ctx.check(ok, "C19.serializer-all-ports", b.site, f"Serializer.{strip_index(b.owner)[2]}.ports", found=f"{tstr(b.owner)} for {[tstr(fr[2]) for fr in fl]}", required="one method per port i in range(port_count)")
    calls = calls_in_body(ex, sin)
    by = {c.callee: c for c in calls}
    cw, cr = by.get(("a", fifo, "write")), by.get(pat("self.serialized_req_method"))
    ok = cw is not None and cr is not None and len(calls) == 2 and not _inner_guards(ex, cw, sin) and not _inner_guards(ex, cr, sin) and cw.enable is None and cr.enable is None
    ok = ok and ((cw.args == (("dict", ((("c", "id"), i_in),)),) and not cw.kwargs) or (cw.args == () and cw.kwargs == (("id", i_in),))) and cr.args == (("arg", sin.bodyid),)
    ctx.check(ok, "C19.serializer-request", sin.site, "Serializer.serialize_in", found="; ".join(f"{tstr(c.callee)}({', '.join(tstr(a) for a in c.args)})" for c in calls),
              required="port i records its own id i and forwards the request, both unconditionally (atomically in one method)")
    # out
    want_ready = to_formula(("op", "==", ("a", ("a", fifo, "head"), "id"), i_out))
    check_ready(ctx, "C19.serializer-head-match", comp, ex, sout, want_ready, "port i may take a response iff the oldest pending id is i")
    calls = calls_in_body(ex, sout)
    by = {c.callee: c for c in calls}
    crd, crs = by.get(("a", fifo, "read")), by.get(pat("self.serialized_resp_method"))
    ok = crd is not None and crs is not None and len(calls) == 2 and not _inner_guards(ex, crd, sout) and not _inner_guards(ex, crs, sout) and sout.ret == ("ret", crs.callid) and crd.enable is None and crs.enable is None
    ctx.check(ok, "C19.serializer-response", sout.site, "Serializer.serialize_out", found="; ".join(tstr(c.callee) for c in calls) + f"; returns {tstr(sout.ret) if sout.ret else None}",
              required="pops the id FIFO and returns the response method's result, both unconditionally")
    ctx.check(any(r.kind == "provide" and r.subject == pat("self.clear") and r.args == (("a", fifo, "clear"),) for r in ex.of(Relation)), "C19.serializer-clear", comp.site, "Serializer.clear", found="; ".join(f"{tstr(r.subject)}.provide({tstr(r.args[0])})" for r in ex.of(Relation)), required="clear provided by the id FIFO's clear")


def zipper(ctx):
    comp = Component(ctx.repo, REL, "ArgumentsToResultsZipper", rule="C19")
    comp.require_modelled("C19")
    ex = one_config(comp, "C19")
    fifo = fwd = None
    for s in ex.of(Submodule):
        o = ex.obj(s.value)
        if o is not None and pmatch("BasicFifo(self.args_layout, depth=Q_d, src_loc=Q_s)", o.ctor):
            fifo = s.value
        if o is not None and pmatch("Forwarder(self.results_layout, src_loc=Q_s)", o.ctor):
            fwd = s.value
    ctx.check(fifo is not None and fwd is not None, "C19.zipper-stores", comp.site, "Zipper.stores", found=f"fifo={'yes' if fifo else 'no'} forwarder={'yes' if fwd else 'no'}", required="arguments queue in a BasicFifo(args_layout), results pass through a Forwarder(results_layout)")
    if fifo is None or fwd is None:
        return
    wa, wr, rd = (need_body(ex, n, "C19", comp.site) for n in ("write_args", "write_results", "read"))
    for b, store, nm in ((wa, fifo, "write_args"), (wr, fwd, "write_results")):
        calls = calls_in_body(ex, b)
        ok = len(calls) == 1 and calls[0].callee == ("a", store, "write") and calls[0].args == (("arg", b.bodyid),) and not _inner_guards(ex, calls[0], b)
        ctx.check(ok, "C19.zipper-routing", b.site, f"Zipper.{nm}", found="; ".join(f"{tstr(c.callee)}({', '.join(tstr(a) for a in c.args)})" for c in calls), required=f"{nm} writes its argument into its own store")
    calls = calls_in_body(ex, rd)
    by = {c.callee: c for c in calls}
    ca, cr = by.get(("a", fifo, "read")), by.get(("a", fwd, "read"))
    rf = returned_fields(rd)
    ok = ca is not None and cr is not None and len(calls) == 2 and rf.get("args") == ("ret", ca.callid) and rf.get("results") == ("ret", cr.callid) and not _inner_guards(ex, ca, rd) and not _inner_guards(ex, cr, rd)
    ctx.check(ok, "C19.zipper-pairing", rd.site, "Zipper.read", found=tstr(rd.ret) if rd.ret else "none", required="read pops both stores at once and labels them: args <- argument queue, results <- result forwarder")
    ctx.check(any(r.kind == "provide" and r.subject == pat("self.peek_arg") and r.args == (("a", fifo, "peek"),) for r in ex.of(Relation)), "C19.zipper-peek", comp.site, "Zipper.peek_arg", found="; ".join(f"{tstr(r.subject)}.provide({tstr(r.args[0])})" for r in ex.of(Relation)), required="peek_arg provided by the argument queue's peek")


def check(ctx):
    ctx.use(REL)
    serializer(ctx)
    zipper(ctx)


MUTANTS = [
    ("serializer-fixed-id", REL, 'pending_requests.write(m, {"id": i})', 'pending_requests.write(m, {"id": 0})'),
    ("serializer-out-any-head", REL, "@def_method(m, self.serialize_out[i], ready=(pending_requests.head.id == i))", "@def_method(m, self.serialize_out[i])"),
    ("serializer-head-shifted", REL, "ready=(pending_requests.head.id == i))", "ready=(pending_requests.head.id == (i + 1) % self.port_count))"),
    ("serializer-out-no-pop", REL, "                pending_requests.read(m)\n                return self.serialized_resp_method(m)", "                return self.serialized_resp_method(m)"),
    ("serializer-conditional-id", REL, '                pending_requests.write(m, {"id": i})\n', '                pending_requests.write(m, {"id": i}, enable_call=i != 0)\n'),
    ("zipper-labels-swapped", REL, 'return {"args": args, "results": results}', 'return {"args": results, "results": args}'),
    ("zipper-results-into-fifo", REL, "            forwarder.write(m, arg)", "            fifo.write(m, arg)"),
    ("zipper-peek-forwarder", REL, "self.peek_arg.provide(fifo.peek)", "self.peek_arg.provide(forwarder.peek)"),
    ("zipper-read-peeks", REL, "            args = fifo.read(m)\n", "            args = fifo.peek(m)\n"),
]
