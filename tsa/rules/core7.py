"""Simultaneous groups (C12 / C13): how TransactionManager._simultaneous computes the groups of transactions that are merged.

Two bodies related by simultaneous() run in the same cycles because every transaction that reaches one of them is put
into one merged transaction with every transaction that reaches the other.  The obligations below are the steps of that
computation that carry the property; each is stated on the roles of the values (loop variables, the sets they feed), not
on names:

  pairs        for every body e, every partner s in e.simultaneous_list and every (t1, t2) in transactions_for(e) x
               transactions_for(s): {t1, t2} becomes a group - unless t1 and t2 are independent alternatives, which is an
               error, not a silent skip
  independents alternatives are recorded symmetrically from independent_list, through transactions_for
  closure      groups that share a member are united until nothing new appears; a united group containing two independent
               members is dropped (that is what keeps the alternatives of condition() apart)
  maximal      only groups not strictly contained in another group are built
  retired      a transaction that is a member of some pair no longer runs on its own: it is taken out of the plain
               transaction list
  relations    the only relations removed are non-conflict orderings towards a simultaneous partner
"""

from __future__ import annotations

from ..lam import closure_term
from ..logic import atoms_of, equivalent, f_and, f_not, f_or, fstr, implies, to_formula
from ..pm import pmatch
from ..pyfacts import loops, py_guard
from ..report import Ctx
from ..stage import Effect, Jump, Raise, Return, Store
from ..term import subterms, tstr
from .core import A, MANAGER, _fn


def _elems(it) -> bool:
    return pmatch("Q_mm.methods_and_transactions", it) is not None


def _tf(t, x) -> bool:
    """t == <map>.transactions_for(x)"""
    m = pmatch("Q_mm.transactions_for(Q_x)", t)
    return m is not None and m["x"] == x


def _lam(ex, t):
    if t is None or t[0] != "lam":
        return None
    return closure_term(ex.closures[t[1]])


def _subst(t, mp):
    if t in mp:
        return mp[t]
    if isinstance(t, tuple):
        return tuple(_subst(x, mp) for x in t)
    return t


def simultaneous_groups(ctx: Ctx, pid: str):
    from .core import mm_transactions_for

    mm_transactions_for(ctx, pid)
    rule = f"{pid}.simultaneous-groups"
    fn = _fn(ctx, MANAGER, "TransactionManager._simultaneous", rule)
    effects = fn.facts(Effect)

    # ---- pairs --------------------------------------------------------------------------------------------------------
    pairs = [(ex, e) for ex, e in effects if pmatch("Q_s.add(frozenset({Q_a, Q_b}))", e.call) is not None]
    ctx.floor(rule, "pair insertions", len(pairs), 1, fn.site)
    ex, e = pairs[0]
    m = pmatch("Q_s.add(frozenset({Q_a, Q_b}))", e.call)
    sim_set = m["s"]
    lp = loops(e)
    ok = len(lp) == 3 and _elems(lp[0][1]) and lp[1][1] == ("a", lp[0][0][0], "simultaneous_list")
    indep_tab = None
    if ok:
        el, se, pr = lp[0][0][0], lp[1][0][0], lp[2][0][0]
        mp = pmatch("product(Q_x, Q_y)", lp[2][1])
        ok = mp is not None and _tf(mp["x"], el) and _tf(mp["y"], se) and {m["a"], m["b"]} == {("i", pr, ("c", 0)), ("i", pr, ("c", 1))}
    ctx.check(ok and len(pairs) == 1, rule + ".pairs", e.site, "_simultaneous.pairs", found=f"{tstr(e.call)} over {[tstr(l[1])[:90] for l in lp]}",
              required="{t1, t2} for every body, every simultaneous partner of it and every (t1, t2) in transactions_for(body) x transactions_for(partner)")
    # the only way a pair is not recorded is the 'unsatisfiable' error
    g = py_guard(e)
    raises = [(x, r) for x, r in fn.facts(Raise) if len(loops(r)) == 3 and loops(r)[2][1] == lp[2][1]] if ok else []
    okr = False
    if ok and len(raises) == 1:
        r = raises[0][1]
        gr = py_guard(r)
        ats = atoms_of(gr)
        if len(ats) == 1:
            mi = pmatch("Q_a in Q_tab[Q_b]", ats[0])
            # the raise carries the loop variables of its own unrolling: compare modulo the binder of the product loop
            rp = loops(r)[2][0][0]
            if mi is not None and {mi["a"], mi["b"]} == {("i", rp, ("c", 0)), ("i", rp, ("c", 1))} and equivalent(gr, A(ats[0])) is None:
                indep_tab = mi["tab"]
                gm = _subst(g, {pr: rp}) if g is not True else True
                okr = g is True or equivalent(gm, f_not(gr)) is None
    ctx.check(okr, rule + ".unsatisfiable-rejected", raises[0][1].site if raises else e.site, "_simultaneous.pairs.guard",
              found=f"pair recorded if {fstr(g)}; {len(raises)} raise(s)" + (f" if {fstr(py_guard(raises[0][1]))}" if raises else ""),
              required="a pair of independent alternatives that is required to be simultaneous is an error; every other pair is recorded")

    # ---- independents ---------------------------------------------------------------------------------------------------
    okI = False
    detail = "no symmetric insertion into the independence table"
    for x, a in effects:
        mi = pmatch("Q_tab[Q_a].add(Q_b)", a.call)
        if mi is None or indep_tab is None or mi["tab"] != indep_tab:
            continue
        la = loops(a)
        detail = f"{tstr(a.call)} over {[tstr(l[1])[:120] for l in la]}"
        if len(la) != 2 or not _elems(la[0][1]) or py_guard(a) is not True:
            continue
        el2, pr2 = la[0][0][0], la[1][0][0]
        mp2 = pmatch("product(Q_x, Q_x)", la[1][1])
        if mp2 is None or {mi["a"], mi["b"]} != {("i", pr2, ("c", 0)), ("i", pr2, ("c", 1))}:
            continue
        src = x.vardef(mp2["x"]) or mp2["x"]
        detail += f" where the set is {tstr(src)[:200]}"
        mu = pmatch("Q_e.union(*Q_g)", src)
        if mu is None or mu["g"][0] != "lc" or len(mu["g"][3]) != 1:
            continue
        (b,), it, conds = (mu["g"][3][0][0] if isinstance(mu["g"][3][0][0], tuple) and mu["g"][3][0][0] and isinstance(mu["g"][3][0][0][0], tuple) else (mu["g"][3][0][0],)), mu["g"][3][0][1], mu["g"][3][0][2]
        mf = pmatch("frozenset(Q_t)", mu["g"][2])
        mc = pmatch("chain([Q_e], Q_e.independent_list)", it)
        okI = mf is not None and _tf(mf["t"], b) and mc is not None and mc["e"] == el2 and not conds
        if okI:
            break
    ctx.check(okI, rule + ".independents", fn.site, "_simultaneous.independents", found=detail,
              required="independents[t1] gets t2 for every t1, t2 among the transactions of a body and of its independent_list (through transactions_for), symmetrically")

    # ---- closure ------------------------------------------------------------------------------------------------------
    exts = [(x, a) for x, a in effects if pmatch("Q_q.extend(Q_g)", a.call) is not None]
    okC = False
    detail = "no worklist extension"
    tr_set = None
    for x, a in exts:
        mq = pmatch("Q_q.extend(Q_g)", a.call)
        q, gexp = mq["q"], mq["g"]
        qo = x.obj(q)
        detail = tstr(a.call)[:200]
        if qo is None or gexp[0] != "lc" or len(gexp[3]) != 1:
            continue
        ctor = pmatch("Q_d(Q_init)", qo.ctor)
        okq = ctor is not None and ctor["init"] == sim_set
        other, it, conds = gexp[3][0]
        other = other[0] if isinstance(other, tuple) and other and isinstance(other[0], tuple) else other
        elt = gexp[2]
        grp = [t for t in (elt[2], elt[3]) if t != other] if elt[0] == "op" and elt[1] == "|" and len(elt) == 4 else []
        okg = len(grp) == 1 and it == sim_set and len(conds) == 1 and conds[0][0] == "op" and conds[0][1] == "&" and set(conds[0][2:]) == {grp[0], other}
        new = grp[0] if grp else None
        nd = x.vardef(new) if new is not None else None
        okn = nd is not None and pmatch("Q_q.popleft()", nd) == {"q": q} or (nd is not None and pmatch("Q_q.pop()", nd) == {"q": q}) or (nd is not None and pmatch("Q_q.pop(0)", nd) == {"q": q})
        # recorded as a group
        recs = [b for _, b in effects if pmatch("Q_s.add(Q_g)", b.call) is not None and pmatch("Q_s.add(Q_g)", b.call)["g"] == new]
        if not (okq and okg and okn and len(recs) >= 1):
            detail += f" (worklist from the pair set: {okq}, unites groups sharing a member: {okg}, group taken from the worklist: {okn}, recorded: {len(recs)})"
            continue
        tr_set = pmatch("Q_s.add(Q_g)", recs[0].call)["s"]
        # skip test: already known, or contains two independent members
        skips = [j for _, j in fn.facts(Jump, lambda j: j.kind == "continue")]
        oks = False
        if skips:
            gs = py_guard(skips[0])
            ats = atoms_of(gs)
            known = [t for t in ats if pmatch("Q_g in Q_s", t) == {"g": new, "s": tr_set}]
            rest = [t for t in ats if t not in known]
            okconf = False
            if len(known) == 1 and len(rest) == 1:
                okconf = _conflicting(rest[0], new, indep_tab)
            oks = okconf and equivalent(gs, f_or(A(known[0]), A(rest[0]))) is None
            detail += f"; skipped if {fstr(gs)[:260]}"
            # both effects happen exactly when the group is not skipped
            test = None
            for fr in skips[0].frames:
                if fr[0] == "py":
                    test = fr[1]
            for cx in fn.exs:
                dec = dict((t, v) for t, v in cx.config)
                if test in dec:
                    has_ext = any(pmatch("Q_q.extend(Q_g)", b.call) is not None for b in cx.of(Effect))
                    has_rec = any(pmatch("Q_s.add(Q_g)", b.call) is not None and pmatch("Q_s.add(Q_g)", b.call)["s"] == tr_set for b in cx.of(Effect))
                    if dec[test] and (has_ext or has_rec):
                        oks = False
                    if not dec[test] and not (has_ext and has_rec):
                        oks = False
        okC = oks
        if okC:
            break
    ctx.check(okC, rule + ".closure", exts[0][1].site if exts else fn.site, "_simultaneous.closure", found=detail,
              required="worklist seeded with the pairs; a group taken from it is skipped iff already recorded or containing two different independent members; "
                       "otherwise it is recorded and its union with every pair sharing a member is queued")

    # ---- maximal groups, retired transactions ------------------------------------------------------------------------------
    okM = False
    detail = "no filter over the recorded groups"
    final = None
    for x in fn.exs:
        for t in list(x.vardefs.values()) + [f.value for f in x.of(Store)] + [l for fct in x.facts for l in (fr[2] for fr in fct.frames if fr[0] == "for")]:
            for s in subterms(t):
                mf = pmatch("set(filter(Q_p, Q_s))", s) or pmatch("filter(Q_p, Q_s)", s)
                if mf is None or tr_set is None or mf["s"] != tr_set:
                    continue
                lt = _lam(x, mf["p"])
                detail = f"filter predicate {tstr(lt[1])[:200] if lt else 'not a one-expression function'}"
                if lt is None or lt[0] != 1:
                    continue
                body = lt[1]
                # not any(group <= g2 and group != g2 for g2 in groups)
                mn = pmatch("not any(Q_g)", body)
                if mn is None or mn["g"][0] != "lc" or len(mn["g"][3]) != 1:
                    continue
                b2, it2, conds2 = mn["g"][3][0]
                f = to_formula(mn["g"][2])
                sub = [a for a in atoms_of(f) if pmatch("Q_a.issubset(Q_b)", a) == {"a": ("lp", 0), "b": b2} or pmatch("Q_a <= Q_b", a) == {"a": ("lp", 0), "b": b2}]
                ne = [a for a in atoms_of(f) if a not in sub]
                okne = len(ne) == 1 and ne[0][0] == "op" and ne[0][1] in ("==", "!=") and set(ne[0][2:]) == {("lp", 0), b2}
                if it2 == tr_set and not conds2 and len(sub) == 1 and okne:
                    want = f_and(A(sub[0]), A(ne[0]) if ne[0][1] == "!=" else f_not(A(ne[0])))
                    if equivalent(f, want) is None:
                        okM = True
                        final = s
    ctx.check(okM, rule + ".maximal", fn.site, "_simultaneous.maximal", found=detail,
              required="a recorded group is built iff no other recorded group strictly contains it")

    # transactions that appear in a pair are retired from the plain list
    okR = False
    detail = "self.transactions is not filtered"
    for x, s in fn.facts(Store, lambda s: s.target == ("a", ("self",), "transactions") and s.aug is None):
        mf = pmatch("list(filter(Q_p, self.transactions))", s.value)
        if mf is None:
            continue
        lt = _lam(x, mf["p"])
        detail = f"kept iff {tstr(lt[1])[:160] if lt else '?'}"
        if lt is None or lt[0] != 1:
            continue
        f = to_formula(lt[1])
        ats = atoms_of(f)
        if len(ats) != 1:
            continue
        mi = pmatch("Q_t._body in Q_all", ats[0])
        if mi is None or mi["t"] != ("lp", 0) or equivalent(f, f_not(A(ats[0]))) is not None:
            continue
        allset = mi["all"]
        # the set collects transactions_for(partner) for every partner of every body
        for _, u in effects:
            mu = pmatch("Q_all.update(Q_v)", u.call)
            lu = loops(u)
            if mu is not None and mu["all"] == allset and len(lu) == 2 and _elems(lu[0][1]) and lu[1][1] == ("a", lu[0][0][0], "simultaneous_list") and _tf(mu["v"], lu[1][0][0]) and py_guard(u) is True:
                okR = True
                detail += f"; {tstr(u.call)} over every partner"
    ctx.check(okR, rule + ".retired", fn.site, "_simultaneous.retired", found=detail,
              required="a transaction is kept as a plain transaction iff it does not reach a body that has a simultaneous partner (those run only inside merged transactions)")

    # ---- relations removed ---------------------------------------------------------------------------------------------------
    okF = False
    detail = "no relation rewrite"
    for x, s in fn.facts(Store, lambda s: pmatch("Q_e.relations", s.target) is not None):
        mf = pmatch("list(filterfalse(Q_p, Q_e.relations))", s.value)
        el = pmatch("Q_e.relations", s.target)["e"]
        if mf is None or mf["e"] != el or not loops(s) or loops(s)[0][0][0] != el:
            continue
        lt = _lam(x, mf["p"])
        detail = f"removed iff {tstr(lt[1])[:220] if lt else '?'}"
        if lt is None or lt[0] != 1:
            continue
        f = to_formula(lt[1])
        ats = atoms_of(f)
        confl = [a for a in ats if a == ("a", ("lp", 0), "conflict")]
        part = [a for a in ats if pmatch("Q_r.end in frozenset(Q_e.simultaneous_list)", a) == {"r": ("lp", 0), "e": el} or pmatch("Q_r.end in Q_e.simultaneous_list", a) == {"r": ("lp", 0), "e": el}]
        okF = len(confl) == 1 and len(part) == 1 and implies(f, f_and(f_not(A(confl[0])), A(part[0]))) is None
    ctx.check(okF, rule + ".relations-removed", fn.site, "_simultaneous.relation-filter", found=detail,
              required="a relation is removed only if it is not a conflict and its end is a simultaneous partner of the body it is declared on")


def _conflicting(t, group, tab) -> bool:
    """t == conflicting(group): any two different members are independent."""
    body = None
    m = pmatch("any(Q_g)", t)
    if m is not None:
        body = m["g"]
    if body is None or body[0] != "lc" or len(body[3]) != 2 or tab is None:
        return False
    (b1, it1, c1), (b2, it2, c2) = body[3]
    b1 = b1[0] if isinstance(b1, tuple) and b1 and isinstance(b1[0], tuple) else b1
    b2 = b2[0] if isinstance(b2, tuple) and b2 and isinstance(b2[0], tuple) else b2
    if it1 != group or it2 != group or c1 or c2:
        return False
    f = to_formula(body[2])
    ats = atoms_of(f)
    ne = [a for a in ats if a[0] == "op" and a[1] in ("!=", "==", "is") and set(a[2:]) == {b1, b2}]
    ind = [a for a in ats if (pmatch("Q_a in Q_tab[Q_b]", a) or {}).get("tab") == tab and {pmatch("Q_a in Q_tab[Q_b]", a)["a"], pmatch("Q_a in Q_tab[Q_b]", a)["b"]} == {b1, b2}]
    if len(ne) != 1 or len(ind) != 1 or len(ats) != 2:
        return False
    differ = A(ne[0]) if ne[0][1] == "!=" else f_not(A(ne[0]))
    return equivalent(f, f_and(differ, A(ind[0]))) is None
