"""Simultaneous groups (C12 / C13): how TransactionManager._simultaneous computes the groups of transactions that are merged.

Two bodies related by simultaneous() run in the same cycles because every transaction that reaches one of them is put
into one merged transaction with every transaction that reaches the other.  The obligations below are the steps of that
computation that carry the property; each is stated on the roles of the values (loop variables, the sets they feed), not
on names:

  pairs        for every body e, every partner s in e.simultaneous_list and every (t1, t2) in transactions_for(e) x
               transactions_for(s): {t1, t2} becomes a group - unless t1 and t2 are independent alternatives, which is an
               error, not a silent skip
  independents alternatives are recorded symmetrically from independent_list, through transactions_for
  closure      groups that share a member are united until nothing new appears; a united group containing two independent
               members is dropped (that is what keeps the alternatives of condition() apart)
  maximal      only groups not strictly contained in another group are built
  retired      a transaction that is a member of some pair no longer runs on its own: it is taken out of the plain
               transaction list
  relations    the only relations removed are non-conflict orderings towards a simultaneous partner
"""

from __future__ import annotations

from ..lam import closure_term
from ..logic import atoms_of, equivalent, f_and, f_not, f_or, fstr, implies, to_formula
from ..pm import pmatch
from ..pyfacts import loops, py_guard
from ..report import Ctx
from ..stage import Effect, Jump, MethodCall, Raise, Return, Store
from ..term import subterms, tstr
from .core import A, MANAGER, _fn


def _elems(it) -> bool:
    return pmatch("Q_mm.methods_and_transactions", it) is not None


def _tf(t, x) -> bool:
    """t == <map>.transactions_for(x)"""
    m = pmatch("Q_mm.transactions_for(Q_x)", t)
    return m is not None and m["x"] == x


def _lam(ex, t):
    if t is None or t[0] != "lam":
        return None
    return closure_term(ex.closures[t[1]])


def _subst(t, mp):
    if t in mp:
        return mp[t]
    if isinstance(t, tuple):
        return tuple(_subst(x, mp) for x in t)
    return t


def simultaneous_groups(ctx: Ctx, pid: str):
    from .core import mm_transactions_for

    mm_transactions_for(ctx, pid)
    rule = f"{pid}.simultaneous-groups"
    fn = _fn(ctx, MANAGER, "TransactionManager._simultaneous", rule)
    effects = fn.facts(Effect)

    # ---- pairs --------------------------------------------------------------------------------------------------------
    pairs = [(ex, e) for ex, e in effects if pmatch("Q_s.add(frozenset({Q_a, Q_b}))", e.call) is not None]
    ctx.floor(rule, "pair insertions", len(pairs), 1, fn.site)
    ok = True
    for ex, e in pairs:
        m = pmatch("Q_s.add(frozenset({Q_a, Q_b}))", e.call)
        sim_set = m["s"]
        lp = loops(e)
        ok1 = len(lp) == 3 and _elems(lp[0][1]) and lp[1][1] == ("a", lp[0][0][0], "simultaneous_list")
        if ok1:
            el, se, pr = lp[0][0][0], lp[1][0][0], lp[2][0][0]
            mp = pmatch("product(Q_x, Q_y)", lp[2][1])
            ok1 = mp is not None and _tf(mp["x"], el) and _tf(mp["y"], se) and {m["a"], m["b"]} == {("i", pr, ("c", 0)), ("i", pr, ("c", 1))}
        ok = ok and ok1
    indep_tab = None
    ctx.check(ok and len({e.site for _, e in pairs}) == 1, rule + ".pairs", e.site, "_simultaneous.pairs", found=f"{tstr(e.call)} over {[tstr(l[1])[:90] for l in lp]}",
              required="{t1, t2} for every body, every simultaneous partner of it and every (t1, t2) in transactions_for(body) x transactions_for(partner)")
    # the only way a pair is not recorded is the 'unsatisfiable' error
    g = py_guard(e)
    raises = [(x, r) for x, r in fn.facts(Raise) if len(loops(r)) == 3 and loops(r)[2][1] == lp[2][1]] if ok else []
    if ok and not raises:
        # the raise was unrolled in another configuration than the insertion looked at last: same loop nest, other binders
        cand = [(x, r) for x, r in fn.facts(Raise) if len(loops(r)) == 3 and _elems(loops(r)[0][1]) and pmatch("product(Q_x, Q_y)", loops(r)[2][1]) is not None]
        raises = cand[:1] if len({r.site for _, r in cand}) == 1 else cand
    okr = False
    if ok and len(raises) == 1:
        r = raises[0][1]
        gr = py_guard(r)
        ats = atoms_of(gr)
        if len(ats) == 1:
            mi = pmatch("Q_a in Q_tab[Q_b]", ats[0])
            # the raise carries the loop variables of its own unrolling: compare modulo the binder of the product loop
            rp = loops(r)[2][0][0]
            if mi is not None and {mi["a"], mi["b"]} == {("i", rp, ("c", 0)), ("i", rp, ("c", 1))} and equivalent(gr, A(ats[0])) is None:
                indep_tab = mi["tab"]
                gm = _subst(g, {pr: rp}) if g is not True else True
                okr = g is True or equivalent(gm, f_not(gr)) is None
    ctx.check(okr, rule + ".unsatisfiable-rejected", raises[0][1].site if raises else e.site, "_simultaneous.pairs.guard",
              found=f"pair recorded if {fstr(g)}; {len(raises)} raise(s)" + (f" if {fstr(py_guard(raises[0][1]))}" if raises else ""),
              required="a pair of independent alternatives that is required to be simultaneous is an error; every other pair is recorded")

    # ---- independents ---------------------------------------------------------------------------------------------------
    okI = False
    detail = "no symmetric insertion into the independence table"
    for x, a in effects:
        mi = pmatch("Q_tab[Q_a].add(Q_b)", a.call)
        tab_cond = weak_tab = None
        if mi is not None and mi["tab"][0] == "ife":
            # one of two tables is chosen per pair: (weak if <condition> else strict)[t1].add(t2)
            tab_cond, weak_tab = mi["tab"][1], mi["tab"][2]
            mi = dict(mi, tab=mi["tab"][3])
        if mi is None or indep_tab is None or mi["tab"] != indep_tab:
            continue
        la = loops(a)
        detail = f"{tstr(a.call)} over {[tstr(l[1])[:120] for l in la]}"
        if len(la) == 3 and _elems(la[0][1]):
            okb, exempt = _independents_by_group(fn, x, a, la, mi, tab_cond)
            if okb:
                okI = True
                ctx.__dict__["_nonexclusive_callers_exempt"] = exempt
                ctx.__dict__["_weak_independents"] = weak_tab if exempt else None
                detail += f"; skipped if {fstr(f_not(py_guard(a)))}"
                break
            continue
        if len(la) != 2 or not _elems(la[0][1]) or py_guard(a) is not True:
            continue
        el2, pr2 = la[0][0][0], la[1][0][0]
        mp2 = pmatch("product(Q_x, Q_x)", la[1][1])
        if mp2 is None or {mi["a"], mi["b"]} != {("i", pr2, ("c", 0)), ("i", pr2, ("c", 1))}:
            continue
        src = x.vardef(mp2["x"]) or mp2["x"]
        detail += f" where the set is {tstr(src)[:200]}"
        mu = pmatch("Q_e.union(*Q_g)", src)
        if mu is None or mu["g"][0] != "lc" or len(mu["g"][3]) != 1:
            continue
        (b,), it, conds = (mu["g"][3][0][0] if isinstance(mu["g"][3][0][0], tuple) and mu["g"][3][0][0] and isinstance(mu["g"][3][0][0][0], tuple) else (mu["g"][3][0][0],)), mu["g"][3][0][1], mu["g"][3][0][2]
        mf = pmatch("frozenset(Q_t)", mu["g"][2])
        mc = pmatch("chain([Q_e], Q_e.independent_list)", it)
        okI = mf is not None and _tf(mf["t"], b) and mc is not None and mc["e"] == el2 and not conds
        if okI:
            break
    ctx.check(okI, rule + ".independents", fn.site, "_simultaneous.independents", found=detail,
              required="independents[t1] gets t2 for every t1, t2 among the transactions of a body and of its independent_list (through transactions_for), symmetrically")

    # ---- closure ------------------------------------------------------------------------------------------------------
    exts = [(x, a) for x, a in effects if pmatch("Q_q.extend(Q_g)", a.call) is not None]
    okC = False
    detail = "no worklist extension"
    tr_set = None
    for x, a in exts:
        mq = pmatch("Q_q.extend(Q_g)", a.call)
        q, gexp = mq["q"], mq["g"]
        qo = x.obj(q)
        detail = tstr(a.call)[:200]
        if qo is None or gexp[0] != "lc" or len(gexp[3]) != 1:
            continue
        ctor = pmatch("Q_d(Q_init)", qo.ctor)
        okq = ctor is not None and ctor["init"] == sim_set
        other, it, conds = gexp[3][0]
        other = other[0] if isinstance(other, tuple) and other and isinstance(other[0], tuple) else other
        elt = gexp[2]
        grp = [t for t in (elt[2], elt[3]) if t != other] if elt[0] == "op" and elt[1] == "|" and len(elt) == 4 else []
        okg = len(grp) == 1 and it == sim_set and len(conds) == 1 and conds[0][0] == "op" and conds[0][1] == "&" and set(conds[0][2:]) == {grp[0], other}
        new = grp[0] if grp else None
        nd = x.vardef(new) if new is not None else None
        okn = nd is not None and pmatch("Q_q.popleft()", nd) == {"q": q} or (nd is not None and pmatch("Q_q.pop()", nd) == {"q": q}) or (nd is not None and pmatch("Q_q.pop(0)", nd) == {"q": q})
        # recorded as a group
        recs = [b for _, b in effects if pmatch("Q_s.add(Q_g)", b.call) is not None and pmatch("Q_s.add(Q_g)", b.call)["g"] == new]
        if not (okq and okg and okn and len(recs) >= 1):
            detail += f" (worklist from the pair set: {okq}, unites groups sharing a member: {okg}, group taken from the worklist: {okn}, recorded: {len(recs)})"
            continue
        tr_set = pmatch("Q_s.add(Q_g)", recs[0].call)["s"]
        # skip test: already known, or contains two independent members
        # the `continue` of the worklist loop: the one whose test looks the group up among the recorded ones
        # (object numbers differ between configurations that part before the set is created: compare the constructors)
        def _same_set(jx, s):
            return s == tr_set or (s[0] == "obj" and jx.obj(s) is not None and x.obj(tr_set) is not None and jx.obj(s).ctor == x.obj(tr_set).ctor
                                   and getattr(jx.obj(s), "site", None) == getattr(x.obj(tr_set), "site", None))

        skips = []
        for jx, j in fn.facts(Jump, lambda j: j.kind == "continue"):
            for t in atoms_of(py_guard(j)):
                mk = pmatch("Q_g in Q_s", t)
                if mk is not None and mk["g"] == new and _same_set(jx, mk["s"]):
                    skips.append((jx, j, mk["s"]))
        if skips:
            tr_set_j = skips[0][2]
            indep_j = None
            skips = [skips[0][1]]
        else:
            tr_set_j = tr_set
        oks = False
        if skips:
            gs = py_guard(skips[0])
            ats = atoms_of(gs)
            known = [t for t in ats if pmatch("Q_g in Q_s", t) == {"g": new, "s": tr_set_j}]
            rest = [t for t in ats if t not in known]
            okconf = False
            if len(known) == 1 and len(rest) == 1:
                okconf = _conflicting(rest[0], new, indep_tab, ctx.__dict__.get("_weak_independents"), sim_set)
            oks = okconf and equivalent(gs, f_or(A(known[0]), A(rest[0]))) is None
            detail += f"; skipped if {fstr(gs)[:260]}"
            # both effects happen exactly when the group is not skipped
            test = None
            for fr in skips[0].frames:
                if fr[0] == "py":
                    test = fr[1]
            for cx in fn.exs:
                dec = dict((t, v) for t, v in cx.config)
                if test in dec:
                    has_ext = any(pmatch("Q_q.extend(Q_g)", b.call) is not None for b in cx.of(Effect))
                    has_rec = any(pmatch("Q_s.add(Q_g)", b.call) is not None and pmatch("Q_s.add(Q_g)", b.call)["s"] == tr_set for b in cx.of(Effect))
                    if dec[test] and (has_ext or has_rec):
                        oks = False
                    if not dec[test] and not (has_ext and has_rec):
                        oks = False
        okC = oks
        if okC:
            break
    ctx.check(okC, rule + ".closure", exts[0][1].site if exts else fn.site, "_simultaneous.closure", found=detail,
              required="worklist seeded with the pairs; a group taken from it is skipped iff already recorded or containing two different independent members; "
                       "otherwise it is recorded and its union with every pair sharing a member is queued")
    # the callers of one nonexclusive body may be *required* to be simultaneous (F27), but the closure must not join two of them
    # through a common partner: exempting them from independence altogether makes two unrelated callers of a nonexclusive
    # method with a condition() runnable only together (first repair of F27, findings/F33_*.py)
    exempt = ctx.__dict__.get("_nonexclusive_callers_exempt")
    weak = ctx.__dict__.get("_weak_independents")
    ctx.check(not exempt or weak is not None, rule + ".closure-keeps-callers-apart", fn.site, "_simultaneous.closure.nonexclusive-callers",
              found="callers of a nonexclusive body are " + ("kept in a second table the closure consults" if weak is not None else "exempt from independence altogether" if exempt else "independent"),
              required="pairs exempt from the rejection are still kept apart by the transitivity step unless the pair itself is required to be simultaneous")

    # ---- maximal groups, retired transactions ------------------------------------------------------------------------------
    okM = False
    detail = "no filter over the recorded groups"
    final = None
    for x in fn.exs:
        for t in list(x.vardefs.values()) + [f.value for f in x.of(Store)] + [l for fct in x.facts for l in (fr[2] for fr in fct.frames if fr[0] == "for")]:
            for s in subterms(t):
                mf = pmatch("set(filter(Q_p, Q_s))", s) or pmatch("filter(Q_p, Q_s)", s)
                if mf is None or tr_set is None or mf["s"] != tr_set:
                    continue
                lt = _lam(x, mf["p"])
                detail = f"filter predicate {tstr(lt[1])[:200] if lt else 'not a one-expression function'}"
                if lt is None or lt[0] != 1:
                    continue
                body = lt[1]
                # not any(group <= g2 and group != g2 for g2 in groups)
                mn = pmatch("not any(Q_g)", body)
                if mn is None or mn["g"][0] != "lc" or len(mn["g"][3]) != 1:
                    continue
                b2, it2, conds2 = mn["g"][3][0]
                f = to_formula(mn["g"][2])
                sub = [a for a in atoms_of(f) if pmatch("Q_a.issubset(Q_b)", a) == {"a": ("lp", 0), "b": b2} or pmatch("Q_a <= Q_b", a) == {"a": ("lp", 0), "b": b2}]
                ne = [a for a in atoms_of(f) if a not in sub]
                okne = len(ne) == 1 and ne[0][0] == "op" and ne[0][1] in ("==", "!=") and set(ne[0][2:]) == {("lp", 0), b2}
                if it2 == tr_set and not conds2 and len(sub) == 1 and okne:
                    want = f_and(A(sub[0]), A(ne[0]) if ne[0][1] == "!=" else f_not(A(ne[0])))
                    if equivalent(f, want) is None:
                        okM = True
                        final = s
    ctx.check(okM, rule + ".maximal", fn.site, "_simultaneous.maximal", found=detail,
              required="a recorded group is built iff no other recorded group strictly contains it")

    # transactions that appear in a pair are retired from the plain list
    okR = False
    detail = "self.transactions is not filtered"
    for x, s in fn.facts(Store, lambda s: s.target == ("a", ("self",), "transactions") and s.aug is None):
        mf = pmatch("list(filter(Q_p, self.transactions))", s.value)
        if mf is None:
            continue
        lt = _lam(x, mf["p"])
        detail = f"kept iff {tstr(lt[1])[:160] if lt else '?'}"
        if lt is None or lt[0] != 1:
            continue
        f = to_formula(lt[1])
        ats = atoms_of(f)
        if len(ats) != 1:
            continue
        mi = pmatch("Q_t._body in Q_all", ats[0])
        if mi is None or mi["t"] != ("lp", 0) or equivalent(f, f_not(A(ats[0]))) is not None:
            continue
        allset = mi["all"]
        # the set collects transactions_for(partner) for every partner of every body
        for _, u in effects:
            mu = pmatch("Q_all.update(Q_v)", u.call)
            lu = loops(u)
            if mu is not None and mu["all"] == allset and len(lu) == 2 and _elems(lu[0][1]) and lu[1][1] == ("a", lu[0][0][0], "simultaneous_list") and _tf(mu["v"], lu[1][0][0]) and py_guard(u) is True:
                okR = True
                detail += f"; {tstr(u.call)} over every partner"
    ctx.check(okR, rule + ".retired", fn.site, "_simultaneous.retired", found=detail,
              required="a transaction is kept as a plain transaction iff it does not reach a body that has a simultaneous partner (those run only inside merged transactions)")

    # ---- relations removed ---------------------------------------------------------------------------------------------------
    okF = False
    detail = "no relation rewrite"
    for x, s in fn.facts(Store, lambda s: pmatch("Q_e.relations", s.target) is not None):
        mf = pmatch("list(filterfalse(Q_p, Q_e.relations))", s.value)
        el = pmatch("Q_e.relations", s.target)["e"]
        if mf is None or mf["e"] != el or not loops(s) or loops(s)[0][0][0] != el:
            continue
        lt = _lam(x, mf["p"])
        detail = f"removed iff {tstr(lt[1])[:220] if lt else '?'}"
        if lt is None or lt[0] != 1:
            continue
        f = to_formula(lt[1])
        ats = atoms_of(f)
        confl = [a for a in ats if a == ("a", ("lp", 0), "conflict")]
        part = [a for a in ats if pmatch("Q_r.end in frozenset(Q_e.simultaneous_list)", a) == {"r": ("lp", 0), "e": el} or pmatch("Q_r.end in Q_e.simultaneous_list", a) == {"r": ("lp", 0), "e": el}]
        okF = len(confl) == 1 and len(part) == 1 and implies(f, f_and(f_not(A(confl[0])), A(part[0]))) is None
    ctx.check(okF, rule + ".relations-removed", fn.site, "_simultaneous.relation-filter", found=detail,
              required="a relation is removed only if it is not a conflict and its end is a simultaneous partner of the body it is declared on")


def _independents_by_group(fn, ex, a, la, mi, tab_cond=None):
    """The independence table filled group by group: L = [transactions_for(b) for b in [e] + e.independent_list],
    for (k1, k2) in range(len(L))^2, for (t1, t2) in L[k1] x L[k2]: independents[t1].add(t2) - all pairs, except possibly
    the pairs among the callers of e itself (k1 = k2 = 0) when e is nonexclusive (F27).
    Returns (shape recognised and complete, exemption present)."""
    el, kk, pr = la[0][0][0], la[1][0][0], la[2][0][0]
    mk = pmatch("product(range(len(Q_l)), repeat=2)", la[1][1])
    if mk is None or {mi["a"], mi["b"]} != {("i", pr, ("c", 0)), ("i", pr, ("c", 1))}:
        return False, False
    lst = ex.vardef(mk["l"]) or mk["l"]
    if lst[0] != "lc" or len(lst[3]) != 1:
        return False, False
    b, it, conds = lst[3][0]
    b = b[0] if isinstance(b, tuple) and b and isinstance(b[0], tuple) else b
    mf = pmatch("frozenset(Q_t)", lst[2])
    mc = pmatch("chain([Q_e], Q_e.independent_list)", it)
    if not (mf is not None and _tf(mf["t"], b) and mc is not None and mc["e"] == el and not conds):
        return False, False
    mp = pmatch("product(Q_x, Q_y)", la[2][1])
    if mp is None:
        return False, False
    want = {("i", mk["l"], ("i", kk, ("c", 0))), ("i", mk["l"], ("i", kk, ("c", 1)))}
    want2 = {("i", lst, ("i", kk, ("c", 0))), ("i", lst, ("i", kk, ("c", 1)))}
    if {mp["x"], mp["y"]} not in (want, want2) or mp["x"] == mp["y"]:
        return False, False
    from ..term import mk_op

    first = [A(mk_op("==", ("i", kk, ("c", k)), ("c", 0))) for k in (0, 1)]
    nonex = A(("a", el, "nonexclusive"))
    exemption = f_and(nonex, *first)
    g = py_guard(a)  # includes the negated test of an `if ..: continue` earlier in the loop body (stage.walk_body)
    if tab_cond is not None:
        # the exempt pairs go to a second (weak) table instead of being skipped
        return (True, True) if g is True and equivalent(to_formula(tab_cond), exemption) is None else (False, False)
    if g is True:
        return True, False
    if equivalent(g, f_not(exemption)) is None:
        return True, True
    return False, False


def nonexclusive_callers_mergeable(ctx: Ctx, pid: str):
    """F27 (acceptance clause of C11): transactions calling the same *nonexclusive* method are not independent alternatives -
    they neither conflict nor double-call when merged - so requiring them to be simultaneous (a nonexclusive method called in
    a body and in one of its condition() branches) is not an error."""
    simultaneous_groups(ctx, pid)
    fn = _fn(ctx, MANAGER, "TransactionManager._simultaneous", pid)
    ctx.check(ctx.__dict__.get("_nonexclusive_callers_exempt") is True, f"{pid}.nonexclusive-callers-mergeable", fn.site, "_simultaneous.independents.nonexclusive",
              found="the callers of a nonexclusive method are " + ("exempt" if ctx.__dict__.get("_nonexclusive_callers_exempt") else "made pairwise independent like those of an exclusive one"),
              required="the pairs among the callers of a body itself are skipped when the body is nonexclusive (pairs involving its independent_list are kept)")


def retired_stay(ctx: Ctx, pid: str):
    """F28: a transaction that is retired from the plain list (it may only run inside a merged transaction) stays in the
    design as a method - whether or not it ended up in a group - so that its relations (the ready dependency of the bodies
    nested in it) are still seen: the loop that wraps transactions into methods ranges over the same set the retiring
    filter tests."""
    rule = f"{pid}.simultaneous-retired-stay"
    fn = _fn(ctx, MANAGER, "TransactionManager._simultaneous", rule)
    def retired_set(x):
        # (per configuration: object numbers differ between configurations)
        for s in x.of(Store):
            if s.target == ("a", ("self",), "transactions") and s.aug is None:
                mf = pmatch("list(filter(Q_p, self.transactions))", s.value)
                lt = _lam(x, mf["p"]) if mf else None
                if lt is not None and lt[0] == 1:
                    ats = atoms_of(to_formula(lt[1]))
                    mi = pmatch("Q_t._body in Q_all", ats[0]) if len(ats) == 1 else None
                    if mi is not None:
                        return mi["all"]
        return None

    wraps = [(x, e) for x, e in fn.facts(Effect) if pmatch("Q_m._set_impl(Q_t)", e.call) is not None and loops(e)]
    ctx.floor(rule, "transactions wrapped into methods", len(wraps), 1, fn.site)
    ok = True
    detail = ""
    for x, e in wraps:
        allset = retired_set(x)
        if allset is None:
            ok = False
            detail = "retiring filter not recognised"
            continue
        m = pmatch("Q_m._set_impl(Q_t)", e.call)
        lp = loops(e)
        it = x.vardef(lp[0][1]) or lp[0][1]
        reg = [r for r in x.of(Effect) if pmatch("self.methods.append(Q_m)", r.call) == {"m": m["m"]} and loops(r) == lp and py_guard(r) is True]
        ok1 = len(lp) == 1 and m["t"] == lp[0][0][0] and lp[0][1] == allset and py_guard(e) is True and bool(reg)
        ok = ok and ok1
        detail = f"{tstr(e.call)} for {tstr(lp[0][0][0])} in {tstr(it)[:120]}; registered: {bool(reg)}; retired set: {tstr(allset) if allset else '?'}"
    ctx.check(ok, rule, wraps[0][1].site, "_simultaneous.wrapped-transactions", found=detail,
              required="every transaction taken out of the plain list is wrapped into a method and appended to self.methods (also when it is in no "
                       "group: it never runs, but the bodies nested in it must stay blocked by it)")


def _partners_missing(elt, grp, body, dep, dit, dc, _b) -> bool:
    """The general form (F48): for dep in body.simultaneous_list (every partner, not only an enclosing one):
    not any(group & frozenset(transactions_for(alt)) for alt in ALTS), where ALTS are the partners of `body` that are `dep`
    itself or are declared alternatives of it (members of one family [x, *x.independent_list], x a partner of body)."""
    if dit != ("a", body, "simultaneous_list") or dc:
        return False
    if not (elt[0] == "op" and elt[1] == "not" and len(elt) == 3):
        return False
    inner = pmatch("any(Q_g)", elt[2])
    if inner is None or inner["g"][0] != "lc" or len(inner["g"][3]) != 1:
        return False
    ab, ait, ac = inner["g"][3][0]
    ab = _b(ab)
    ie = inner["g"][2]
    if ac or not (ie[0] == "op" and ie[1] == "&" and len(ie) == 4 and grp in ie[2:]):
        return False
    other = [t for t in ie[2:] if t != grp]
    mo = pmatch("frozenset(Q_t)", other[0]) if len(other) == 1 else None
    if mo is None or not _tf(mo["t"], ab):
        return False
    # ALTS: [d for d in body.simultaneous_list if d is dep or <d and dep share a family>]
    if ait[0] != "lc" or len(ait[3]) != 1:
        return False
    cb, cit, cc = ait[3][0]
    cb = _b(cb)
    if ait[2] != cb or cit != ("a", body, "simultaneous_list") or len(cc) != 1:
        return False
    f = to_formula(cc[0])
    ats = atoms_of(f)
    same = [t for t in ats if t[0] == "op" and t[1] in ("is", "==") and set(t[2:]) == {cb, dep}]
    fam = [t for t in ats if t not in same]
    if len(same) != 1 or len(fam) != 1 or equivalent(f, f_or(A(same[0]), A(fam[0]))) is not None:
        return False
    # the family test: any(dep in f and d in f for f in [[x, *x.independent_list] for x in body.simultaneous_list])
    mf = pmatch("any(Q_g)", fam[0])
    if mf is None or mf["g"][0] != "lc" or len(mf["g"][3]) != 1:
        return False
    fb, fit, fc = mf["g"][3][0]
    fb = _b(fb)
    ff = to_formula(mf["g"][2])
    want = f_and(A(("op", "in", cb, fb)), A(("op", "in", dep, fb)))
    if fc or equivalent(ff, want) is not None:
        return False
    if fit[0] != "lc" or len(fit[3]) != 1:
        return False
    xb, xit, xc = fit[3][0]
    xb = _b(xb)
    return not xc and xit == ("a", body, "simultaneous_list") and fit[2] == ("list", xb, ("star", ("a", xb, "independent_list")))


def _enclosing_missing_atom(x, a, gb) -> bool:
    """a == any(not group & frozenset(transactions_for(dep)) for t in group for dep in ready_dependencies[t] if dep in t.simultaneous_list)
    for the group bound by `gb` (None: any binder), ready_dependencies being the result of self._ready_dependencies."""
    ma = pmatch("any(Q_g)", a)
    if ma is None or ma["g"][0] != "lc" or len(ma["g"][3]) != 3:
        return False

    def _b(b):
        return b[0] if isinstance(b, tuple) and b and isinstance(b[0], tuple) else b

    # for t in group, for body in <map>.ready_for_transaction(t) (t itself and every method it calls: F34), for dep in rd[body]
    (mb, tit, tc), (tb, bit, bc), (db, dit, dc) = ma["g"][3]
    mb, tb, db = _b(mb), _b(tb), _b(db)
    grp = tit
    mr = pmatch("Q_mm.ready_for_transaction(Q_t)", bit)
    if _partners_missing(ma["g"][2], grp, tb, db, dit, dc, _b) and not ((gb is not None and grp != gb) or tc or bc or mr is None or mr["t"] != mb):
        return True
    md = pmatch("Q_rd[Q_t]", dit)
    if (gb is not None and grp != gb) or tc or bc or mr is None or mr["t"] != mb or md is None or md["t"] != tb:
        return False
    if len(dc) != 1 or pmatch("Q_d in Q_t.simultaneous_list", dc[0]) != {"d": db, "t": tb}:
        return False
    rdo = x.vardef(md["rd"]) or md["rd"]
    if pmatch("self._ready_dependencies(Q_mm)", rdo) is None:
        return False
    elt = ma["g"][2]
    if not (elt[0] == "op" and elt[1] == "not" and len(elt) == 3):
        return False
    inter = elt[2]  # a set intersection, not a conjunction: read structurally
    if not (inter[0] == "op" and inter[1] == "&" and len(inter) == 4 and grp in inter[2:]):
        return False
    other = [t for t in inter[2:] if t != grp]
    mo = pmatch("frozenset(Q_t)", other[0]) if len(other) == 1 else None
    return mo is not None and _tf(mo["t"], db)


def selection_liveness(ctx: Ctx, pid: str):
    """F49 (C07, liveness of merged transactions): the groups that are built are the MAXIMAL elements of the closure, and two
    callers of one nonexclusive method are kept apart by the closure unless the pair itself is required.  A design whose only
    complete group has to contain two such callers (A writes c1 and calls N, M reads c1 and writes c2, R reads c2 and calls N,
    N nonexclusive) therefore has no group at all: every incomplete group is skipped and A, M, R never run although nothing
    conflicts.  Building the inclusion-MINIMAL complete groups instead (weakly independent callers allowed in the closure)
    would serve both this design and the callers of a nonexclusive method with a condition(); the present structure cannot."""
    simultaneous_groups(ctx, pid)
    rule = f"{pid}.simultaneous-selection"
    fn = _fn(ctx, MANAGER, "TransactionManager._simultaneous", rule)
    weak = ctx.__dict__.get("_weak_independents")
    maximal = False
    for x in fn.exs:
        for t in list(x.vardefs.values()):
            for s in subterms(t):
                mf = pmatch("set(filter(Q_p, Q_s))", s) or pmatch("filter(Q_p, Q_s)", s)
                lt = _lam(x, mf["p"]) if mf else None
                if lt is not None and lt[0] == 1 and pmatch("not any(Q_g)", lt[1]) is not None and "issubset" in tstr(lt[1]):
                    maximal = True
    ctx.check(not (weak is not None and maximal), rule, fn.site, "_simultaneous.selection", found="maximal groups of a closure that keeps weakly independent callers apart" if maximal else "no maximal-group selection",
              required="a design whose only complete group joins two callers of one nonexclusive method still gets that group (select the minimal complete groups)")


def group_complete(ctx: Ctx, pid: str):
    """F48 (C13 itself): a merged transaction that runs a body runs each of its simultaneous partners (one of a family of
    alternatives) as well - the group test ranges over EVERY partner of every body the group runs, not only over the body a
    nested member is enclosed in.  (group_has_enclosing decides that the members are called iff the test is false.)"""
    rule = f"{pid}.simultaneous-group-complete"
    fn = _fn(ctx, MANAGER, "TransactionManager._simultaneous", rule)
    general = False
    for x, j in fn.facts(Jump, lambda j: j.kind == "continue"):
        lp = loops(j)
        if len(lp) != 1:
            continue
        for a in atoms_of(py_guard(j)):
            ma = pmatch("any(Q_g)", a)
            if ma is not None and ma["g"][0] == "lc" and len(ma["g"][3]) == 3 and _enclosing_missing_atom(x, a, lp[0][0][0]):
                body = ma["g"][3][1][0]
                body = body[0] if isinstance(body, tuple) and body and isinstance(body[0], tuple) else body
                general = general or ma["g"][3][2][1] == ("a", body, "simultaneous_list")
    ctx.check(general, rule, fn.site, "_simultaneous.group-filter.partners", found="the group test ranges over " + ("every simultaneous partner" if general else "enclosing bodies only (or is absent)"),
              required="a group is skipped unless, for every body it runs and every simultaneous partner of that body, the group contains a caller of the partner or of one of its declared alternatives")


def group_has_enclosing(ctx: Ctx, pid: str):
    """F29: a merged transaction is built for a group only if, for every member and every body the member is both
    ready-dependent on and simultaneous with (the body enclosing a condition() branch), the group contains a transaction
    that runs that body.  Decided per configuration of `_simultaneous`: the group loop is left (`continue`) exactly under
    that test, and the members are called exactly in the configurations where the test is false."""
    rule = f"{pid}.simultaneous-group-has-enclosing"
    fn = _fn(ctx, MANAGER, "TransactionManager._simultaneous", rule)
    calls = [(x, c) for x, c in fn.facts(MethodCall) if len(loops(c)) == 2]
    ctx.floor(rule, "member calls", len(calls), 1, fn.site)
    skips = []
    for x, j in fn.facts(Jump, lambda j: j.kind == "continue"):
        lp = loops(j)
        if len(lp) != 1:
            continue
        g = py_guard(j)
        for a in atoms_of(g):
            if _enclosing_missing_atom(x, a, lp[0][0][0]) and equivalent(g, A(a)) is None:
                skips.append((x, j, a))
    ok = bool(skips)
    detail = f"{len(skips)} group-level skip(s) with that test"
    n_true = n_false = 0
    for x in fn.exs:
        dec = [v for t, v in x.config if _enclosing_missing_atom(x, t, None)]
        member_calls = [c for c in x.of(MethodCall) if len(loops(c)) == 2]
        if not dec:
            continue
        if dec[-1]:
            n_true += 1
            ok = ok and not member_calls
        else:
            n_false += 1
            ok = ok and bool(member_calls)
    ok = ok and n_true >= 1 and n_false >= 1
    detail += f"; configurations: test true {n_true} (no member called), test false {n_false} (members called)"
    ctx.check(ok, rule, (skips[0][1].site if skips else calls[0][1].site), "_simultaneous.group-filter", found=detail,
              required="a group is built iff every member's enclosing simultaneous body (a ready dependency that is also a simultaneous partner) is run by "
                       "some transaction of the group: skip if any(not group & transactions_for(dep) for t in group for dep in ready_dependencies[t] "
                       "if dep in t.simultaneous_list)")


def _conflicting(t, group, tab, weak=None, pairs_set=None) -> bool:
    """t == conflicting(group): any two different members are independent."""
    body = None
    m = pmatch("any(Q_g)", t)
    if m is not None:
        body = m["g"]
    if body is None or body[0] != "lc" or len(body[3]) != 2 or tab is None:
        return False
    (b1, it1, c1), (b2, it2, c2) = body[3]
    b1 = b1[0] if isinstance(b1, tuple) and b1 and isinstance(b1[0], tuple) else b1
    b2 = b2[0] if isinstance(b2, tuple) and b2 and isinstance(b2[0], tuple) else b2
    if it1 != group or it2 != group or c1 or c2:
        return False
    f = to_formula(body[2])
    ats = atoms_of(f)
    ne = [a for a in ats if a[0] == "op" and a[1] in ("!=", "==", "is") and set(a[2:]) == {b1, b2}]
    ind = [a for a in ats if (pmatch("Q_a in Q_tab[Q_b]", a) or {}).get("tab") == tab and {pmatch("Q_a in Q_tab[Q_b]", a)["a"], pmatch("Q_a in Q_tab[Q_b]", a)["b"]} == {b1, b2}]
    if len(ne) != 1 or len(ind) != 1:
        return False
    differ = A(ne[0]) if ne[0][1] == "!=" else f_not(A(ne[0]))
    if weak is None:
        return len(ats) == 2 and equivalent(f, f_and(differ, A(ind[0]))) is None
    # with a weak table (callers of one nonexclusive body): weakly independent members conflict unless the pair itself is
    # required to be simultaneous - otherwise the closure would glue unrelated callers together through a common partner
    wk = [a for a in ats if (pmatch("Q_a in Q_tab[Q_b]", a) or {}).get("tab") == weak and {pmatch("Q_a in Q_tab[Q_b]", a)["a"], pmatch("Q_a in Q_tab[Q_b]", a)["b"]} == {b1, b2}]
    req = [a for a in ats if pmatch("frozenset({Q_a, Q_b}) in Q_s", a) is not None and {pmatch("frozenset({Q_a, Q_b}) in Q_s", a)["a"], pmatch("frozenset({Q_a, Q_b}) in Q_s", a)["b"]} == {b1, b2}
           and pmatch("frozenset({Q_a, Q_b}) in Q_s", a)["s"] == pairs_set]
    if len(wk) != 1 or len(req) != 1 or len(ats) != 4:
        return False
    return equivalent(f, f_and(differ, f_or(A(ind[0]), f_and(A(wk[0]), f_not(A(req[0])))))) is None
