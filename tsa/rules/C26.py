"""C26 - PreservedOrderAllocator tracks allocation order (used-count algebra, shift-down idiom, delegation)."""

from .common import *
from . import excl
from ..pm import pmatch, pat, has
from .C20 import resolve_comb

REL = "transactron/lib/allocators.py"
ENT = pat("self.entries")
SIZES = [1, 2, 3, 4, 5, 8]


def check(ctx):
    ctx.use(REL)
    comp = Component(ctx.repo, REL, "PreservedOrderAllocator", rule="C26")
    comp.require_modelled("C26")
    ex = one_config(comp, "C26")
    alloc, free, free_idx, order, clear = (need_body(ex, n, "C26", comp.site) for n in ("alloc", "free", "free_idx", "order", "clear"))
    excl.exclusive(ctx, "C26", "PreservedOrderAllocator", alloc, free, free_idx)
    from . import ranges as _rg

    for meth, d, fld in (("alloc", "o", "ident"), ("free", "i", "ident"), ("free_idx", "i", "idx"), ("order", "o", "order")):
        _rg.ident_field_range(ctx, "C26.ident-range", comp.site, f"POA.{meth}.{fld}", comp.init_attr(meth), d, fld, "self.entries", "identifiers and positions range over the entries")
    # the position computed by `free` and handed to free_idx is as wide as the field it is passed in
    for mc in ex.of(MethodCall):
        if mc.callee == ("a", ("self",), "free_idx"):
            for k, v in mc.kwargs:
                o_ = ex.obj(v)
                if k == "idx" and o_ is not None:
                    _rg.signal_range(ctx, "C26.ident-range", o_.site, "POA.free.position", o_.ctor, "self.entries", "a position among the entries")
    rf = returned_fields(order)
    used = rf.get("used")
    o = ex.obj(used) if used else None
    m = pmatch("Signal(range(Q_n))", o.ctor) if o else None
    ctx.check(m is not None and lin_equal(m["n"], pat("self.entries + 1")), "C26.used-range", o.site if o else comp.site, "POA.used.shape", found=tstr(o.ctor) if o else "none", required="used counter: Signal(range(entries + 1))")
    if m is None:
        return
    from . import ranges

    ranges.layout_field_range(ctx, "C26.used-range", comp.site, "POA.order.used-field", comp.init_attr("order"), "o", "used", "self.entries + 1", "the reported count can be entries")
    t = decision_table(ex, used, sync=True)
    plain = [w for w in t.writers if w.guard is True]
    # intermediate signals on the way to the next count hold 0..entries as well
    for w_ in plain:
        for x in subterms(w_.rhs):
            if x[0] == "obj" and ex.obj(x) is not None and ex.obj(x).ctor[0] == "call" and ex.obj(x).ctor[1] == ("n", "Signal") and any(lin_equal(resolve_comb(ex, x, 1), ("op", "+", used, a)) for a in (pat("self.alloc.run"),)):
                ranges.signal_range(ctx, "C26.used-range", ex.obj(x).site, "POA.incremented-count.shape", ex.obj(x).ctor, "self.entries + 1", "used + 1 can be entries")
    want = ("op", "-", ("op", "+", used, pat("self.alloc.run")), pat("self.free_idx.run"))
    okp = len(plain) == 1 and lin_equal(resolve_comb(ex, plain[0].rhs), want)
    ctx.check(okp, "C26.used-update", plain[0].fact.site if plain else comp.site, "POA.used'", found=lin_str(to_lin(resolve_comb(ex, plain[0].rhs))) if plain else "none", required="used' = used + alloc.run - free_idx.run")
    check_table(ctx, "C26.clear-wins", comp.site, "POA.used'", t, [(run_f(clear), const_pred(0), "clear resets the used count (last writer)")])
    check_agree(ctx, "C26.alloc-ready", alloc.site, "POA.alloc.ready", alloc.ready, ("op", "!=", used, ENT), {ENT: SIZES}, {used: (0, ENT)}, "alloc ready iff not all identifiers are used")
    arr = None
    ident = returned_fields(alloc).get("ident")
    if ident is not None and ident[0] == "i" and ident[2] == used:
        arr = ident[1]
    ctx.check(arr is not None, "C26.alloc-returns", alloc.site, "POA.alloc.ret", found=tstr(ident) if ident else "none", required="alloc returns order[used]: the first unused entry")
    if arr is None:
        return
    no_effects(ctx, "C26.alloc-effect-free", comp, ex, alloc)
    ao = ex.obj(arr)
    okinit = False
    if ao is not None:
        for s in subterms(ao.ctor):
            if s[0] == "lc" and ex.obj(s[2]) is not None:
                mm = pmatch("Signal(range(self.entries), init=Q_e)", ex.obj(s[2]).ctor)
                okinit = mm is not None and mm["e"] == s[3][0][0] and s[3][0][1] == pat("range(self.entries)")
    ctx.check(okinit, "C26.order-init", ao.site if ao else comp.site, "POA.order.init", found=tstr(ao.ctor)[:160] if ao else "none", required="order[i] initialised to i (identity permutation)")
    # free_idx: shift-down idiom
    idx = ("a", ("arg", free_idx.bodyid), "idx")
    fw = [h for h in facts_in_body(ex, free_idx, HwAssign) if is_sync(h.domain)]
    shift = [h for h in fw if [fr for fr in h.frames if fr[0] == "for"]]
    last = [h for h in fw if not [fr for fr in h.frames if fr[0] == "for"]]
    ok = len(shift) == 1 and len(last) == 1
    detail = "; ".join(f"{tstr(h.lhs)} <- {tstr(h.rhs)} under {[tstr(fr[1]) for fr in h.frames if fr[0] == 'if']}" for h in fw)
    if ok:
        h = shift[0]
        (b,) = [fr for fr in h.frames if fr[0] == "for"][0][1]
        it = [fr for fr in h.frames if fr[0] == "for"][0][2]
        ifs = [fr for fr in h.frames if fr[0] == "if"]
        ok = (h.lhs == ("i", arr, b) and h.rhs[0] == "i" and h.rhs[1] == arr and lin_equal(h.rhs[2], ("op", "+", b, ("c", 1)))
              and pmatch("range(Q_n)", it) is not None and lin_equal(pmatch("range(Q_n)", it)["n"], pat("self.entries - 1")) and len(ifs) == 1)
        if ok:
            # guard class: i >= idx  (a strict comparison would keep the freed position)
            g = ifs[0][1]
            try:
                cex = agree_bounded(g, ("op", "<=", idx, b), box({}, {idx: (0, 6), b: (0, 6)}), [idx, b])
            except NotEvaluable as e:
                raise AnalysisError("C26.shift-down", h.site, f"shift guard not evaluable: {e}")
            ok = cex is None
        hl = last[0]
        ok = ok and hl.lhs[0] == "i" and hl.lhs[1] == arr and lin_equal(hl.lhs[2], pat("self.entries - 1")) and hl.rhs == ("i", arr, idx) and hl.seq > h.seq
    ctx.check(ok, "C26.shift-down", free_idx.site, "POA.free_idx.shift", found=detail,
              required="for every i in range(entries-1): i >= idx => order[i] <- order[i+1]; then order[entries-1] <- order[idx] (the freed identifier moves to the unused end)")
    # free: equality scan + delegation
    call, all_ = unguarded_call(ex, free, pat("self.free_idx"))
    ok = call is not None
    detail = "; ".join(f"{tstr(c.callee)}({dict(c.kwargs)})" for c in all_) or "no call"
    if ok:
        pos = dict(call.kwargs).get("idx")
        ws = writers_of(ex, pos) if pos is not None else []
        ok = len(ws) == 1 and enclosing_body(ex, ws[0].fact) is free
        if ok:
            h = ws[0].fact
            (b,) = [fr for fr in h.frames if fr[0] == "for"][0][1] if [fr for fr in h.frames if fr[0] == "for"] else (None,)
            ifs = [fr for fr in h.frames if fr[0] == "if"]
            ident_a = ("a", ("arg", free.bodyid), "ident")
            ok = b is not None and h.rhs == b and len(ifs) == 1 and equivalent(to_formula(ifs[0][1]), to_formula(("op", "==", ident_a, ("i", arr, b)))) is None
            it = [fr for fr in h.frames if fr[0] == "for"][0][2] if b is not None else None
            ok = ok and it == pat("range(self.entries)")
            detail += f"; idx <- {tstr(h.rhs)} if {[tstr(fr[1]) for fr in ifs]} for {tstr(it) if it else None}"
    ctx.check(ok, "C26.free-delegates", free.site, "POA.free", found=detail, required="free finds the position of the identifier by scanning all entries for equality and delegates to free_idx(position)")
    extra = [h for h in facts_in_body(ex, free, HwAssign) if is_sync(h.domain)]
    ctx.check(not extra, "C26.free-no-own-state", free.site, "POA.free.effects", found="; ".join(h.site for h in extra) or "none", required="free changes state only through free_idx")
    # order method
    no_effects(ctx, "C26.order-effect-free", comp, ex, order)
    ol = rf.get("order")
    ok = ol is not None and ol[0] == "lc" and ol[2] == ("i", arr, ol[3][0][0]) and ol[3][0][1] == pat("range(self.entries)")
    ctx.check(ok, "C26.order-returns", order.site, "POA.order.ret", found=tstr(ol)[:120] if ol else "none", required="order returns all entries in position order and the used count")
    # clear: identity permutation, last writer
    cw = [h for h in facts_in_body(ex, clear, HwAssign) if is_sync(h.domain) and h.lhs[0] == "i" and h.lhs[1] == arr]
    ok = len(cw) == 1 and cw[0].lhs[2] == cw[0].rhs and cw[0].rhs[0] == "b" and cw[0].rhs[2] == pat("range(self.entries)") and all(cw[0].seq > h.seq for h in fw)
    ctx.check(ok, "C26.clear-order", clear.site, "POA.clear.order", found="; ".join(f"{tstr(h.lhs)} <- {tstr(h.rhs)}" for h in cw), required="clear restores order[i] = i for every i, emitted after free_idx's writes (wins)")


MUTANTS = [
    ("shift-strict", REL, "                with m.If(i >= idx):\n                    m.d.sync += order[i].eq(order[i + 1])", "                with m.If(i > idx):\n                    m.d.sync += order[i].eq(order[i + 1])"),
    ("shift-short-range", REL, "            for i in range(self.entries - 1):\n                with m.If(i >= idx):", "            for i in range(self.entries - 2):\n                with m.If(i >= idx):"),
    ("freed-id-lost", REL, "m.d.sync += order[self.entries - 1].eq(order[idx])", "m.d.sync += order[self.entries - 1].eq(order[self.entries - 1])"),
    ("used-ignores-free", REL, "m.d.sync += used.eq(incr_used - self.free_idx.run)", "m.d.sync += used.eq(incr_used - self.free.run)"),
    ("alloc-returns-prev", REL, 'return {"ident": order[used]}', 'return {"ident": order[used - 1]}'),
    ("alloc-ready-off", REL, "@def_method(m, self.alloc, ready=used != self.entries)", "@def_method(m, self.alloc, ready=used < self.entries - 1)"),
    ("free-scan-short", REL, "            for i in range(self.entries):\n                with m.If(order[i] == ident):", "            for i in range(self.entries - 1):\n                with m.If(order[i] == ident):"),
    ("clear-keeps-used", REL, "                m.d.sync += order[i].eq(i)\n            m.d.sync += used.eq(0)", "                m.d.sync += order[i].eq(i)"),
    ("free-direct-index", REL, "            self.free_idx(m, idx=idx)", "            self.free_idx(m, idx=ident)"),
]
