"""C03 - a transaction runs only when it is fully enabled."""

from . import core, core2


def check(ctx):
    core2.sched_run_definitions(ctx, "C03", want_equiv=False)
    core2.mgr_scheduler_per_component(ctx, "C03")
    core2.mgr_runnable(ctx, "C03")
    core2.mgr_ready_dependencies(ctx, "C03")
    core2.mgr_method_run(ctx, "C03")
    core2.mm_call_recording(ctx, "C03")
    core2.method_call_lowering(ctx, "C03")
    core2.body_wrappers(ctx, "C03")
    core2.mgr_provided_mirrors(ctx, "C03")
    core2.mgr_argument_routing(ctx, "C03")
    core2.def_method_result(ctx, "C03")
    core2.body_validate_arguments(ctx, "C03")


MUTANTS = []
