"""C03 - a transaction runs only when it is fully enabled."""

from . import core, core2, core3

M = core.MANAGER


def check(ctx):
    from . import core8

    core8.relation_defaults(ctx, "C03")
    core2.sched_run_definitions(ctx, "C03", want_equiv=False)
    core2.mgr_runnable(ctx, "C03")
    core2.mgr_ready_dependencies(ctx, "C03")
    core.mgr_relation_copy(ctx, "C03")  # user-level schedule_before(ready_dependent=True) must survive the copy to bodies
    core.cg_priority_passthrough(ctx, "C03")  # schedule_before passes ready_dependent through
    core2.mm_call_recording(ctx, "C03")
    core2.method_call_lowering(ctx, "C03")
    core2.body_validate_arguments(ctx, "C03")
    core2.body_wrappers(ctx, "C03")


MUTANTS = [
    ("eager-run-without-runnable", core.SCHED, "transaction.run.eq(transaction.ready & transaction.runnable & noconflict)", "transaction.run.eq(transaction.ready & noconflict)"),
    ("rr-request-without-runnable", core.SCHED, "rr.requests[k].eq(transaction.ready & transaction.runnable)", "rr.requests[k].eq(transaction.ready)"),
    ("runnable-any", M, "m.d.comb += transaction.runnable.eq(Cat(runnable_terms).all())", "m.d.comb += transaction.runnable.eq(Cat(runnable_terms).any())"),
    ("runnable-only-direct-methods", M, "                for body in method_map.ready_for_transaction(transaction)\n            ]\n", "                for body in [transaction]\n            ]\n"),
    ("runnable-no-ready-deps", M, "body.ready & Cat(dep.run for dep in ready_dependencies[body]).all()", "body.ready"),
    ("ready-for-transaction-only-self", M, "return [trans] + self.methods_by_transaction[trans]", "return [trans] + self.methods_by_transaction[trans][:1]"),
    ("validators-only-nonexclusive", M, "                if method.validate_arguments is not None\n", "                if method.validate_arguments is not None and method.nonexclusive\n"),
    ("validate-blocks-disabled-calls", core.BODY, "return ~en | Value.cast(method_def_helper(self, self.validate_arguments, arg_rec)).bool()", "return Value.cast(method_def_helper(self, self.validate_arguments, arg_rec)).bool()"),
    ("validate-wrong-enable", M, "return Cat(method._validate_arguments(call.enable, call.arg) for call in calls).all()", "return Cat(method._validate_arguments(calls[0].enable, call.arg) for call in calls).all()"),
    ("nesting-not-ready-dependent", core.BODY, "parent.schedule_before(self, ready_dependent=True)", "parent.schedule_before(self)"),
    ("ready-deps-filed-under-source", M, "ready_dependencies[relation.end].add(body)", "ready_dependencies[body].add(relation.end)"),
    ("rec-skips-disabled-subtree", M, "                    rec(transaction, method, new_ancestors, new_call_path, new_call_enable)", "                    if len(new_call_path) < 2:\n                        rec(transaction, method, new_ancestors, new_call_path, new_call_enable)"),
    ("call-not-recorded-when-conditional", core.METHOD, "        if not isinstance(enable_call, Const) or enable_call.value != 1:\n            with m.If(enable_call):\n                return self(m, arg)", "        if not isinstance(enable_call, Const) or enable_call.value != 1:\n            return self.data_out"),
    ("schedule-before-drops-ready-dependent", core.TBASE, "                ready_dependent=ready_dependent,\n", "                ready_dependent=False,\n"),
    ("body-ready-top-comb", core.METHOD, "m.d.av_comb += body.ready.eq(ready)", "m.d.av_comb += body.ready.eq(1)"),
]
