"""Shared obligation: methods that consume or produce state (read/pop/free, write/push/alloc) are *exclusive*.  A
nonexclusive method may run for several callers in one cycle; its body runs once, so two readers would both receive
the head element while one entry is removed (duplication), two writers would store one of two elements (loss)."""

from __future__ import annotations

from ..term import tstr
from .common import flag_true


def exclusive(ctx, pid: str, owner: str, *bodies):
    for b in bodies:
        if b is None:
            continue
        name = b.owner[2] if isinstance(b.owner, tuple) and len(b.owner) > 2 else str(b.owner)
        ctx.check(not flag_true(b, "nonexclusive") and "combiner" not in b.kwargs, f"{pid}.exclusive-state-methods", b.site, f"{owner}.{name}.exclusive",
                  found="flags " + (", ".join(f"{k}={tstr(v)}" for k, v in sorted(b.kwargs.items())) or "none"),
                  required="a method that removes or stores an element is exclusive: one caller per cycle (no duplication / loss)", nontrivial=False)
